"""C20 correspondence + oracle: malformed data, horizons and settings are rejected, never silently
mis-handled.  Cases = (entry point, randomised valid context, optional single fault)."""
import copy
import c20_entries as E

PROP = "C20"
LEAN_MODULE = "SkVerif.Props.C20"
OBLIGATIONS = [
    "SkVerif.C20.checkY_rejects_iff",
    "SkVerif.C20.checkX_rejects_iff",
    "SkVerif.C20.checkEqualIndex_rejects_iff",
    "SkVerif.C20.checkInt_rejects_iff",
    "SkVerif.C20.checkFh_rejects_iff",
    "SkVerif.C20.entry_rejects_malformed_y",
    "SkVerif.C20.entry_rejects_misaligned_X",
    "SkVerif.C20.entry_rejects_bad_horizon",
    "SkVerif.C20.entry_rejects_missing_horizon",
    "SkVerif.C20.required_rejects_different_horizon",
    "SkVerif.C20.entry_rejects_bad_window_step_sp",
    "SkVerif.C20.entry_rejects_window_not_fitting",
    "SkVerif.C20.reducer_rejects_bad_step",
    "SkVerif.C20.reducer_valid_step_irrelevant",
    "SkVerif.C20.misaligned_X_rejected_by_tuner_and_split",
    "SkVerif.C20.entry_rejects_unknown_strategy",
    "SkVerif.C20.tuner_rejects_unknown_strategy",
    "SkVerif.C20.entry_rejects_ill_formed_composite",
    "SkVerif.C20.rejection_leaves_unfitted",
    "SkVerif.C20.valid_context_accepted",
]
TRUSTED = ["static table of validation calls per entry point (harness/extract/entrychecks.py, AST walk) compared with Val.entryChecks on every run",
           "hand-written model SkVerif/Model/Validate.lean of the validators in sktime/utils/validation/{series,forecasting,__init__}.py and of the order in which each entry point calls them",
           "fractional / wrong-dtype horizon rejection is pandas' Int64Index(dtype=int) cast check = compat emulation: modelled, not verified"]
ASSUMPTIONS = ["a malformed setting counts as applicable to an entry point only where that setting is used (NaiveForecaster(strategy='last') documents that window_length is ignored)",
               "integer time index (regular, or irregular with a gap); datetime/period indexes out of scope",
               "composites are fitted on a regular index only: a member (PolynomialTrendForecaster) needs equally spaced time points, which is beyond the validation layer"]
RULE = ("every enumerated fault class x every entry point that accepts it x randomised otherwise-valid context, plus the near-miss valid context itself; "
        "distinct by driver line; non-trivial = a fault case (rejection expected) or an accepted valid context")
LEVEL_TEXT = ("Lean 4 theorems over a model of sktime's validators and of the check sequence of each forecasting entry point: each validator rejects exactly its malformed classes "
              "(iff characterisations, universally over lengths / values), every applicable fault makes the entry point reject before any fitted state is set, and every valid "
              "context is accepted; tied to the code by differential correspondence of outcomes (rejected / accepted / fitted flag) over the fault x entry-point matrix with randomised "
              "contexts; the statement is evaluated as an oracle on every real outcome.")
LEVEL_NOTE = ("Trusted: Lean kernel; axioms propext/Classical.choice/Quot.sound; model faithfulness as exercised; harness + compat layer. Which exception class (ValueError/TypeError/"
              "NotImplementedError) is raised is not distinguished, as the property allows any of the three.")
TECHNIQUE = "Lean 4 proof (decision functions over input descriptors, case analysis) + differential correspondence over the fault x entry-point matrix"

# ------------------------------------------------------------------ fault matrix
Y_FAULTS = ["unsorted:{n}", "empty", "frame1:{n}", "frame2:{n}", "array:{n}", "array2d:{n}", "list:{n}", "none", "floatidx:{n}"]
X_FAULTS = ["shifted", "shorter", "unsorted", "array", "interior", "first", "last", "longer"]
FH_FAULTS = ["dup", "empty", "frac", "str", "float"]
INT_FAULTS = ["i:0", "i:-1", "i:-5", "f:3/2", "f:2/1", "s", "b"]


def _ytok(rng, n):
    """a valid target: regular integer index, or (one in three) an irregular one with a gap"""
    return ("gapped:%d" if n >= 4 and rng.random() < 1 / 3 else "ok:%d") % n


def _base(ep, rng):
    n = rng.randrange(12, 30)
    fh = "r:" + ",".join(str(v) for v in sorted(rng.sample(range(1, 4), rng.choice([1, 2]))))
    if ep == "naive_fit":
        strategy = rng.choice(["last", "mean", "drift"])
        sp = rng.choice(["i:1", "i:1", "i:2", "i:3"]) if strategy != "drift" else "i:1"
        wl = rng.choice(["none", "i:%d" % rng.randrange(4, 9)])
        return {"ep": ep, "y": _ytok(rng, n), "X": rng.choice(["none", "ok"]), "fh": rng.choice(["none", fh]), "strategy": strategy,
                "sp": sp, "wl": wl, "origin": rng.choice([0, 4, 5])}
    if ep == "naive_predict":
        return {"ep": ep, "n": n, "fitfh": rng.choice(["none", fh]), "fh": fh, "origin": rng.choice([0, 5])}
    if ep == "naive_update":
        return {"ep": ep, "n": n, "y": _ytok(rng, rng.randrange(2, 6)), "X": rng.choice(["none", "ok"])}
    if ep == "required":
        fh3 = "r:" + ",".join(str(v) for v in sorted(rng.sample(range(1, 6), rng.choice([1, 2, 3, 3]))))
        return {"ep": ep, "n": n, "phase": rng.choice(["fit", "predict"]), "fitfh": fh3, "fh": fh3,
                "strategy": rng.choice(["direct", "multioutput", "dirrec"])}
    if ep == "split":
        kind = rng.choice(["sliding", "expanding", "single", "cutoff"])
        return {"ep": ep, "kind": kind, "y": _ytok(rng, n), "fh": fh, "wl": "i:%d" % rng.randrange(1, 5), "step": "i:%d" % rng.randrange(1, 3),
                "iw": "none", "sww": True, "cutoffs": "ok", "origin": rng.choice([0, 4, 5])}
    if ep == "tts":
        mode = rng.choice(["fh", "size"])
        return {"ep": ep, "y": _ytok(rng, n), "X": rng.choice(["none", "ok"]), "fh": fh if mode == "fh" else "none",
                "test": "none" if mode == "fh" else rng.choice(["none", "i:3"]), "train": "none", "origin": rng.choice([0, 4, 5])}
    if ep == "evaluate":
        return {"origin": rng.choice([0, 4, 5]), "ep": ep, "y": _ytok(rng, n), "X": rng.choice(["none", "ok"]), "cv": "ok", "scoring": rng.choice(["none", "ok"]),
                "strategy": rng.choice(["refit", "update"])}
    if ep == "gridsearch":
        return {"origin": rng.choice([0, 4, 5]), "ep": ep, "y": _ytok(rng, n), "X": "none", "cv": "ok", "scoring": rng.choice(["none", "ok"]), "grid": "ok", "fh": rng.choice(["none", "r:1"]),
                "strategy": rng.choice(["refit", "update"])}
    if ep == "reduce":
        st = rng.choice(["direct", "recursive", "multioutput", "dirrec"])
        # via = how the reduction forecaster is made: the make_reduction factory (strategy / scitype names, no step), or
        # the reduction class constructed directly (the one reduction entry point that takes a step_length; None = default)
        via = rng.choice(["factory", "class"])
        return {"origin": rng.choice([0, 4, 5]), "ep": ep, "y": _ytok(rng, n), "X": "none" if st == "dirrec" else rng.choice(["none", "ok"]), "fh": fh, "strategy": st,
                "wl": "i:%d" % rng.randrange(1, 5), "via": via, "step": "i:1" if via == "factory" else rng.choice(["i:1", "i:2", "i:3", "none"]),
                "scitype": rng.choice(["infer", "tabular-regressor", "time-series-regressor"] if via == "factory" else ["tabular-regressor", "time-series-regressor"])}
    if ep == "composite":
        kind = rng.choice(["ensemble", "pipeline", "multiplexer", "stacking"])
        # regular index only: the PolynomialTrendForecaster member cannot be fitted to unequally spaced time points
        return {"origin": rng.choice([0, 4, 5]), "ep": ep, "kind": kind, "shape": "ok", "y": "ok:%d" % n, "fh": fh, "aggfunc": rng.choice(["mean", "median", "min", "max"]), "predict": False}
    if ep == "fh":
        return {"ep": ep, "via": rng.choice(["ctor", "check"]), "fh": fh, "rel": "T", "enf": rng.random() < 0.5}
    raise ValueError(ep)


_FORM = [0]


def _near_miss(names, other):
    """unknown option names: an unrelated word, and names that are NEAR a valid one -- a part of it, two glued
    together, another case, the empty string (a membership test on a string instead of a tuple accepts these)"""
    out = [other, "", "".join(names[:2]), names[0][1:], names[0][:-1], names[-1][:2], names[0].upper(), names[0].capitalize()]
    seen, res = set(names), []
    for b in out:
        if b not in seen:
            seen.add(b)
            res.append(b)
    return res


def _faults(c, rng):
    """(name, mutated context) for every single fault applicable to this context's entry point"""
    ep = c["ep"]
    out = []
    n = E.y_len(c.get("y", "ok:0")) or c.get("n", 0)

    def put(name, **kw):
        d = copy.deepcopy(c)
        d.update(kw)
        if kw.get("fh") in ("dup", "empty", "frac"):
            _FORM[0] += 1
            d["fhform"] = _FORM[0] % 30          # container form of the malformed horizon (30 = lcm of the form counts)
        d["fault"] = name
        out.append(d)
    if ep in ("naive_fit", "split", "tts", "evaluate", "gridsearch", "reduce", "composite"):
        for f in Y_FAULTS:
            tok = f.format(n=n)
            if ep == "split" and tok.split(":")[0] in ("frame1", "frame2", "array2d", "list", "none", "array", "empty"):
                # split() works on the index (pd.Index / np.ndarray accepted); other containers are not its contract
                if tok.split(":")[0] not in ("empty",):
                    continue
            if ep == "tts":
                # by sizes the function is a documented wrapper of sklearn's array splitter (any array-like);
                # by fh it needs y's time index; a multi-column frame is not a forecaster target here
                if c["fh"] == "none" or tok.split(":")[0] in ("frame1", "frame2"):
                    continue
            put("y:" + tok.split(":")[0], y=tok)
    if ep == "naive_update":
        for f in Y_FAULTS:
            if f == "empty":
                continue      # an empty update batch is allowed
            put("y:" + f.split(":")[0], y=f.format(n=3))
    if ep in ("naive_fit", "tts", "evaluate", "gridsearch", "reduce", "naive_update") and not (ep == "tts" and c["fh"] == "none"):
        for f in X_FAULTS:
            if f == "interior" and n < 3:
                continue      # a batch of one or two rows has no inner time point
            put("X:" + f, X=f)
    if ep in ("naive_fit", "naive_predict", "split", "reduce", "composite", "gridsearch") or (ep == "tts" and c["fh"] != "none") or ep == "fh":
        for f in FH_FAULTS:
            if ep == "fh" and c["via"] == "ctor" and f == "empty":
                continue      # an empty horizon object may be constructed; check_fh rejects it
            put("fh:" + f, fh=f)
    if ep == "naive_predict":
        put("fh:missing", fh="none", fitfh="none")
    if ep == "required":
        if c["phase"] == "fit":
            put("fh:missing", fh="none")
        else:
            for other in ("r:4", "r:1,2,3,4"):
                if other != c["fitfh"]:
                    put("fh:different", fh=other)
            # a proper part of the fitted horizon, or the fitted horizon and more, is still another horizon
            steps = [int(x) for x in c["fitfh"][2:].split(",")]
            if len(steps) > 1:
                put("fh:different", fh="r:" + ",".join(map(str, steps[1:])))
                put("fh:different", fh="r:" + ",".join(map(str, steps[:-1])))
                put("fh:different", fh="r:%d" % steps[len(steps) // 2])
            put("fh:different", fh="r:" + ",".join(map(str, steps + [steps[-1] + 1])))
            # the same numbers meant as absolute time points are a different horizon
            put("fh:different-kind", fh="a:" + c["fitfh"][2:])
    if ep == "composite" and c["kind"] == "stacking":
        put("fh:missing", fh="none")
    if ep == "split":
        # splitters work in steps ahead: time points are refused by every kind (small ones too, which could pass for steps)
        put("fh:absolute", fh="a:%d" % (n - 1))
        put("fh:absolute", fh="a:1,2")
        for f in INT_FAULTS:
            put("wl:" + f, wl=f)
            if c["kind"] in ("sliding", "expanding"):
                put("step:" + f, step=f)
        if c["kind"] in ("sliding", "expanding", "single"):
            put("wl:toolong", wl="i:%d" % (n + 1))
            put("wl:toolong", wl="i:%d" % (n - int(c["fh"].split(",")[-1].replace("r:", "")) + 1))      # just one too long
        if c["kind"] in ("sliding", "expanding"):
            put("wl:toolong-nosww", wl="i:%d" % (n + 1), sww=False)
            put("wl:toolong-nosww", wl="i:%d" % (n - int(c["fh"].split(",")[-1].replace("r:", "")) + 1), sww=False)
        if c["kind"] == "sliding":
            for f in INT_FAULTS:
                put("iw:" + f, iw=f, wl="i:1")
            put("iw:notlonger", iw=c["wl"])
            put("iw:nosww", iw="i:%d" % (int(c["wl"][2:]) + 2), sww=False)
            put("iw:toolong", iw="i:%d" % (n + 1))
        if c["kind"] == "cutoff":
            for f in ("empty", "list", "beyond"):
                put("cutoffs:" + f, cutoffs=f)
    if ep == "naive_fit":
        for bad in _near_miss(("last", "mean", "drift"), "median"):
            put("strategy:unknown", strategy=bad)
        if c["strategy"] in ("mean", "last") :
            for f in INT_FAULTS:
                if c["strategy"] == "last" and f in ("b",):
                    continue      # True == 1: strategy "last" treats it as sp=1 (no seasonality)
                put("sp:" + f, sp=f, wl="none" if c["strategy"] == "last" else c["wl"])
        if c["strategy"] in ("mean", "drift"):
            for f in INT_FAULTS:
                put("wl:" + f, wl=f, sp="i:1")
            put("wl:toolong", wl="i:%d" % (n + 1), sp="i:1")
        if c["strategy"] == "drift":
            put("wl:one", wl="i:1")
        if c["strategy"] == "mean":
            put("wl:lt-sp", wl="i:2", sp="i:3")
        if c["strategy"] == "last":
            put("sp:toolong", sp="i:%d" % (n + 1), wl="none")
    if ep == "tts":
        put("fh+size", fh="r:1", test="i:3")
        put("fh:insample", fh="r:-1,1")
        for f in ("i:0", "i:-2", "i:%d" % (n + 1)):
            put("size:" + f, fh="none", test=f)
    if ep == "evaluate":
        for bad in _near_miss(("refit", "update"), "retrain"):
            put("strategy:unknown", strategy=bad)
        put("cv:notsplitter", cv="notcv")
        put("cv:none", cv="none")
        put("cv:nosww", cv="nosww")
        put("scoring:notcallable", scoring="notcallable")
    if ep == "gridsearch":
        for bad in _near_miss(("refit", "update"), "retrain"):
            put("strategy:unknown", strategy=bad)
        put("cv:notsplitter", cv="notcv")
        put("scoring:notcallable", scoring="notcallable")
        for g in ("scalar", "emptylist", "unknown"):
            put("grid:" + g, grid=g)
    if ep == "reduce":
        for bad in _near_miss(("direct", "recursive", "multioutput", "dirrec"), "iterated"):
            put("strategy:unknown", strategy=bad, via="factory", step="i:1")       # names are an argument of the factory only
        put("scitype:unknown", scitype="regressor", via="factory", step="i:1")
        # a step is an argument of the reduction classes only: the near-miss valid context is the same forecaster made
        # through its class (added as a valid case when this context used the factory), then every malformed step
        cls = {"via": "class", "scitype": "time-series-regressor" if c["scitype"] == "time-series-regressor" else "tabular-regressor"}
        if c["via"] != "class":
            d = copy.deepcopy(c)
            d.update(cls, fault=None)
            out.append(d)
        for f in INT_FAULTS:
            put("step:" + f, step=f, **cls)
        for f in INT_FAULTS:
            put("wl:" + f, wl=f)
        put("wl:toolong", wl="i:%d" % n)
    if ep == "composite":
        shapes = {"ensemble": ["dupnames", "dunder", "clash", "none", "emptylist", "tuple", "notforecaster", "alldropped"],
                  "stacking": ["dupnames", "dunder", "clash", "none", "emptylist", "tuple", "notforecaster", "alldropped"],
                  "pipeline": ["dupnames", "dunder", "clash", "lastnotforecaster", "badtransformer", "forecasterinmiddle"],
                  "multiplexer": ["unknownname", "noneselected"]}[c["kind"]]
        for s in shapes:
            put("composite:" + s, shape=s)
        if c["kind"] == "ensemble":
            put("aggfunc:unknown", aggfunc="mode", predict=True)
    if ep == "fh" and c["via"] == "ctor":
        put("rel:notbool", rel="x")
    if ep == "fh" and c["via"] == "check":
        put("fh:empty", fh="empty")
        put("fh:absolute-enforced", fh="a:5,6", enf=True)
    return out


EPS = ["naive_fit", "naive_predict", "naive_update", "required", "split", "tts", "evaluate", "gridsearch", "reduce", "composite", "fh"]


def gen_cases(tier, rng):
    cases = []
    import extract.entrychecks as EC
    for path, cls, fn in EC.ENTRY:
        import os as _os
        cases.append({"ep": "static", "fn": (cls + "." if cls else "") + fn + "@" + _os.path.basename(path), "fault": None})
    reps = 12 if tier == "quick" else 60
    _FORM[0] = rng.randrange(30)
    heavy = {"gridsearch", "evaluate", "composite", "reduce"}
    for ep in EPS:
        for _ in range(reps if ep not in heavy else max(1, reps // 3)):
            base = _base(ep, rng)
            base["fault"] = None
            cases.append(base)
            cases.extend(_faults(base, rng))
    return cases


def run_real(c):
    if c["ep"] == "static":
        import extract.entrychecks as EC
        import importlib
        importlib.reload(EC)
        return EC.extract().get(c["fn"], "MISSING")
    E._FH_FORM = c.get("fhform", 0)
    try:
        return E.ENTRY[c["ep"]](c)
    except Exception as e:
        # the valid set-up of the entry point itself failed (e.g. the preparatory fit): an outcome, not a harness error
        from common import canon_err
        return "setup-" + canon_err(e) + ":-"


def to_line(c):
    import c20_line
    return c20_line.to_line(c)


def oracle(c, out):
    fails = []
    if c["ep"] == "static":
        return fails      # the static table is a tie (correspondence), not a property clause
    res, _, fitted = out.partition(":")
    site = c["ep"] + (":" + c["kind"] if "kind" in c else "")
    if c.get("fault"):
        key = site + ":" + c["fault"]
        if res == "ok":
            fails.append((key + ":accepted", "malformed input (%s) accepted by %s" % (c["fault"], site)))
        elif res != "rej":
            fails.append((key + ":wrong-error", "malformed input (%s) made %s fail with %s" % (c["fault"], site, res)))
        elif fitted == "T" and c["ep"] not in ("naive_predict", "naive_update", "required") and not (c["ep"] == "composite" and c.get("predict")):
            fails.append((key + ":fitted-after-rejection", "%s rejected %s but reports is_fitted" % (site, c["fault"])))
    else:
        if res != "ok":
            fails.append((site + ":valid-rejected", "valid context rejected: %s (%r)" % (res, {k: v for k, v in c.items() if k != 'ep'})))
    return fails


def nontrivial(c, out):
    if c["ep"] == "static":
        return out not in ("-", "MISSING")
    return bool(c.get("fault")) or out.startswith("ok")


def features(c, out):
    return ["ep=" + c["ep"], "fault=" + (c["fault"].split(":")[0] if c.get("fault") else "none"), "outcome=" + out.split(":")[0]]


def shrink(c):
    return iter(())
