"""C12 correspondence + oracle: applying an estimator is pure, reproducible and independent of
scheduling.

Case kinds
  {"kind": "run", ...fcmachine history...}      forecaster state machine (concrete + opaque cores): fit,
        interleaved predict calls (explicit / default horizon), update_predict, predict again; the Lean
        model runs the same history (driver op `run`, shared with C03)
  {"kind": "seq", "est": key, "cont": container, "ikind": "range"|"int64", "seed": s, "n": n,
   "calls": [[inst, method, argid], ...], "pk_at": k}
        one runnable estimator of /repo: byte snapshot of every argument before/after fit and before/after
        every apply-type call, results of repeated / interleaved calls, equal-parameter twins fitted with
        n_jobs in {None,1,2,4} under joblib's threading backend, a pickled and restored copy.  The
        model (driver op `seq`) is the transformer machine instantiated with the table of RECORDED first
        results; it predicts `<args flag>:<digest of the first result>` for every call.
  {"kind": "hampel", "w", "ns", "k", "rb", "z"} HampelFilter on a Series: result and the caller's series
        afterwards (= the input: transform copies first), against the Lean model of `_hampel_filter`
  {"kind": "par", "order": [...], "tasks": [...], "n_jobs": k}   joblib.Parallel under an induced
        completion order against `Par.parallelMap`
  {"kind": "static"}  the source-level tie (harness/extract/c12_static.py); not sent to the model
"""
import os, sys, json, hashlib, pickle, copy, time, threading, warnings
import numpy as np, pandas as pd
from common import canon_err, show_ints, show_bool, show_rat, fuzzy_equal
import fcmachine as M

PROP = "C12"
LEAN_MODULE = "SkVerif.Props.C12"
OBLIGATIONS = [
    "SkVerif.C12.apply_preserves_observation",
    "SkVerif.C12.apply_result_function_of_observation",
    "SkVerif.C12.apply_changes_nothing_required_or_default",
    "SkVerif.C12.apply_idempotent_under_interleaving",
    "SkVerif.C12.interleaved_results_eq_isolated",
    "SkVerif.C12.default_horizon_is_last_given",
    "SkVerif.C12.update_predict_net_effect",
    "SkVerif.C12.equal_params_equal_data_equal_result",
    "SkVerif.C12.machine_results_determined_by_call",
    "SkVerif.C12.machine_apply_idempotent_under_interleaving",
    "SkVerif.C12.forecaster_machine_wellBehaved",
    "SkVerif.C12.caching_machine_breaks_purity",
    "SkVerif.C12.transformer_apply_preserves_state",
    "SkVerif.C12.transformer_machine_wellBehaved",
    "SkVerif.C12.transformer_apply_idempotent_under_interleaving",
    "SkVerif.C12.transformer_equal_params_equal_data_equal_result",
    "SkVerif.C12.parallel_result_independent_of_completion_order",
    "SkVerif.C12.parallel_two_schedules_agree",
    "SkVerif.C12.completion_order_collection_depends_on_schedule",
    "SkVerif.C12.args_preserved",
    "SkVerif.C12.all_args_preserved",
    "SkVerif.C12.in_place_site_on_any_argument_is_visible",
    "SkVerif.C12.hampel_caller_unchanged",
    "SkVerif.C12.original_code_hampel_mutated_caller",
    "SkVerif.C12.replaces_index_keeps_data",
]
TRUSTED = [
    "hand-written models: SkVerif/Model/Forecaster.lean (forecaster base classes), Model/C12Pure.lean (Machine, transformer machine, "
    "Effect table of in-place sites: EMPTY since fixes b0033b3 / c56874f / 6cfe0ff), Model/C12Parallel.lean (Parallel as slot-by-submission-index scheduler), Model/SeriesTransform.lean (`hampel`)",
    "for every estimator other than the naive/probe forecasters the model is the transformer machine instantiated with the table of "
    "RECORDED first results: what is checked is that the real object behaves as SOME pure function of (fitted state, arguments), not which one",
    "byte snapshots (values, dtype, index labels, index class, columns, nested cells) taken by the harness before/after each call",
    "harness/extract/c12_static.py (ast walk: global numpy/stdlib random calls, truthiness tests on random_state, writes to self in apply-type methods, unordered parallel collection)",
    "CPython, joblib (threading backend), pickle as black boxes",
]
ASSUMPTIONS = [
    "in-place mutation of the caller's objects, thread interleavings and pickling are runtime effects the functional model cannot exhibit; "
    "they are observed on the real code and compared with the model's prediction 'nothing changes' (this property is partial by nature)",
    "joblib.Parallel returns results in submission order (exercised by the `par` cases against Par.parallelMap)",
    "`predict()` without a horizon means 'the horizon given last' (by design of _OptionalForecastingHorizonMixin); its effective argument is that horizon",
    "results are compared with relative tolerance 1e-9 (BLAS / summation-order rounding is not judged), labels / shapes / error kinds exactly",
    "estimators that cannot run in this sandbox (soft dependencies, compiled extensions, sklearn-1.7 parameter validation) are covered by the static tie only",
]
RULE = ("per runnable estimator (forecasters incl. composites, series / panel transformers, TSF/RISE/BOSS-family classifiers, TSF regressor) x containers "
        "(every entry with an n_jobs parameter of its own or of a component is in the n_jobs clause and listed in the evidence histogram as n_jobs-clause=<entry>; tuners: grid and randomized search over "
        "naive / pipeline / multiplexer forecasters with search spaces as a single dict, a list of dicts with different key sets and distributions, cv_results_ (params, mean scores, ranks), best_params_, "
        "best_score_ compared as the observation `inspect`; n_jobs=None runs sequentially; estimators whose apply-type methods run Parallel (static list apply-path-Parallel) also with 100 trees / 100 instances "
        "and the 2-/4-job call repeated against the sequential one) x (Series/DataFrame, nested DataFrame/3D array, RangeIndex/Int64Index) x seeded data (outliers, NaN) x random interleavings of repeated apply-type calls "
        "on the original, on equal-parameter twins (n_jobs None/1/2/4, threading backend), on a freshly fitted twin per call, on a pickled copy and on a deep copy, with ANOTHER object of the "
        "class (equal parameters / default-constructed) fitted on other data and used in between; copies: observable state (cutoff, data, stored horizon values and kind) compared at restore time, "
        "predict() without a horizon on every copy, pickled copy run through update + predict against a fresh twin; forecasters: horizon at fit relative or absolute, "
        "out-of-sample, in-sample and mixed horizons, relative and absolute, on ONE object, with a state digest (cutoff, remembered series, remembered exogenous data, fitted flag, window "
        "length) before/after every call; EVERY forecaster also with exogenous data (fit(y, X, fh), predict(fh, X) / predict(X=X), update(y, X)): frames holding lagged regressors "
        "(leading rows missing) with missing readings in the training and in the future rows, complete frames, one float block / single column / mixed dtypes / a pandas view on the caller's wider array, "
        "all arguments of a call snapshotted (a fit that raises must leave them intact too), plus reduction forecasters (recursive / direct / multioutput, tabular and time-series regressors) over "
        "tree regressors that accept missing values; series / panel transformers: transform / inverse_transform also with their second data argument (X next to Z, y next to X), thorough: fit(Z, X); every estimator with a random_state: seed forms 0, positive int, np.int64, RandomState instance built equal per copy "
        "(instance form skipped, and counted, where an apply-type method draws from it or the docstring says int only); forecaster histories through the state-machine model with the same horizon kinds; Hampel filter against its Lean model; Parallel under "
        "induced completion orders; one static source walk (global random, random_state truthiness tests, writes to self, unordered collection). distinct by driver "
        "line; non-trivial = at least one apply-type call returned a value")
LEVEL_TEXT = ("PARTIAL by nature. Lean 4 theorems over executable models: for the forecaster state machine (any core, both horizon mixins) predict leaves "
              "everything a later call can depend on unchanged except the stored horizon, a call returns the same result after any interleaving of other "
              "predict calls, update_predict has the net effect 'windows merged, cutoff restored', equal parameters + equal data give equal results; for any "
              "estimator seen as a machine the one-step condition 'writes to self in apply-type methods are invisible to later calls' implies the statement for "
              "every history (and result caching breaks it); a transformer machine with the same theorems; Parallel with results placed by submission index is "
              "independent of the completion order for every permutation. In-place mutation of the caller's data, thread scheduling and pickling are NOT "
              "exhibited by the functional model: they are observed on the real code (byte snapshots of every argument, repeated/interleaved calls, n_jobs "
              "twins under the threading backend, pickle round trip) and compared with the model's prediction that nothing changes; a static source walk ties "
              "random_state use, writes to self and ordered parallel collection.")
LEVEL_NOTE = ("Trusted: Lean kernel; axioms propext/Classical.choice/Quot.sound; model faithfulness as exercised; harness snapshots + compat layer; CPython/joblib/pickle. "
              "The in-place sites found by this check (HampelFilter.transform, Imputer(method=random|drift|forecaster) on a DataFrame, statsmodels adapters' fit replacing the "
              "caller's Int64Index) were repaired in /repo (b0033b3, c56874f, 6cfe0ff): the model's table of in-place sites is empty, args_preserved is proved at full strength "
              "for the model, and the original behaviour is kept only as a labelled historical theorem. No theorem covers CPython, threads or pickle.")
TECHNIQUE = "Lean 4 proof (state-machine invariants, induction over interleavings and over schedules/permutations) + differential observation of the real code (argument snapshots, repeats, n_jobs twins, pickle) + static ast tie"

WIDEN_ON_BREAK = False      # the estimator sweep is the same in both tiers; do not double it when the Lean side is broken


# =============================================================================== snapshots
def _h(*parts):
    m = hashlib.sha1()
    for p in parts:
        m.update(p if isinstance(p, bytes) else str(p).encode())
        m.update(b"|")
    return m.hexdigest()[:10]


def _vals_bytes(a):
    """bytes of an array-like of values; object cells (nested series / arrays) recursively"""
    a = np.asarray(a) if not isinstance(a, np.ndarray) else a
    if a.dtype == object:
        return ("obj%r[" % (a.shape,)).encode() + b";".join(_snap_digest(x) .encode() for x in a.ravel()) + b"]"
    return ("%s%r" % (a.dtype.str, a.shape)).encode() + np.ascontiguousarray(a).tobytes()


def snap(obj):
    """components of an argument: dict(values, index, itype, columns) of digests (missing = '-')"""
    if isinstance(obj, pd.Series):
        return {"values": _h(_vals_bytes(obj.to_numpy())), "index": _h(_vals_bytes(obj.index.to_numpy()), obj.index.name),
                "itype": type(obj.index).__name__, "columns": _h(obj.name)}
    if isinstance(obj, pd.DataFrame):
        return {"values": _h(*[_vals_bytes(obj.iloc[:, j].to_numpy()) for j in range(obj.shape[1])]),
                "index": _h(_vals_bytes(obj.index.to_numpy()), obj.index.name),
                "itype": type(obj.index).__name__, "columns": _h(*[repr(c) for c in obj.columns])}
    if isinstance(obj, np.ndarray):
        return {"values": _h(_vals_bytes(obj)), "index": "-", "itype": "ndarray", "columns": "-"}
    if isinstance(obj, pd.Index):
        return {"values": _h(_vals_bytes(obj.to_numpy())), "index": "-", "itype": type(obj).__name__, "columns": "-"}
    if isinstance(obj, (list, tuple)):
        return {"values": _h(*[_snap_digest(x) for x in obj]), "index": "-", "itype": type(obj).__name__, "columns": "-"}
    if hasattr(obj, "to_pandas") and hasattr(obj, "is_relative"):      # ForecastingHorizon
        return {"values": _h(_vals_bytes(obj.to_pandas().to_numpy()), obj.is_relative), "index": "-", "itype": "FH", "columns": "-"}
    return {"values": _h(repr(obj)), "index": "-", "itype": type(obj).__name__, "columns": "-"}


def _snap_digest(obj):
    s = snap(obj)
    return _h(s["values"], s["index"], s["itype"], s["columns"])


def snap_args(args):
    return [snap(a) for a in args]


def args_flag(before, after):
    """'T' or 'F:<component>' (first differing component, values > index > itype > columns)"""
    for comp in ("values", "index", "itype", "columns"):
        for b, a in zip(before, after):
            if b[comp] != a[comp]:
                return "F:" + comp
    return "T"


def result_digest(res):
    """digest of a returned value: values + index labels + columns (not the index class)"""
    if isinstance(res, tuple):
        return _h(*[result_digest(r) for r in res])
    s = snap(res)
    return _h(s["values"], s["index"], s["columns"])


def _flat(res):
    """numeric content of a result as a flat float array (None if not purely numeric)"""
    try:
        if isinstance(res, pd.DataFrame):
            cols = []
            for j in range(res.shape[1]):
                c = res.iloc[:, j].to_numpy()
                if c.dtype == object:
                    c = np.concatenate([np.asarray(x, dtype=float).ravel() for x in c]) if len(c) else np.zeros(0)
                cols.append(np.asarray(c, dtype=float).ravel())
            return np.concatenate(cols) if cols else np.zeros(0)
        if isinstance(res, pd.Series):
            c = res.to_numpy()
            if c.dtype == object:
                c = np.concatenate([np.asarray(x, dtype=float).ravel() for x in c]) if len(c) else np.zeros(0)
            return np.asarray(c, dtype=float).ravel()
        if isinstance(res, np.ndarray):
            if res.dtype.kind in "OUS":
                return None
            return np.asarray(res, dtype=float).ravel()
    except Exception:
        return None
    return None


def same_result(r0, r1, tol):
    """results equal: identical digest, or same labels/shape and numerically within `tol`"""
    if result_digest(r0) == result_digest(r1):
        return True
    if tol <= 0 or type(r0) is not type(r1):
        return False
    s0, s1 = snap(r0), snap(r1)
    if s0["index"] != s1["index"] or s0["columns"] != s1["columns"]:
        return False
    f0, f1 = _flat(r0), _flat(r1)
    if f0 is None or f1 is None or f0.shape != f1.shape:
        return False
    return bool(np.allclose(f0, f1, rtol=tol, atol=tol, equal_nan=True))


# =============================================================================== data
def mk_series(seed, n, ikind="range", start=0, outlier=False, nan=False, positive=True, name=None):
    r = np.random.RandomState(seed)
    t = np.arange(n)
    v = 20.0 + 0.5 * t + 3.0 * np.sin(t * np.pi / 2.0) + r.rand(n)
    if not positive:
        v = v - 25.0
    if outlier and n >= 6:
        for j in r.choice(np.arange(1, n - 1), size=max(1, n // 10), replace=False):
            v[j] = v[j] * 8.0 + 100.0
    if nan and n >= 6:
        for j in r.choice(np.arange(1, n - 1), size=max(1, n // 8), replace=False):
            v[j] = np.nan
    idx = pd.RangeIndex(start, start + n) if ikind == "range" else pd.Index(np.arange(start, start + n, dtype="int64"))
    return pd.Series(v, index=idx, name=name)


def mk_frame(seed, n, ikind="range", start=0, outlier=False, nan=False):
    a = mk_series(seed, n, ikind, start, outlier, nan)
    b = mk_series(seed + 7919, n, ikind, start, outlier, nan)
    return pd.DataFrame({"c0": a, "c1": b * 2.0 + 1.0})


EXOG_FORMS = ["nan", "nan1", "full", "mixed", "nanview"]
EXOG_EXTRA = 10      # rows after the training stretch: update batch (3) + the longest horizon after it


def mk_exog(seed, n, ikind="range", start=0, form="nan"):
    """exogenous data X next to a series of length n, with `EXOG_EXTRA` further rows (update batch, future values):
    nan     two float columns holding a lagged regressor (lags 2 and 3: the leading rows are missing, which is what
            lagging produces) + missing readings scattered over the training AND the future rows; one float block
    nan1    the same with a single column
    full    two complete float columns
    mixed   an int column next to a float column with missing values (no common dtype: to_numpy() copies)
    nanview as `nan`, built as a pandas view on a wider array owned by the caller (columns of a 3-column buffer)"""
    r = np.random.RandomState(seed + 4242)
    m = n + EXOG_EXTRA
    driver = np.cumsum(r.normal(size=m + 3))
    lag2 = np.concatenate([[np.nan] * 2, driver[:m - 2]])
    lag3 = np.concatenate([[np.nan] * 3, driver[:m - 3]])
    idx = pd.RangeIndex(start, start + m) if ikind == "range" else pd.Index(np.arange(start, start + m, dtype="int64"))
    if form == "full":
        return pd.DataFrame(np.column_stack([driver[:m], driver[1:m + 1] * 0.5 + 1.0]), index=idx, columns=["x0", "x1"])
    holes = sorted(set([int(j) for j in r.choice(np.arange(4, n - 1), size=2, replace=False)] + [n + 1, n + 4]))
    lag2[holes] = np.nan
    if form == "nan1":
        return pd.DataFrame(lag2.reshape(-1, 1).copy(), index=idx, columns=["lag2"])
    if form == "mixed":
        return pd.DataFrame({"k": np.arange(m, dtype="int64") % 4, "lag2": lag2}, index=idx)
    if form == "nanview":
        buf = np.column_stack([lag2, lag3, driver[:m]])
        return pd.DataFrame(buf[:, :2], index=idx, columns=["lag2", "lag3"], copy=False)
    return pd.DataFrame(np.column_stack([lag2, lag3]), index=idx, columns=["lag2", "lag3"])


def mk_panel(seed, n_inst=10, length=16, dims=1):
    """(nested DataFrame, y classes as str, y regression floats)"""
    r = np.random.RandomState(seed)
    cols = {}
    for d in range(dims):
        rows = []
        for i in range(n_inst):
            # classes overlap on purpose: probabilities / votes then depend on the random intervals, trees and
            # ensemble members chosen, so a generator that is not derived from random_state shows in the results
            base = np.sin(np.arange(length) / (2.0 + (i % 2))) + (i % 2) * 0.4 + d
            rows.append(pd.Series(base + 1.2 * r.rand(length)))
        cols["dim_%d" % d] = rows
    X = pd.DataFrame(cols)
    y = np.array([str(i % 2) for i in range(n_inst)])
    yr = np.array([float(i % 2) + 0.1 * i for i in range(n_inst)])
    return X, y, yr


def to_3d(X):
    return np.stack([np.stack([np.asarray(X.iloc[i, j], dtype=float) for j in range(X.shape[1])]) for i in range(X.shape[0])])


# =============================================================================== estimators
_SLOW = {}


def slow_naive(delay, **kw):
    """NaiveForecaster whose fit sleeps: inside a parallel ensemble the FIRST submitted member then
    finishes LAST, so a collection in completion order is visible"""
    if "cls" not in _SLOW:
        from sktime.forecasting.naive import NaiveForecaster

        class SlowNaiveForecaster(NaiveForecaster):
            def __init__(self, strategy="last", window_length=None, sp=1, delay=0.0):
                self.delay = delay
                super(SlowNaiveForecaster, self).__init__(strategy=strategy, window_length=window_length, sp=sp)

            def fit(self, y, X=None, fh=None):
                time.sleep(self.delay)
                return super(SlowNaiveForecaster, self).fit(y, X=X, fh=fh)
        SlowNaiveForecaster.__module__ = __name__
        SlowNaiveForecaster.__qualname__ = "SlowNaiveForecaster"
        globals()["SlowNaiveForecaster"] = SlowNaiveForecaster
        _SLOW["cls"] = SlowNaiveForecaster
    return _SLOW["cls"](delay=delay, **kw)


_TABLE = {}


def table():
    """key -> dict(fam, cls, make(rs, n_jobs), conts, methods, mode, data flags)
    fam: fc | st | pt | clf | reg.   `make` gets a random_state int and an n_jobs value (None = default)."""
    if _TABLE:
        return _TABLE
    from sklearn.linear_model import LinearRegression
    from sklearn.ensemble import RandomForestRegressor
    from sklearn.preprocessing import StandardScaler, FunctionTransformer
    T = _TABLE

    # ---------------------------------------------------------------- forecasters
    for name, (mode, mk) in sorted(M._opaque_table().items()):
        T["fc:" + name] = dict(fam="fc", mode=mode, make=(lambda rs, nj, mk=mk: mk()))
    from sktime.forecasting.naive import NaiveForecaster
    from sktime.forecasting.trend import PolynomialTrendForecaster
    from sktime.forecasting.compose import EnsembleForecaster, StackingForecaster, make_reduction
    from sktime.forecasting.model_selection import ForecastingRandomizedSearchCV, ForecastingGridSearchCV, SlidingWindowSplitter
    T["fc:naive_last"] = dict(fam="fc", mode="o", make=lambda rs, nj: NaiveForecaster(strategy="last"))
    T["fc:naive_mean3"] = dict(fam="fc", mode="o", make=lambda rs, nj: NaiveForecaster(strategy="mean", window_length=3))
    T["fc:ensemble_par"] = dict(fam="fc", mode="o", njobs=True, make=lambda rs, nj: EnsembleForecaster(
        [("slow", slow_naive(0.03)), ("b", PolynomialTrendForecaster()), ("c", NaiveForecaster(strategy="mean"))], n_jobs=nj))
    T["fc:stack_par"] = dict(fam="fc", mode="r", njobs=True, make=lambda rs, nj: StackingForecaster(
        [("slow", slow_naive(0.03)), ("b", PolynomialTrendForecaster())], final_regressor=LinearRegression(), n_jobs=nj))
    T["fc:red_forest"] = dict(fam="fc", mode="o", njobs=True, make=lambda rs, nj: make_reduction(
        RandomForestRegressor(n_estimators=5, random_state=rs, n_jobs=nj), strategy="recursive", window_length=3))
    # reduction forecasters over regressors that accept missing values (trees, histogram boosting): the forecasters that
    # USE exogenous data, also when it has gaps.  Only run with exogenous data (`exog_only`): without it the red_* entries
    # of the shared table already cover every strategy.
    from sklearn.tree import DecisionTreeRegressor
    from sklearn.pipeline import make_pipeline as _mkpipe
    from sktime.transformations.panel.reduce import Tabularizer as _Tab
    _tree = lambda rs: DecisionTreeRegressor(max_depth=4, random_state=rs)
    for strat, mode in (("recursive", "o"), ("direct", "r"), ("multioutput", "r")):
        T["fc:redx_tree_" + strat] = dict(fam="fc", mode=mode, exog_only=True, make=lambda rs, nj, strat=strat: make_reduction(
            _tree(rs), strategy=strat, window_length=3))
    T["fc:redx_tree5_recursive"] = dict(fam="fc", mode="o", exog_only=True, make=lambda rs, nj: make_reduction(
        DecisionTreeRegressor(min_samples_leaf=2, random_state=rs), strategy="recursive", window_length=5))
    T["fc:redx_ts_recursive"] = dict(fam="fc", mode="o", exog_only=True, make=lambda rs, nj: make_reduction(
        _mkpipe(_Tab(), _tree(rs)), scitype="time-series-regressor", strategy="recursive", window_length=3))
    T["fc:redx_ts_direct"] = dict(fam="fc", mode="r", exog_only=True, make=lambda rs, nj: make_reduction(
        _mkpipe(_Tab(), _tree(rs)), scitype="time-series-regressor", strategy="direct", window_length=3))
    T["fc:tuned_random"] = dict(fam="fc", mode="o", njobs=True, make=lambda rs, nj: ForecastingRandomizedSearchCV(
        NaiveForecaster(strategy="mean"), cv=SlidingWindowSplitter(fh=[1], window_length=5),
        param_distributions={"window_length": [2, 3, 4, 5]}, n_iter=2, random_state=rs, n_jobs=nj))
    T["fc:tuned_grid_par"] = dict(fam="fc", mode="o", njobs=True, make=lambda rs, nj: ForecastingGridSearchCV(
        NaiveForecaster(strategy="mean"), cv=SlidingWindowSplitter(fh=[1], window_length=5),
        param_grid={"window_length": [2, 3, 4]}, n_jobs=nj))
    # tuners in the "whatever n_jobs" clause: grid and randomized search over naive / pipeline / multiplexer forecasters,
    # search spaces of every shape (single dict, LIST of dicts with different key sets, distributions)
    from sktime.forecasting.compose import TransformedTargetForecaster, MultiplexForecaster
    from sktime.transformations.series.detrend import Detrender as _Detr
    import scipy.stats as _st
    _cv = lambda: SlidingWindowSplitter(fh=[1, 2], window_length=8, step_length=3)
    _pipe = lambda: TransformedTargetForecaster([("d", _Detr(PolynomialTrendForecaster(degree=1))), ("f", NaiveForecaster())])
    _mux = lambda: MultiplexForecaster([("a", NaiveForecaster()), ("b", PolynomialTrendForecaster())], selected_forecaster="a")
    TU = lambda mk: dict(fam="fc", mode="o", njobs=True, tuner=True, make=mk)
    T["fc:tune_grid_naive_list"] = TU(lambda rs, nj: ForecastingGridSearchCV(NaiveForecaster(), cv=_cv(), n_jobs=nj, param_grid=[
        {"strategy": ["mean"], "window_length": [3, 6]}, {"strategy": ["drift", "last"]}]))
    T["fc:tune_grid_pipeline_list"] = TU(lambda rs, nj: ForecastingGridSearchCV(_pipe(), cv=_cv(), n_jobs=nj, param_grid=[
        {"f__strategy": ["mean"], "f__window_length": [3, 5]}, {"d__forecaster__degree": [2]}, {"f__strategy": ["drift"]}]))
    T["fc:tune_grid_multiplex_list"] = TU(lambda rs, nj: ForecastingGridSearchCV(_mux(), cv=_cv(), n_jobs=nj, param_grid=[
        {"selected_forecaster": ["a"], "a__strategy": ["mean"], "a__window_length": [3, 6]}, {"selected_forecaster": ["a", "b"]}]))
    T["fc:tune_grid_pipeline_dict"] = TU(lambda rs, nj: ForecastingGridSearchCV(_pipe(), cv=_cv(), n_jobs=nj, param_grid={
        "f__strategy": ["mean", "last"], "d__forecaster__degree": [1, 2]}))
    T["fc:tune_random_naive_list"] = TU(lambda rs, nj: ForecastingRandomizedSearchCV(NaiveForecaster(), cv=_cv(), n_jobs=nj, n_iter=4, random_state=rs,
        param_distributions=[{"strategy": ["mean"], "window_length": [3, 4, 5, 6]}, {"strategy": ["drift", "last"]}]))
    T["fc:tune_random_dist"] = TU(lambda rs, nj: ForecastingRandomizedSearchCV(NaiveForecaster(strategy="mean"), cv=_cv(), n_jobs=nj, n_iter=3, random_state=rs,
        param_distributions={"window_length": _st.randint(2, 7)}))
    for k in ("fc:tuned", "fc:tuned_random", "fc:tuned_grid_par"):
        T[k]["tuner"] = True
    try:
        from sktime.forecasting.ets import AutoETS
        T["fc:autoets"] = dict(fam="fc", mode="o", make=lambda rs, nj: AutoETS())
    except Exception:
        pass
    try:
        from sktime.forecasting.online_learning import OnlineEnsembleForecaster
        T["fc:online_ensemble"] = dict(fam="fc", mode="o", make=lambda rs, nj: OnlineEnsembleForecaster(
            [("a", NaiveForecaster()), ("b", PolynomialTrendForecaster())]))
    except Exception:
        pass

    # ---------------------------------------------------------------- series transformers
    from sktime.transformations.series.acf import AutoCorrelationTransformer, PartialAutoCorrelationTransformer
    from sktime.transformations.series.boxcox import BoxCoxTransformer, LogTransformer
    from sktime.transformations.series.cos import CosineTransformer
    from sktime.transformations.series.detrend import Detrender, Deseasonalizer, ConditionalDeseasonalizer
    from sktime.transformations.series.outlier_detection import HampelFilter
    from sktime.transformations.series.impute import Imputer
    from sktime.transformations.series.compose import OptionalPassthrough
    from sktime.transformations.series.adapt import TabularToSeriesAdaptor
    S = lambda **k: dict(fam="st", conts=["Series"], **k)
    T["st:acf"] = S(make=lambda rs, nj: AutoCorrelationTransformer(n_lags=3))
    T["st:pacf"] = S(make=lambda rs, nj: PartialAutoCorrelationTransformer(n_lags=3))
    T["st:boxcox"] = S(make=lambda rs, nj: BoxCoxTransformer())
    T["st:log"] = S(make=lambda rs, nj: LogTransformer())
    T["st:cos"] = S(make=lambda rs, nj: CosineTransformer())
    T["st:detrend"] = S(make=lambda rs, nj: Detrender(PolynomialTrendForecaster(degree=1)))
    T["st:detrend_default"] = S(make=lambda rs, nj: Detrender())
    T["st:deseason"] = S(make=lambda rs, nj: Deseasonalizer(sp=4))
    T["st:deseason_mul"] = S(make=lambda rs, nj: Deseasonalizer(sp=4, model="multiplicative"))
    T["st:cond_deseason"] = S(make=lambda rs, nj: ConditionalDeseasonalizer(sp=4))
    T["st:passthrough"] = S(make=lambda rs, nj: OptionalPassthrough(BoxCoxTransformer(), passthrough=False))
    T["st:passthrough_on"] = S(make=lambda rs, nj: OptionalPassthrough(BoxCoxTransformer(), passthrough=True))
    T["st:adaptor"] = S(make=lambda rs, nj: TabularToSeriesAdaptor(StandardScaler()))
    T["st:hampel_frame"] = dict(fam="st", conts=["DataFrame"], cls="HampelFilter", outlier=True,
                                make=lambda rs, nj: HampelFilter(window_length=4))
    T["st:hampel_frame_bool"] = dict(fam="st", conts=["DataFrame"], cls="HampelFilter:bool", outlier=True,
                                     make=lambda rs, nj: HampelFilter(window_length=4, return_bool=True))
    T["st:hampel"] = dict(fam="st", conts=["Series"], cls="HampelFilter", outlier=True,
                          make=lambda rs, nj: HampelFilter(window_length=5))
    for meth in ("drift", "linear", "nearest", "constant", "mean", "median", "bfill", "ffill", "random", "forecaster"):
        def mk(rs, nj, meth=meth):
            kw = {"method": meth}
            if meth == "constant":
                kw["value"] = 1.5
            if meth == "random":
                kw["random_state"] = rs
            if meth == "forecaster":
                kw["forecaster"] = NaiveForecaster(strategy="mean")
            return Imputer(**kw)
        T["st:imputer_" + meth] = dict(fam="st", conts=["Series", "DataFrame"], nan=True, make=mk,
                                       cls=("Imputer:" + meth if meth in ("random", "drift", "forecaster") else "Imputer"))

    # ---------------------------------------------------------------- panel transformers
    from sktime.transformations.panel.compose import ColumnConcatenator, SeriesToSeriesRowTransformer, SeriesToPrimitivesRowTransformer
    from sktime.transformations.panel.dwt import DWTTransformer
    from sktime.transformations.panel.hog1d import HOG1DTransformer
    from sktime.transformations.panel.segment import IntervalSegmenter, RandomIntervalSegmenter, SlidingWindowSegmenter
    from sktime.transformations.panel.dictionary_based import PAA, SAX, SFA
    from sktime.transformations.panel.pca import PCATransformer
    from sktime.transformations.panel.padder import PaddingTransformer
    from sktime.transformations.panel.truncation import TruncationTransformer
    from sktime.transformations.panel.summarize import (DerivativeSlopeTransformer, PlateauFinder,
                                                        RandomIntervalFeatureExtractor, FittedParamExtractor)
    from sktime.transformations.panel.slope import SlopeTransformer
    from sktime.transformations.panel.interpolate import TSInterpolator
    from sktime.transformations.panel.reduce import Tabularizer
    from sktime.transformations.panel.matrix_profile import MatrixProfile
    Pn = lambda **k: dict(fam="pt", conts=["nested", "numpy3D"], **k)
    T["pt:concat"] = dict(fam="pt", conts=["nested"], dims=2, make=lambda rs, nj: ColumnConcatenator())
    T["pt:dwt"] = Pn(make=lambda rs, nj: DWTTransformer())
    T["pt:hog1d"] = Pn(make=lambda rs, nj: HOG1DTransformer())
    T["pt:interval_seg"] = Pn(make=lambda rs, nj: IntervalSegmenter(3))
    T["pt:random_interval_seg"] = Pn(make=lambda rs, nj: RandomIntervalSegmenter(n_intervals=3, random_state=rs))
    T["pt:sliding_seg"] = Pn(make=lambda rs, nj: SlidingWindowSegmenter(window_length=3))
    T["pt:paa"] = Pn(make=lambda rs, nj: PAA(num_intervals=4))
    T["pt:sax"] = Pn(make=lambda rs, nj: SAX(word_length=4, window_size=8))
    T["pt:sfa"] = Pn(njobs=True, make=lambda rs, nj: SFA(word_length=4, window_size=8, n_jobs=(1 if nj is None else nj)))
    T["pt:pca"] = Pn(make=lambda rs, nj: PCATransformer(n_components=2))
    T["pt:padding"] = Pn(make=lambda rs, nj: PaddingTransformer(pad_length=20))
    T["pt:truncation"] = Pn(make=lambda rs, nj: TruncationTransformer(lower=2, upper=10))
    T["pt:deriv_slope"] = Pn(make=lambda rs, nj: DerivativeSlopeTransformer())
    T["pt:plateau"] = Pn(make=lambda rs, nj: PlateauFinder())
    T["pt:random_interval_feat"] = Pn(make=lambda rs, nj: RandomIntervalFeatureExtractor(n_intervals=3, random_state=rs))
    T["pt:slope"] = Pn(make=lambda rs, nj: SlopeTransformer(num_intervals=4))
    T["pt:interpolator"] = Pn(make=lambda rs, nj: TSInterpolator(10))
    T["pt:tabularizer"] = Pn(make=lambda rs, nj: Tabularizer())
    T["pt:matrix_profile"] = Pn(make=lambda rs, nj: MatrixProfile(m=4))
    T["pt:row_series"] = Pn(make=lambda rs, nj: SeriesToSeriesRowTransformer(StandardScaler(), check_transformer=False))
    T["pt:row_prim"] = Pn(make=lambda rs, nj: SeriesToPrimitivesRowTransformer(
        FunctionTransformer(np.mean, kw_args={"axis": 0}, check_inverse=False), check_transformer=False))
    try:
        from sktime.forecasting.exp_smoothing import ExponentialSmoothing
        T["pt:fitted_param"] = dict(fam="pt", conts=["nested"], njobs=True, positive=True, make=lambda rs, nj: FittedParamExtractor(
            ExponentialSmoothing(), ["initial_level"], n_jobs=nj))
    except Exception:
        pass
    try:
        from sktime.transformations.panel.shapelets import ShapeletTransform
        T["pt:shapelets"] = dict(fam="pt", conts=["nested"], slow=True, make=lambda rs, nj: ShapeletTransform(
            min_shapelet_length=3, max_shapelet_length=4, max_shapelets_to_store_per_class=2, random_state=rs))
    except Exception:
        pass

    # ---------------------------------------------------------------- classifiers / regressors
    from sktime.classification.interval_based import TimeSeriesForestClassifier, RandomIntervalSpectralForest, SupervisedTimeSeriesForest
    from sktime.classification.dictionary_based import BOSSEnsemble, IndividualBOSS, ContractableBOSS, MUSE
    from sktime.classification.compose import ColumnEnsembleClassifier
    from sktime.regression.interval_based import TimeSeriesForestRegressor
    C = lambda **k: dict(fam="clf", conts=["nested", "numpy3D"], njobs=True, **k)
    T["clf:tsf"] = C(make=lambda rs, nj: TimeSeriesForestClassifier(n_estimators=5, random_state=rs, n_jobs=(1 if nj is None else nj)))
    T["clf:rise"] = C(make=lambda rs, nj: RandomIntervalSpectralForest(n_estimators=4, acf_lag=4, min_interval=8, random_state=rs, n_jobs=nj))
    T["clf:stsf"] = C(make=lambda rs, nj: SupervisedTimeSeriesForest(n_estimators=3, random_state=rs, n_jobs=(1 if nj is None else nj)))
    T["clf:boss"] = C(make=lambda rs, nj: BOSSEnsemble(max_ensemble_size=3, random_state=rs, n_jobs=(1 if nj is None else nj)))
    # even ensemble sizes: votes can tie, and ties are broken with a generator derived from random_state inside predict
    T["clf:boss_even"] = C(make=lambda rs, nj: BOSSEnsemble(max_ensemble_size=2, threshold=0.5, random_state=rs, n_jobs=(1 if nj is None else nj)))
    T["clf:cboss_even"] = C(make=lambda rs, nj: ContractableBOSS(n_parameter_samples=6, max_ensemble_size=2, random_state=rs, n_jobs=(1 if nj is None else nj)))
    T["clf:iboss"] = C(make=lambda rs, nj: IndividualBOSS(window_size=8, word_length=4, random_state=rs, n_jobs=(1 if nj is None else nj)))
    T["clf:cboss"] = C(make=lambda rs, nj: ContractableBOSS(n_parameter_samples=6, max_ensemble_size=3, random_state=rs, n_jobs=(1 if nj is None else nj)))
    T["clf:muse"] = dict(fam="clf", conts=["nested"], njobs=False, dims=2, make=lambda rs, nj: MUSE(window_inc=4, random_state=rs))
    T["clf:column_ensemble"] = dict(fam="clf", conts=["nested"], njobs=False, dims=2, make=lambda rs, nj: ColumnEnsembleClassifier(
        [("a", TimeSeriesForestClassifier(n_estimators=3, random_state=rs), [0]), ("b", IndividualBOSS(window_size=8, word_length=4, random_state=rs), [1])]))
    try:
        from sktime.classification.dictionary_based import IndividualTDE
        T["clf:itde"] = dict(fam="clf", conts=["nested", "numpy3D"], njobs=False,
                             make=lambda rs, nj: IndividualTDE(window_size=8, word_length=4, random_state=rs))
    except Exception:
        pass
    # LARGE forests / batches for the estimators whose apply-type methods run parallel jobs (static list `apply-path-Parallel`):
    # enough trees and instances for the threads to interleave inside predict / predict_proba / transform
    B = lambda **k: dict(conts=["numpy3D"], njobs=True, big=True, **k)
    T["clf:tsf_big"] = B(fam="clf", make=lambda rs, nj: TimeSeriesForestClassifier(n_estimators=100, random_state=rs, n_jobs=(1 if nj is None else nj)))
    T["reg:tsf_big"] = B(fam="reg", make=lambda rs, nj: TimeSeriesForestRegressor(n_estimators=100, random_state=rs, n_jobs=(1 if nj is None else nj)))
    T["clf:rise_big"] = B(fam="clf", make=lambda rs, nj: RandomIntervalSpectralForest(n_estimators=24, acf_lag=8, min_interval=8, random_state=rs, n_jobs=nj))
    T["clf:stsf_big"] = B(fam="clf", make=lambda rs, nj: SupervisedTimeSeriesForest(n_estimators=10, random_state=rs, n_jobs=(1 if nj is None else nj)))
    T["clf:iboss_big"] = B(fam="clf", make=lambda rs, nj: IndividualBOSS(window_size=8, word_length=4, random_state=rs, n_jobs=(1 if nj is None else nj)))
    T["pt:sfa_big"] = B(fam="pt", make=lambda rs, nj: SFA(word_length=4, window_size=8, n_jobs=(1 if nj is None else nj)))
    T["reg:tsf"] = dict(fam="reg", conts=["nested", "numpy3D"], njobs=True,
                        make=lambda rs, nj: TimeSeriesForestRegressor(n_estimators=5, random_state=rs, n_jobs=(1 if nj is None else nj)))
    # a RandomState INSTANCE as random_state: not for estimators that draw from it inside an apply-type method
    # (BOSS / cBOSS / TDE tie-breaks in predict, Imputer(method="random") in transform: an instance is consumed by
    # every call, which is sklearn's documented meaning of passing an instance) nor where the docstring says "int" only
    for k, why in (("clf:iboss_big", "draws-in-predict"), ("clf:stsf_big", "documented-int-only"), ("clf:boss", "draws-in-predict"), ("clf:cboss", "draws-in-predict"), ("clf:boss_even", "draws-in-predict"), ("clf:cboss_even", "draws-in-predict"), ("clf:itde", "draws-in-predict"),
                   ("clf:iboss", "draws-in-predict"), ("clf:column_ensemble", "member-draws-in-predict"),
                   ("st:imputer_random", "draws-in-transform"), ("clf:stsf", "documented-int-only")):
        if k in T:
            T[k]["no_rsobj"] = why
    for k, e in T.items():
        e.setdefault("conts", ["Series"] if e["fam"] in ("fc", "st") else ["nested"])
        e.setdefault("njobs", False)
    return T


METHODS = {"fc": ["predict"], "st": ["transform", "inverse_transform"], "pt": ["transform", "inverse_transform"],
           "clf": ["predict", "predict_proba"], "reg": ["predict"]}
FH_ARGS = {"A": [1, 2, 3], "B": [2, 4],          # out-of-sample, relative
           "I": [-3, -2, -1, 0], "X": [-1, 0, 1, 2],  # in-sample and mixed, relative
           "a": [1, 2, 3], "i": [-2, -1, 0], "x": [0, 1]}   # the same kinds as ABSOLUTE horizons (cutoff + steps)
FH_OPTIONAL = ["A", "B", "I", "X", "a", "i", "x"]
RS_FORMS = ["int", "zero", "npint", "rsobj"]


def has_n_jobs(key):
    """does the entry have an n_jobs parameter, its own or of a component the table's `make` hands n_jobs to?"""
    e = table()[key]
    if "nj" not in e:
        try:
            e1, e2 = e["make"](1, None), e["make"](1, 2)
            p1, p2 = e1.get_params(deep=True), e2.get_params(deep=True)
            e["nj"] = "n_jobs" in e1.get_params(deep=False) or any(
                k.split("__")[-1] == "n_jobs" and p1.get(k) != p2.get(k) for k in p2)
        except Exception:
            e["nj"] = False
    return e["nj"]


def has_random_state(key):
    """does the table entry pass its random_state on to some (sub-)estimator parameter?"""
    e = table()[key]
    if "rs" not in e:
        try:
            est = e["make"](987654, None)
            e["rs"] = any(k.split("__")[-1] == "random_state" and isinstance(v, int) and v == 987654
                          for k, v in est.get_params(deep=True).items())
        except Exception:
            e["rs"] = False
    return e["rs"]


def rs_value(c):
    """the random_state handed to the constructor: the four seed forms of the reproducibility clause.
    'rsobj' builds a NEW RandomState from the same seed on every call, so twins get equal-but-distinct instances."""
    base = c["seed"] % 1000 + 1
    form = c.get("rsform", "int")
    if form == "zero":
        return 0
    if form == "npint":
        return np.int64(base)
    if form == "rsobj":
        return np.random.RandomState(base)
    return base


def class_name(key, est=None):
    e = table()[key]
    if "cls" in e:
        return e["cls"]
    if est is None:
        est = e["make"](0, None)
    return type(est).__name__


# =============================================================================== seq cases: real side
_OBS = {}          # case key -> observation of the last run_real (used by to_line / oracle / features)


def _ck(c):
    return hashlib.sha1(json.dumps(c, sort_keys=True, default=str).encode()).hexdigest()


def _train_data(c, other=False):
    """-> (fit args tuple, fit kwargs, dict argid -> callable returning a FRESH argument tuple for apply calls).
    other=True: OTHER training data of the same shape (what a second object of the class is fitted on)."""
    e = table()[c["est"]]
    fam, cont, seed, n = e["fam"], c["cont"], c["seed"] + (13 if other else 0), c["n"]
    ik = c.get("ikind", "range")
    start = c.get("start", 0)
    scale = (lambda z: z * 1.75 + 6.0) if other else (lambda z: z)
    if fam == "fc":
        y = lambda: scale(mk_series(seed, n, ik, start))
        cutoff = start + n - 1

        def fh(a):
            if a.islower():
                from sktime.forecasting.base import ForecastingHorizon
                return lambda: (ForecastingHorizon(np.array([cutoff + v for v in FH_ARGS[a]], dtype="int64"), is_relative=False),)
            return lambda: (list(FH_ARGS[a]),)
        fitfh = c.get("fitfh", "A")
        form = c.get("exog")
        if form:
            # EXOGENOUS data: fit(y, X, fh), predict(fh, X), update(y, X); X for predict = the rows after the cutoff in
            # force (`shift` = observations added by update), as many as the horizon reaches ahead (at least one)
            xs = seed + (1 if other else 0)
            whole = lambda: mk_exog(xs, n, ik, start, form)
            cut = (lambda X: X) if form == "nanview" else (lambda X: X.copy())

            def fhx(a):
                f0 = fh(a)

                def mk(shift=0):
                    steps = [v - (shift if a.islower() else 0) for v in FH_ARGS[a]]
                    k = max(1, max(steps))
                    return f0() + (cut(whole().iloc[n + shift:n + shift + k]),)
                return mk
            args = {fitfh: fhx(fitfh)}
            if e["mode"] == "o":
                for a in FH_OPTIONAL:
                    args[a] = fhx(a)
            return (lambda: (y(), cut(whole().iloc[:n]))), {"fh": fh(fitfh)()[0]}, args
        args = {fitfh: fh(fitfh)}
        if e["mode"] == "o":
            for a in FH_OPTIONAL:
                args[a] = fh(a)
        return (lambda: (y(),)), {"fh": fh(fitfh)()[0]}, args
    if fam == "st":
        kw = dict(outlier=e.get("outlier", False), nan=e.get("nan", False))
        if cont == "Series":
            mk = lambda s: scale(mk_series(s, n, ik, start, **kw))
        else:
            mk = lambda s: scale(mk_frame(s, n, ik, start, **kw))
        # "c": the call WITH its second data argument (transform(Z, X): an exogenous frame with gaps, the caller's as well)
        aux = lambda: mk_exog(seed, n, ik, start, "nan").iloc[:n].copy()
        fit_a = (lambda: (mk(seed), aux())) if c.get("fitaux") else (lambda: (mk(seed),))
        return fit_a, {}, {"a": lambda: (mk(seed),), "b": lambda: (mk(seed + 1),), "c": lambda: (mk(seed), aux())}
    # panel
    dims = e.get("dims", 1)
    def X(s):
        Xn = mk_panel(s, n_inst=c.get("ninst", 10), length=n, dims=dims)[0]
        if e.get("positive"):
            Xn = Xn.applymap(lambda z: z + 5.0) if hasattr(Xn, "applymap") else Xn
        return to_3d(Xn) if cont == "numpy3D" else Xn
    _, yc, yr = mk_panel(seed, n_inst=c.get("ninst", 10), length=n, dims=dims)
    ytrain = (lambda: yc.copy()) if fam in ("clf", "pt") else (lambda: yr.copy())
    # "c": the call WITH its second data argument (transform(X, y): the labels)
    return (lambda: (X(seed), ytrain())), {}, {"a": lambda: (X(seed),), "b": lambda: (X(seed + 1),), "c": lambda: (X(seed), ytrain())}


def _update_batch(c):
    """the next three observations after the training series (for `update` on a copy)"""
    n, start = c["n"], c.get("start", 0)
    full = mk_series(c["seed"], n + 3, c.get("ikind", "range"), start)
    return full.iloc[n:]


def _update_exog(c):
    """the exogenous rows that go with the update batch"""
    n = c["n"]
    X = mk_exog(c["seed"], n, c.get("ikind", "range"), c.get("start", 0), c["exog"]).iloc[n:n + 3]
    return X if c["exog"] == "nanview" else X.copy()


def _mk_est(c, inst):
    e = table()[c["est"]]
    est = e["make"](rs_value(c), None)
    if inst == "fd":
        # another object of the same class, DEFAULT-constructed (falls back to equal parameters when the class
        # has required constructor arguments)
        try:
            return type(est)()
        except Exception:
            return est
    if inst in ("j1", "j2", "j4", "f1", "f2", "f4"):
        nj = int(inst[1:])
        est = e["make"](rs_value(c), nj)
        if "n_jobs" in est.get_params(deep=False):
            est.set_params(n_jobs=nj)
    return est


def _err(ex):
    return canon_err(ex).replace(":", ".")


def inspect_results(est):
    """what a fitted tuner reports about its search: per candidate (in order) the parameters, the mean score and the rank;
    then best_params_ and best_score_.  Parameters are the row labels, numbers the values."""
    res = est.cv_results_
    mean_col = [c for c in res.columns if c.startswith("mean_") and not c.endswith("_time")][0]
    rank_col = [c for c in res.columns if c.startswith("rank_")][0]
    labels = [json.dumps({k: repr(v) for k, v in sorted(p.items())}) for p in res["params"]]
    rows = [[float(m), float(r)] for m, r in zip(res[mean_col], res[rank_col])]
    labels.append("best:" + json.dumps({k: repr(v) for k, v in sorted(est.best_params_.items())}))
    rows.append([float(est.best_score_), float(est.best_index_)])
    return pd.DataFrame(rows, index=pd.Index(labels), columns=["mean_score", "rank"])


def est_state(est):
    """what of a fitted FORECASTER a later call can depend on (the stored horizon apart): cutoff, remembered
    series, fitted flag, fitted window length"""
    out = {}
    try:
        out["cutoff"] = repr(getattr(est, "_cutoff", None))
        y = getattr(est, "_y", None)
        out["y"] = "-" if y is None else result_digest(y)      # values + labels (not the index class: an in-sample
        # predict re-assigns `_y` through combine_first, which turns a RangeIndex into an equal Int64Index)
        X = getattr(est, "_X", None)
        out["X"] = "-" if X is None else result_digest(X)      # the remembered exogenous data
        out["fitted"] = repr(getattr(est, "_is_fitted", None))
        out["window_length_"] = repr(getattr(est, "window_length_", None))
        fh = getattr(est, "_fh", None)
        out["fh"] = "-" if fh is None else "%s:%s" % ("rel" if fh.is_relative else "abs", show_ints([int(v) for v in fh.to_pandas()]))
    except Exception:
        pass
    return out


def copy_state_flag(orig, cp):
    """a restored copy must have the observable state of the original, the stored horizon (values AND kind) included"""
    a, b = est_state(orig), est_state(cp)
    for k in ("cutoff", "y", "X", "fitted", "window_length_", "fh"):
        if a.get(k) != b.get(k):
            return "F:copy-state-" + k
    return "T"


def state_flag(before, after):
    for k in ("cutoff", "y", "X", "fitted", "window_length_"):
        if before.get(k) != after.get(k):
            return "F:state-" + k
    return "T"


KW_NAMES = {   # parameter names of the unchanged signatures, per family (used when a wrapper hides them)
    "st": {"fit": ["Z", "X"], "transform": ["Z", "X"], "inverse_transform": ["Z", "X"]},
    "pt": {"fit": ["X", "y"], "transform": ["X", "y"], "inverse_transform": ["X", "y"]},
    "clf": {"fit": ["X", "y"], "predict": ["X"], "predict_proba": ["X"]},
    "reg": {"fit": ["X", "y"], "predict": ["X"]},
    "fc": {"fit": ["y", "X", "fh"], "predict": ["fh", "X"]},
}


def as_keywords(fn, fam, method, args):
    """the positional arguments of a call as KEYWORD arguments (names from the method's signature)"""
    import inspect as _insp
    names = []
    try:
        names = [p.name for p in _insp.signature(fn).parameters.values()
                 if p.kind in (p.POSITIONAL_OR_KEYWORD, p.KEYWORD_ONLY)]
    except (TypeError, ValueError):
        pass
    if len(names) < len(args):
        names = KW_NAMES[fam][method]
    return dict(zip(names, args))


def _call(fn, *a, **k):
    import joblib
    with warnings.catch_warnings():
        warnings.simplefilter("ignore")
        # n_jobs=1 for the context: an estimator whose n_jobs is None then runs SEQUENTIALLY (joblib's meaning of None
        # outside any context); without it the context default (-1) would run "n_jobs=None" on all cores
        with joblib.parallel_backend("threading", n_jobs=1):
            return fn(*a, **k)


COPIES = ("pk", "dc", "pu")      # made from the original: pickle round trip, copy.deepcopy, pickle round trip then update
FRESH = ("pu",)                  # rebuilt for every call, like every instance whose name starts with 'f'


def run_seq(c):
    """returns the observation dict (also cached).
    instances: o original | jN j1 j2 j4 equal-parameter twins (that n_jobs) | fr f1 f2 f4 FRESHLY fitted twins |
      (with c["exog"]: every fit gets (y, X, fh), every predict (fh, X), every update (y, X))
      pk pickle round trip of o | dc copy.deepcopy(o) | pu pickle round trip of o, then update (fresh per call) |
      fu freshly fitted twin, then update | fo / fd ANOTHER object of the class (equal parameters / default-
      constructed) fitted on OTHER data and used, between the calls on the others
    argument ids: a b / A B I X a i x as before; N = predict() without a horizon (reported under the id of the
      horizon in force: the one given last to that copy, or at fit); prefix u = `update(next 3 points)` first;
      prefix z / y = the argument as seen by the fo / fd object (never compared with the others' results)"""
    warnings.filterwarnings("ignore")
    e = table()[c["est"]]
    isfc = e["fam"] == "fc"
    fit_args, fit_kw, argmk = _train_data(c)
    ofit_args, ofit_kw, _ = _train_data(c, other=True)
    obs = {"fit": None, "calls": [], "first": {}, "skipped": [], "cls": None, "errors": []}
    insts = {}
    last_fh = {}         # instance -> id of the horizon in force
    copy_flag = {}       # copy -> flag of its state against the original's, reported with its first call

    def fitted(inst):
        if inst in insts and inst[0] != "f" and inst not in FRESH:
            return insts[inst]
        if inst in COPIES:
            o = fitted("o")
            if isinstance(o, str):
                insts[inst] = o
                return o
            try:
                insts[inst] = copy.deepcopy(o) if inst == "dc" else pickle.loads(pickle.dumps(o))
                last_fh[inst] = last_fh.get("o")
                if isfc:
                    copy_flag[inst] = copy_state_flag(o, insts[inst])
            except Exception as ex:
                msg = "%s: %s" % (type(ex).__name__, str(ex)[:300])
                if "skcompat" in msg or "_Lenient" in msg or "_NpProxy" in msg:
                    # the harness's own emulation layer is what cannot be copied: not the estimator's doing
                    insts[inst] = "SKIP"
                    obs["skipped"].append("pickle-blocked-by-compat-shim")
                else:
                    insts[inst] = ("E.deepcopy." if inst == "dc" else "E.pickle.") + type(ex).__name__
                    obs["errors"].append("%s: %s" % (inst, msg))
            return insts[inst]
        est = _mk_est(c, inst)
        other = inst in ("fo", "fd")
        a = (ofit_args if other else fit_args)()
        before = snap_args(a)
        try:
            if c.get("fitkw"):
                _call(est.fit, **dict(as_keywords(est.fit, e["fam"], "fit", a), **(ofit_kw if other else fit_kw)))
            else:
                _call(est.fit, *a, **(ofit_kw if other else fit_kw))
        except Exception as ex:
            insts[inst] = _err(ex)
            obs["errors"].append("fit[%s]: %s: %s" % (inst, type(ex).__name__, str(ex)[:160]))
            if inst == "o":
                # a fit that raises must have left the caller's data alone all the same
                fl = args_flag(before, snap_args(a))
                obs["fit"] = _err(ex) + ("" if fl == "T" else "+" + fl)
            return insts[inst]
        if inst == "o":
            obs["fit"] = args_flag(before, snap_args(a))
            obs["cls"] = class_name(c["est"], est)
        insts[inst] = est
        last_fh[inst] = c.get("fitfh", "A")
        return est

    o = fitted("o")
    if isinstance(o, str):
        _OBS[_ck(c)] = obs
        return obs
    firsts = {}          # (method, argid) -> (result object | error token, digest, chg)
    pending = []         # pairs only ever called on a copy that could not be built
    for call in c["calls"]:
        inst, method, argid = call[:3]
        by_keyword = len(call) > 3 and call[3] == "k"       # the call is made with KEYWORD arguments (Z= / X= / fh=)
        est = fitted(inst)
        if isinstance(est, str) and est == "SKIP":
            continue
        # ---- decode the argument id
        pre, base = "", argid
        if base[0] in "uzy" and len(base) > 1:
            pre, base = base[0], base[1:]
        default_call = base == "N"
        if default_call:
            base = last_fh.get(inst) or c.get("fitfh", "A")
        rid = pre + base                      # the id the call is reported (and compared) under
        key = (method, rid)
        if isinstance(est, str):
            obs["calls"].append([inst, method, rid, "T", est])
            pending.append((key, est))
            continue
        if method != "inspect" and not hasattr(est, method):
            obs["calls"].append([inst, method, rid, "T", "E.nomethod"])
            firsts.setdefault(key, ("E.nomethod", "E.nomethod", False))
            continue
        exog = isfc and bool(c.get("exog"))
        a = argmk[base](shift=3) if (exog and pre == "u") else argmk[base]()
        before = snap_args(a)
        st0 = est_state(est) if isfc else {}
        try:
            if pre == "u":
                try:
                    if exog:
                        _call(est.update, _update_batch(c), _update_exog(c), update_params=False)
                    else:
                        _call(est.update, _update_batch(c), update_params=False)
                finally:
                    st0 = est_state(est)       # the state comparison is about the apply-type call, not about update
            if method == "inspect":
                res = inspect_results(est)
            elif isfc and exog:
                # predict(fh, X) / predict(X=X): the future values of the exogenous variables go with every call
                fn = getattr(est, method)
                res = (_call(fn, X=a[1]) if default_call else _call(fn, **as_keywords(fn, "fc", method, a)) if by_keyword
                       else _call(fn, *a))
            elif isfc:
                fn = getattr(est, method)
                res = _call(fn) if default_call else _call(fn, **as_keywords(fn, "fc", method, a[:1])) if by_keyword else _call(fn, a[0])
            elif by_keyword:
                fn = getattr(est, method)
                res = _call(fn, **as_keywords(fn, e["fam"], method, a))
            else:
                res = _call(getattr(est, method), *a)
            err = None
        except Exception as ex:
            res, err = None, _err(ex)
        if isfc and not default_call and e["mode"] == "o" and method != "inspect":
            last_fh[inst] = base
        flag = args_flag(before, snap_args(a))
        if flag == "T" and isfc:
            st1 = est_state(est)
            st0.pop("fh", None); st1.pop("fh", None)       # predict(fh) may store the horizon it was given
            flag = state_flag(st0, st1)
        if flag == "T" and copy_flag.get(inst, "T") != "T":
            flag = copy_flag[inst]
        copy_flag.pop(inst, None)
        if key not in firsts:
            if err is not None:
                firsts[key] = (err, err, False)
            else:
                chg = not (not isfc and snap(res)["values"] == before[0]["values"])
                firsts[key] = (res, result_digest(res), chg)
            dig = firsts[key][1]
        else:
            f0 = firsts[key]
            if err is not None:
                dig = err
            elif isinstance(f0[0], str):
                dig = result_digest(res)
            else:
                tol = 1e-9       # rounding-level differences (BLAS threading) are not what the property is about
                dig = f0[1] if same_result(f0[0], res, tol) else result_digest(res)
        obs["calls"].append([inst, method, rid, flag, dig])
    for key, tok in pending:
        firsts.setdefault(key, (tok, tok, False))
    obs["first"] = {"%s/%s" % k: [v[1], bool(v[2])] for k, v in firsts.items()}
    _OBS[_ck(c)] = obs
    return obs


def _obs(c):
    k = _ck(c)
    if k not in _OBS:
        run_real(c)
    return _OBS[k]


def _aid(method, argid):
    return {"predict": "p", "predict_proba": "q", "transform": "t", "inverse_transform": "i", "inspect": "s"}[method] + argid


def show_seq(obs):
    if obs["fit"] is None or obs["fit"].startswith("E."):
        return "fit=%s" % obs["fit"]
    return "fit=%s " % obs["fit"] + " ".join("%s:%s=%s:%s" % (inst, _aid(m, a), flag, dig) for inst, m, a, flag, dig in obs["calls"])


def seq_line(c):
    obs = _obs(c)
    if obs["fit"] is None or obs["fit"].startswith("E."):
        return None
    e = table()[c["est"]]
    cont = c["cont"]
    entries = []
    seen = set()
    for inst, m, a, flag, dig in obs["calls"]:
        if (m, a) in seen:
            continue
        seen.add((m, a))
        d0, chg = obs["first"]["%s/%s" % (m, a)]
        acont = ("fh+DataFrame" if c.get("exog") else "fh") if e["fam"] == "fc" else cont
        if e["fam"] in ("st", "pt") and a == "c":
            acont = cont + ("+DataFrame" if e["fam"] == "st" else "+ndarray")
        entries.append("A:%s:%s:%s:%s:%s" % (_aid(m, a), m, acont, show_bool(chg), d0))
    calls = ["%s:%s" % (inst, _aid(m, a)) for inst, m, a, flag, dig in obs["calls"]]
    fcont = cont + ("+DataFrame" if (e["fam"] == "fc" and c.get("exog")) or (e["fam"] == "st" and c.get("fitaux")) else "+ndarray" if e["fam"] in ("clf", "reg", "pt") else "")
    return "C12 seq %s F:%s:%s %s | %s" % (obs["cls"], fcont, c.get("ikind", "range"), " ".join(entries), " ".join(calls))


# =============================================================================== hampel cases
def _hampel_series(c):
    labels = [l for l, _ in c["z"]]
    vals = [float("nan") if v is None else float(v) for _, v in c["z"]]
    if c.get("ikind", "range") == "range" and labels == list(range(len(labels))):
        idx = pd.RangeIndex(0, len(labels))
    else:
        idx = pd.Index(np.array(labels, dtype="int64"))
    return pd.Series(np.array(vals, dtype="float64"), index=idx)


def _frac(s):
    from fractions import Fraction
    return Fraction(s)


def run_hampel(c):
    from sktime.transformations.series.outlier_detection import HampelFilter
    warnings.filterwarnings("ignore")
    z = _hampel_series(c)
    f = HampelFilter(window_length=c["w"], n_sigma=float(_frac(c["ns"])), k=float(_frac(c["k"])), return_bool=c["rb"])
    try:
        f.fit(z.copy())
        res = f.transform(z)
    except Exception as ex:
        return "res=" + canon_err(ex)
    if c["rb"]:
        r = "-" if len(res) == 0 else ",".join("%d:%s" % (int(l), show_bool(bool(v))) for l, v in res.items())
    else:
        r = M.s_series([[int(l), None if pd.isna(v) else float(v)] for l, v in res.items()])
    after = M.s_series([[int(l), None if pd.isna(v) else float(v)] for l, v in z.items()])
    return "res=%s after=%s" % (r, after)


def hampel_line(c):
    return "C12 hampel %d %s %s %s %s" % (c["w"], c["ns"], c["k"], show_bool(c["rb"]), M.s_series(c["z"]))


# =============================================================================== parallel cases
def run_par(c):
    import joblib
    from joblib import Parallel, delayed
    tasks, order = c["tasks"], c["order"]
    rank = {i: r for r, i in enumerate(order)}
    done, lock = [], threading.Lock()

    def task(i, x):
        time.sleep(0.004 * rank.get(i, 0))
        with lock:
            done.append(i)
        return 3 * x + 1
    with joblib.parallel_backend("threading"):
        res = Parallel(n_jobs=c["n_jobs"])(delayed(task)(i, x) for i, x in enumerate(tasks))
    _OBS[_ck(c)] = {"completed": list(done)}
    return "res=" + show_ints(res)


def par_line(c):
    return "C12 par %s %s" % (show_ints(c["order"]), show_ints(c["tasks"]))


# =============================================================================== static tie
ALLOWED_RANDOM = {
    # numba-compiled kernel generators: `np.random.*` inside an @njit function is numba's own per-thread generator,
    # seeded by `np.random.seed(seed)` in the same function from the estimator's random_state
    ("sktime/transformations/panel/rocket/_rocket.py", "_generate_kernels"),
    ("sktime/transformations/panel/rocket/_minirocket.py", "_fit_biases"),
    ("sktime/transformations/panel/rocket/_minirocket_multivariate.py", "_fit_biases_multi"),
    ("sktime/transformations/panel/rocket/_minirocket_multivariate.py", "_fit_multi"),
}
ALLOWED_SEEDLESS = {("sktime/series_as_features/model_selection/_split.py", "SingleSplit")}   # a splitter, delegates to sklearn
ALLOWED_WRITES = {
    # (class, apply-type method, attribute): scratch state rebuilt on every call, caches keyed by the argument, the
    # detached-and-restored cutoff, lazily built stateless helpers; none is read by a later call with other arguments
    ("OnlineEnsembleForecaster", "_predict", "weights"),
    ("PlateauFinder", "transform", "_starts"), ("PlateauFinder", "transform", "_lengths"),
    ("PlateauFinder", "transform", "_starts.append()"), ("PlateauFinder", "transform", "_lengths.append()"),
    ("SAX", "transform", "words.append()"), ("SFA", "transform", "words"),
    ("SeriesToPrimitivesRowTransformer", "transform", "transformer_"), ("SeriesToSeriesRowTransformer", "transform", "transformer_"),
    ("ShapeDTW", "predict", "transformer"), ("ShapeDTW", "predict", "transformer.append()"),
    ("ShapeDTW", "predict_proba", "transformer"), ("ShapeDTW", "predict_proba", "transformer.append()"),
    ("TSFreshFeatureExtractor", "transform", "n_jobs"),
    ("ThetaForecaster", "_predict", "sigma_"),
    ("_BaseWindowForecaster", "_predict", "_cutoff"), ("_BaseWindowForecaster", "_predict_in_sample", "_cutoff"),
    ("_CachedTransformer", "transform", "cache.update()"),
    ("_ProphetAdapter", "predict", "_forecaster"), ("_ProphetAdapter", "predict", "_X"), ("_ProphetAdapter", "predict", "_fh"),
}
_STATIC = {}


def run_static(c):
    sys.path.insert(0, os.path.join(os.path.dirname(os.path.dirname(os.path.abspath(__file__))), "extract"))
    import c12_static
    r = c12_static.scan(os.environ.get("SKTIME_REPO", "/repo"))
    new = []
    for it in r["random"]:
        if (it["file"], it["func"].split(".")[-1]) not in ALLOWED_RANDOM:
            new.append(("static:%s:%s:global-random" % (it["file"], it["func"]), "%s in %s (%s): generator not derived from random_state" % (it["call"], it["func"], it["file"])))
    for it in r["seedless"]:
        if (it["file"], it["cls"]) not in ALLOWED_SEEDLESS:
            new.append(("static:%s:%s:random_state-unused" % (it["file"], it["cls"]), "class %s takes random_state but never reads it" % it["cls"]))
    for it in r["writes"]:
        if (it["cls"], it["method"], it["attr"]) not in ALLOWED_WRITES:
            new.append(("static:%s.%s:writes-self.%s" % (it["cls"], it["method"], it["attr"]),
                        "%s.%s assigns self.%s (via %s, %s): state written inside an apply-type method" % (it["cls"], it["method"], it["attr"], it["via"], it["file"])))
    for it in r.get("truthy", []):
        new.append(("static:%s:%s:random_state-truthiness" % (it["file"], it["func"]),
                    "`%s` in %s (%s): the integer seed 0 is falsy and would be treated as unseeded" % (it["expr"], it["func"], it["file"])))
    for it in r.get("buffers", []):
        new.append(("static:%s:%s:buffer-shared-by-parallel-jobs" % (it["file"], it["func"]),
                    "`%s` is allocated in %s (%s) and passed to every job of a Parallel call: under threads the jobs overwrite each other's data" % (it["name"], it["func"], it["file"])))
    _STATIC["apply_parallel"] = sorted(set(it["func"] for it in r.get("apply_parallel", [])))
    for it in r.get("shared", []):
        new.append(("static:%s:%s:module-level-estimator-instance-used-without-clone" % (it["file"], it["func"]),
                    "`%s` (module level) is used in %s (%s) without clone: all objects share and refit one instance" % (it["name"], it["func"], it["file"])))
    for it in r["parallel"]:
        new.append(("static:%s:%s:unordered-parallel-collection" % (it["file"], it["func"]), "%s in %s (%s)" % (it["what"], it["func"], it["file"])))
    _STATIC["new"] = sorted(set(new))
    _STATIC["counts"] = {k: (len(v) if isinstance(v, list) else v) for k, v in r.items()}
    return "static files=%d classes=%d random=%d seedless=%d truthy=%d writes=%d parallel=%d new=%d" % (
        r["files"], r["classes"], len(r["random"]), len(r["seedless"]), len(r.get("truthy", [])), len(r["writes"]), len(r["parallel"]), len(_STATIC["new"]))


# =============================================================================== runner interface
def run_real(c):
    k = c.get("kind", "run")
    if k == "seq":
        return show_seq(run_seq(c))
    if k == "hampel":
        return run_hampel(c)
    if k == "par":
        return run_par(c)
    if k == "static":
        return run_static(c)
    return M.run_real(c)


def to_line(c):
    k = c.get("kind", "run")
    if k == "seq":
        return seq_line(c)
    if k == "hampel":
        return hampel_line(c)
    if k == "par":
        return par_line(c)
    if k == "static":
        return None
    return M.to_line(c)


def compare(real, model):
    return fuzzy_equal(real, model)


def _site(c, obs=None):
    e = table()[c["est"]]
    if "site" in e:
        return e["site"]
    key = c["est"].split(":", 1)[1]
    if key.startswith("imputer_"):
        return "Imputer[%s]" % key.split("_", 1)[1]
    if key == "hampel_frame_bool":
        return "HampelFilter[return_bool]"
    cls = (obs or {}).get("cls") or class_name(c["est"])
    return cls.split(":")[0]


def _parse_seq(out):
    """-> (fit flag, [(inst, aid, flag, digest)])"""
    toks = out.split(" ")
    fit = toks[0].split("=", 1)[1]
    calls = []
    for t in toks[1:]:
        lhs, rhs = t.split("=", 1)
        inst, aid = lhs.split(":")
        if rhs.startswith("F:"):
            _, comp, dig = rhs.split(":", 2)
            flag = "F:" + comp
        else:
            flag, dig = rhs.split(":", 1)
        calls.append((inst, aid, flag, dig))
    return fit, calls


_MNAME = {"p": "predict", "q": "predict_proba", "t": "transform", "i": "inverse_transform", "s": "inspect"}


def oracle(c, out):
    """The property text on the real observations."""
    k = c.get("kind", "run")
    fails = []
    if k == "static":
        return list(_STATIC.get("new", []))
    if k == "par":
        want = "res=" + show_ints([3 * x + 1 for x in c["tasks"]])
        if out != want:
            fails.append(("joblib.Parallel:result-order-depends-on-completion", "got %s, submission order gives %s (completion order %r)" % (out, want, c["order"])))
        return fails
    if k == "hampel":
        site = "HampelFilter[return_bool]" if c["rb"] else "HampelFilter"
        if " after=" in out:
            after = out.split(" after=")[1]
            if after != M.s_series(c["z"]):
                fails.append(("%s.transform(Series):caller-data-modified:values" % site, "caller's series after transform: %s (was %s)" % (after, M.s_series(c["z"]))))
        return fails
    if k == "seq":
        site = _site(c, _OBS.get(_ck(c)))
        cont = c["cont"] + ("/" + c["ikind"] if table()[c["est"]]["fam"] == "fc" else "") + ("+X" if c.get("exog") else "")
        fit, calls = _parse_seq(out)
        if fit.startswith("E."):
            err, _, fl = fit.partition("+")
            if fl:
                fails.append(("%s.fit(%s):caller-data-modified:%s" % (site, cont, fl[2:]), "fit raised %s AND changed the caller's argument (%s)" % (err, fl[2:])))
            if not (c.get("exog") or c.get("fitaux")):
                fails.append(("%s.fit(%s):raised" % (site, cont), "fit raised %s: the estimator can no longer be checked" % err))
            # (with exogenous data a fit may raise: missing values the wrapped regressor rejects, strategies without support for X)
            return fails
        if fit != "T":
            fails.append(("%s.fit(%s):caller-data-modified:%s" % (site, cont, fit[2:]), "fit changed the caller's argument (%s)" % fit[2:]))
        first = {}
        other_before = False       # another object of the class has been fitted on other data and used by now
        KIND = {"o": "repeat-differs", "fr": "differs-from-freshly-fitted-twin", "pk": "pickled-copy-differs",
                "dc": "deep-copy-differs", "pu": "pickled-copy-then-update-differs", "fu": "pickled-copy-then-update-differs"}
        for inst, aid, flag, dig in calls:
            m = _MNAME[aid[0]]
            if inst in ("fo", "fd"):
                other_before = True
            if flag.startswith("F:state-"):
                fails.append(("%s.%s:estimator-state-changed:%s" % (site, m, flag[8:]),
                              "%s(%s) changed the fitted estimator's %s (copy %s)" % (m, aid[1:], flag[8:], inst)))
            elif flag.startswith("F:copy-state-"):
                what = {"pk": "pickle round trip", "dc": "copy.deepcopy", "pu": "pickle round trip"}.get(inst, inst)
                fails.append(("%s:restored-copy-state-differs:%s" % (site, flag[13:]),
                              "after a %s the copy's %s differs from the original's" % (what, flag[13:])))
            elif flag != "T":
                fails.append(("%s.%s(%s):caller-data-modified:%s" % (site, m, c["cont"] + ("+X" if c.get("exog") else ""), flag[2:]), "%s changed the caller's argument (%s), copy %s" % (m, flag[2:], inst)))
            if dig.startswith("E.pickle") or dig.startswith("E.deepcopy"):
                fails.append(("%s:%s-failed" % (site, "pickle-round-trip" if dig.startswith("E.pickle") else "deepcopy"), "copying the fitted estimator raised (%s)" % dig))
                continue
            if aid not in first:
                first[aid] = (inst, dig)
                continue
            if dig != first[aid][1]:
                kind = KIND.get(inst, "equal-params-twin-differs")
                if first[aid][0] != "o" and inst == "o":
                    kind = KIND.get(first[aid][0], "equal-params-twin-differs")
                if kind == "repeat-differs" and other_before:
                    kind = "repeat-differs:other-object-in-between"
                form = c.get("rsform", "int")
                sfx = "" if form == "int" or kind.startswith("repeat-differs") else ":random_state=" + form
                fails.append(("%s.%s:%s%s" % (site, m, kind, sfx), "%s(%s) on copy %s returned %s, first result (copy %s) was %s%s" % (
                    m, aid[1:], inst, dig, first[aid][0], first[aid][1], "" if "rsform" not in c else " [random_state form: %s]" % form)))
        return fails
    return _oracle_run(c, out)


def _oracle_run(c, out):
    """forecaster histories: within a stretch without data-changing calls, predict with the same effective horizon
    returns the same result; update_predict leaves the cutoff where it was"""
    fails = []
    res, ys = M.parse_tokens(out)
    name = c["core"]
    site = name.split(":")[-1] if name.startswith("opaque") else name.split(":")[0]
    seen = {}
    stored = None
    prev_cut = None
    prev_state = None
    for op, (r, st) in zip(c["ops"], res):
        k = op[0]
        fitted, cut, n, fhs = st
        if k in ("fit", "upd", "ups"):
            seen = {}
        if k == "fit" and op[2] is not None and r[0] != "E":
            stored = json.dumps(op[2])
        if k == "up":
            if prev_cut is not None and cut != prev_cut:
                fails.append((site + ".update_predict:cutoff-not-restored", "cutoff %r before, %r after update_predict" % (prev_cut, cut)))
            if any(len(b) for b in [op[1]]):
                seen = {}           # the remembered data grew: later forecasts may legitimately differ
        if k == "pred" and prev_state is not None and (fitted, cut, n) != prev_state:
            fails.append((site + ".predict:estimator-state-changed", "predict(fh=%r) changed (fitted, cutoff, len(y)) from %r to %r" % (op[1], prev_state, (fitted, cut, n))))
        if k == "pred":
            given = op[1]
            if given is not None and r[0] != "E" and c["mode"] == "o":
                stored = json.dumps(given)
            eff = json.dumps(given) if given is not None else stored
            if eff is not None and r[0] in ("S", "E"):
                key = eff
                if key in seen and seen[key] != r:
                    fails.append((site + ".predict:repeat-differs", "predict(fh=%s) returned %r, earlier %r" % (eff, r, seen[key])))
                seen.setdefault(key, r)
        prev_cut = cut
        prev_state = (fitted, cut, n)
    return fails


def nontrivial(c, out):
    k = c.get("kind", "run")
    if k == "seq":
        fit, calls = _parse_seq(out)
        return not fit.startswith("E.") and any(not d.startswith("E.") for _, _, _, d in calls)
    if k == "hampel":
        return " after=" in out
    if k == "par":
        return len(c["tasks"]) > 1
    if k == "static":
        return True
    return "S[" in out or "F[" in out


def features(c, out):
    k = c.get("kind", "run")
    f = ["kind=" + k]
    if k == "seq":
        e = table()[c["est"]]
        f += ["est=" + c["est"], "fam=" + e["fam"], "cont=" + c["cont"]]
        if has_n_jobs(c["est"]):
            f.append("n_jobs-clause=" + c["est"])
        f.append("fit-by-keyword=%s" % bool(c.get("fitkw")))
        if e["fam"] == "fc":
            f.append("exog=%s" % (c.get("exog") or "none"))
        if e["fam"] == "st":
            f.append("fit-with-X=%s" % bool(c.get("fitaux")))
        f.append("calls-with-second-data-argument=%d" % sum(1 for x in c["calls"] if (c.get("exog") and e["fam"] == "fc") or (e["fam"] in ("st", "pt") and x[2] == "c")))
        f.append("calls-by-keyword=%d" % sum(1 for x in c["calls"] if len(x) > 3))
        if "rsform" in c:
            f.append("random_state=" + c["rsform"])
            if e.get("no_rsobj"):
                f.append("skipped=random_state-instance:" + e["no_rsobj"])
        fit, calls = _parse_seq(out)
        f.append("fitflag=" + fit)
        insts = set()
        for inst, aid, flag, dig in calls:
            insts.add(inst)
            f.append("call=" + _MNAME[aid[0]])
            if flag != "T":
                f.append("argsflag=" + flag)
            if dig.startswith("E."):
                f.append("result=" + dig)
        for i in sorted(insts):
            f.append("copy=" + i)
        obs = _OBS.get(_ck(c), {})
        for s in obs.get("skipped", []):
            f.append("skipped=" + s)
    elif k == "hampel":
        f += ["rb=%s" % c["rb"], "w=%d" % c["w"], "mutated=%s" % (" after=" in out and out.split(" after=")[1] != M.s_series(c["z"]))]
    elif k == "par":
        done = _OBS.get(_ck(c), {}).get("completed", [])
        f += ["n_jobs=%s" % c["n_jobs"], "completion==submission:%s" % (done == sorted(done)), "completion==intended:%s" % (done == c["order"])]
    elif k == "static":
        for kk, v in sorted(_STATIC.get("counts", {}).items()):
            f.append("static:%s=%s" % (kk, v))
        for fn in _STATIC.get("apply_parallel", []):
            f.append("apply-path-Parallel=" + fn)
    else:
        f += ["core=" + (c["core"] if not c["core"].startswith("opaque") else "opaque"), "mode=" + c["mode"]]
        for op in c["ops"]:
            f.append("op=" + op[0])
    return f


# =============================================================================== generators
SLOW = {"fc:tune_grid_naive_list", "fc:tune_grid_pipeline_list", "fc:tune_grid_multiplex_list", "fc:tune_grid_pipeline_dict",
        "fc:tune_random_naive_list", "fc:tune_random_dist", "clf:boss", "clf:boss_even", "clf:cboss_even", "clf:muse", "clf:stsf", "pt:shapelets", "fc:red_forest", "clf:cboss", "clf:rise", "pt:fitted_param", "fc:tuned_grid_par", "fc:tuned", "fc:tuned_random"}


def _seq_case(rng, key, cont, quick, variant=0, rsform=None, compact=False, exog=None):
    e = table()[key]
    fam = e["fam"]
    est = e["make"](1, None)
    methods = [m for m in METHODS[fam] if hasattr(est, m)]
    has_nj = has_n_jobs(key)
    slow = quick and key in SLOW
    fitfh = "A"
    if fam == "fc":
        # the horizon given at fit: relative or ABSOLUTE (predict() without a horizon must then keep using it, also on copies)
        fitfh = ["A", "a"][(variant + rng.randrange(2)) % 2] if not quick else ["A", "a"][variant % 2]
        # horizons out-of-sample, in-sample and mixed, relative and absolute, interleaved on ONE object
        argids = list(FH_OPTIONAL) if e["mode"] == "o" else [fitfh]
        if (slow or compact) and len(argids) > 4:
            argids = [fitfh] + rng.sample(["I", "X", "i", "x"], 2) + [rng.choice(["B", "a" if fitfh == "A" else "A"])]
    else:
        argids = ["a", "b"]
    pairs = [(m, a) for m in methods for a in argids]
    twins = (["jN", "j1", "j2", "j4"] if has_nj else ["jN"])
    if slow or compact:
        twins = ["j2"] if has_nj else ["jN"]
    # the original: every (method, argument) at least twice, interleaved
    seq = pairs * (1 if compact else 2) + [rng.choice(pairs) for _ in range(rng.randrange(1, 4))]
    if fam == "fc":
        seq += [(methods[0], "N")] * (2 if (slow or compact) else 3)       # predict() without a horizon
    rng.shuffle(seq)
    calls = [["o", m, a] for m, a in seq]
    if fam == "fc":
        calls.insert(0, ["o", methods[0], "N"])                            # ... also before any horizon was given to predict
    # twins and the copies, inserted at random positions (copies after at least one call)
    # (copies are asked first about data they were NOT fitted on: a fully grown tree reproduces its training
    # labels whatever intervals / seeds it drew, so the training panel cannot tell two fits apart)
    fresh = [p for p in pairs if p[1] in ("b", "B")] or pairs
    fresh = [p for p in fresh if p[0] in ("predict_proba", "transform")] or fresh      # probabilities say more than labels
    extra = []
    for tw in twins:
        picks = [rng.choice(fresh)]
        if not (slow or compact):
            picks.append(rng.choice(pairs))
        for m, a in picks:
            extra.append([tw, m, a])
    for cp in ("pk", "dc"):
        for m, a in [rng.choice(fresh), rng.choice(pairs)]:
            extra.append([cp, m, a])
    if fam in ("st", "pt"):
        # the second data argument of transform / inverse_transform (X next to Z, y next to X) is the caller's data too
        m = methods[0]
        extra += [["o", m, "c"], ["o", m, "c", "k"], [rng.choice(["pk", "dc"]), m, "c"]]
        if len(methods) > 1 and not (slow or compact):
            extra += [["o", methods[1], "c"]]
    if e.get("tuner"):
        # the search itself (cv_results_: params, mean scores, ranks; best_params_, best_score_) on every copy
        for inst in ["o", "o"] + twins + ["pk", "fr"]:
            extra.append([inst, "inspect", fitfh])
    # a FRESHLY fitted twin per call ('fr'): the reference no earlier call can have disturbed
    if fam == "fc":
        frp = list(pairs) if not (slow or compact) else rng.sample(pairs, min(2, len(pairs)))
    else:
        frp = [rng.choice(fresh)]
    for m, a in frp:
        extra.append(["fr", m, a])
    # ANOTHER object of the class (equal parameters / default-constructed) is fitted on OTHER data and used in between
    mo, ao = rng.choice(fresh)
    extra.append(["fo", mo, "z" + ao])
    if fam in ("fc", "st") or (fam == "pt" and key not in SLOW and not e.get("slow")):
        # (default-constructed classifiers / regressors / shapelet searches are far too expensive for a side object:
        # 200-tree forests; for them the second object has equal parameters only)
        extra.append(["fd", mo, "y" + ao])
    for x in extra:
        calls.insert(rng.randrange(1, len(calls) + 1), x)
    if fam == "fc":
        # the copies keep the horizon in force (values AND kind): predict() without a horizon on them, right after the
        # copy is made and later; and the copy is run through a further update + predict, against a fresh twin doing the same
        m = methods[0]
        tail = [["pk", m, "N"], ["dc", m, "N"], ["pu", m, "uN"], ["fu", m, "uN"]]
        if not (slow or compact):
            tail += [["pu", m, "u" + fitfh], ["fu", m, "u" + fitfh], ["jN", m, "N"]]
        for x in tail:
            calls.insert(rng.randrange(2, len(calls) + 1), x)
        # ... and once with the fit horizon still in force on every copy (before predict was given any horizon)
        calls[1:1] = [["pk", m, "N"], ["dc", m, "N"]]
    # every call both positionally and by KEYWORD (Z= / X= / y= / fh=): each (method, argument) of the original at least once
    # by keyword, the other calls at random; fit by keyword in every other case
    kw_done = set()
    for x in calls:
        if x[1] == "inspect" or x[2].endswith("N"):
            continue
        if (x[0] == "o" and (x[1], x[2]) not in kw_done) or rng.random() < 0.3:
            x.append("k")
            if x[0] == "o":
                kw_done.add((x[1], x[2]))
    n = rng.choice([24, 28, 32]) if fam in ("fc", "st") else rng.choice([16, 20])
    c = {"kind": "seq", "est": key, "cont": cont, "seed": rng.randrange(1, 10 ** 6), "n": n, "calls": calls,
         "fitkw": bool((variant + rng.randrange(2)) % 2)}
    if fam == "fc":
        c["fitfh"] = fitfh
        if exog:
            c["exog"] = exog
    if has_random_state(key):
        forms = [f for f in RS_FORMS if not (f == "rsobj" and e.get("no_rsobj"))]
        c["rsform"] = rsform if rsform in forms else forms[variant % len(forms)] if not quick else rng.choice([f for f in forms if f != "zero"])
    if fam == "st" and not quick:
        # fit(Z, X) in a quarter of the thorough cases (a transformer that hands X on to a forecaster without support for
        # exogenous data raises there: allowed, the caller's data must be intact all the same)
        c["fitaux"] = (variant + rng.randrange(2)) % 4 == 3
    if fam in ("fc", "st"):
        c["ikind"] = ["int64", "range"][(variant + rng.randrange(2)) % 2] if fam == "st" else ["int64", "range"][(variant // 2 + rng.randrange(2)) % 2]
        c["start"] = 0
    else:
        c["ninst"] = rng.choice([8, 10])
    return c


def _big_case(rng, key):
    """one fitted copy per n_jobs in {1, 2, 4}; the parallel apply-type call repeated on the 2- and 4-job copies and compared
    with the sequential one (100 instances, series of length 40)"""
    e = table()[key]
    est = e["make"](1, None)
    m = [x for x in ("predict_proba", "predict", "transform") if hasattr(est, x)][0]
    calls = [["o", m, "b"], ["j1", m, "b"]]
    for _ in range(3):
        calls += [["j4", m, "b"], ["j2", m, "b"]]
    calls += [["j4", m, "a"], ["o", m, "a"], ["o", m, "b", "k"]]
    c = {"kind": "seq", "est": key, "cont": "numpy3D", "seed": rng.randrange(1, 10 ** 6), "n": 40, "ninst": 100, "calls": calls, "fitkw": False}
    if has_random_state(key):
        c["rsform"] = rng.choice(["int", "npint", "zero"])
    return c


def _history12(rng, core, mode, long=False):
    """fit(fh?) then interleaved predict calls (explicit / default horizons), update_predict, update, predict again"""
    opq = core.startswith("opaque")
    n0 = rng.randrange(10, 17) if opq else rng.randrange(2, 10)
    start = rng.choice([0, 0, 3, -2])
    y0 = M.stretch(rng, start, n0, 0.0 if opq else rng.choice([0, 0, 0.15]), opq, 0.0)
    cutoff = y0[-1][0]
    maxh = 3 if opq else 5
    fhs = [M.rand_fh(rng, "oos", None, maxh) for _ in range(3)]
    if not opq and mode == "o":
        # in-sample and mixed horizons, relative and absolute, interleaved with the out-of-sample ones on ONE object
        fhs = [fhs[0], M.rand_fh(rng, "oos", cutoff, maxh), M.rand_fh(rng, "ins", None, maxh), M.rand_fh(rng, "ins", cutoff, maxh),
               M.rand_fh(rng, "mixed", None, maxh), M.rand_fh(rng, "mixed", cutoff, maxh)]
    fit_fh = fhs[0] if (mode == "r" or opq or rng.random() < 0.6) else None      # fhs[0] is relative out-of-sample
    ops = [["fit", y0, fit_fh]]
    stored = fit_fh is not None
    stored_oos = True
    for _i in range(rng.randrange(3, 9 if long else 7) + (0 if opq or mode == "r" else 3)):
        r = rng.random()
        if r < 0.7:
            if mode == "r":
                fh = None if rng.random() < 0.6 else fit_fh
            else:
                fh = None if (stored and rng.random() < 0.3) else rng.choice(fhs)
                if fh is None and not stored and rng.random() < 0.8:
                    fh = rng.choice(fhs)
                if fh is not None:
                    stored = True
                    stored_oos = fh[0] == "r" and all(v > 0 for v in fh[1])
            ops.append(["pred", fh])
        elif r < 0.9 and not opq:
            # update_predict: only where the model's `updatePredict` (_BaseWindowForecaster) is the code that runs
            m = rng.randrange(1, 6)
            batch = M.stretch(rng, cutoff + 1, m, 0.0, opq, 0.0)
            explicit = [rng.choice(["s", "e"]), sorted(rng.sample(range(1, 4), rng.choice([1, 1, 2]))),
                        rng.randrange(1, 4), rng.randrange(1, 3), None, rng.random() < 0.5]
            # the default splitter is built from the stored horizon: only asked for when that is relative out-of-sample
            cv = explicit if (not stored or not stored_oos or rng.random() < 0.5) else None
            ops.append(["up", batch, cv, False])
        else:
            m = rng.randrange(1, 4)
            batch = M.stretch(rng, cutoff + 1, m, 0.0, opq, 0.0)
            ops.append(["upd", batch, False])
            cutoff = batch[-1][0]
    return ops


def _hampel_case(rng):
    n = rng.randrange(3, 14)
    w = rng.choice([1, 2, 3, 3, 4, 5, 10])
    vals = []
    for i in range(n):
        u = rng.random()
        if u < 0.08:
            vals.append(None)
        elif u < 0.25:
            vals.append(rng.choice([-1, 1]) * rng.randrange(50, 400) / 2.0)
        else:
            d = 1 << rng.randrange(0, 3)
            vals.append(rng.randrange(-8 * d, 8 * d + 1) / d)
    return {"kind": "hampel", "w": w, "ns": rng.choice(["3", "3", "2", "1", "3/2"]), "k": rng.choice(["7413/5000", "7413/5000", "1", "3/2"]),
            "rb": rng.random() < 0.3, "ikind": rng.choice(["range", "int64"]), "z": [[i, v] for i, v in enumerate(vals)]}


def _par_case(rng):
    n = rng.randrange(2, 9)
    order = list(range(n))
    rng.shuffle(order)
    return {"kind": "par", "tasks": [rng.randrange(-50, 50) for _ in range(n)], "order": order, "n_jobs": rng.choice([2, 4, 4, 8])}


def gen_cases(tier, rng):
    quick = tier == "quick"
    cases = [{"kind": "static"}]
    T = table()
    reps = 1 if quick else 8
    for key in sorted(T):
        e = T[key]
        if quick and e.get("slow"):
            continue
        if e.get("big"):
            for _ in range(1 if quick else 3):
                cases.append(_big_case(rng, key))
            continue
        if e["fam"] == "fc":
            # EXOGENOUS data next to the series (fit(y, X, fh), predict(fh, X), update(y, X)) for every forecaster: frames
            # with the gaps lagging produces and missing future readings, complete frames, one block / mixed dtypes / a
            # view on the caller's wider array.  quick: one compact history per forecaster (tuners: one in three, rotating)
            if quick:
                forms = [] if (e.get("tuner") and rng.randrange(3)) else [rng.choice(["nan", "nan1", "nanview"] if e.get("exog_only")
                                                                                   else ["nan", "nan", "nan1", "nanview", "full", "mixed"])]
            else:
                forms = EXOG_FORMS[:2] + ["full"] if e.get("tuner") else EXOG_FORMS
            for i, form in enumerate(forms):
                cases.append(_seq_case(rng, key, e["conts"][0], quick, variant=i + rng.randrange(2), compact=True, exog=form))
            if e.get("exog_only"):
                continue
        for cont in e["conts"]:
            for v in range(reps if not e.get("tuner") else max(1, reps // 2)):      # a tuner case costs about ten ordinary ones
                cases.append(_seq_case(rng, key, cont, quick, variant=v + rng.randrange(2) if (e["fam"] != "fc" or (quick and e.get("tuner"))) else v))
            if e["fam"] == "fc" and quick and not e.get("tuner"):
                # both index kinds for forecasters even in the quick tier (the adapters' index replacement needs Int64Index)
                cases.append(_seq_case(rng, key, cont, quick, variant=1))
        if quick and has_random_state(key):
            # every estimator with a random_state is also fitted twice (and more) with the seed 0 in the quick tier
            cases.append(_seq_case(rng, key, e["conts"][-1], quick, variant=0, rsform="zero", compact=True))
    cores = ["last", "mean:none", "mean:3", "probe:2", "probe:3"]
    for i in range(120 if quick else 2500):
        core = rng.choice(cores)
        mode = "r" if core.startswith("probe") and rng.random() < 0.3 else "o"
        cases.append({"kind": "run", "prop": PROP, "core": core, "mode": mode, "ops": _history12(rng, core, mode, long=not quick),
                      "shift": rng.choice([0, 0, 5, 1000]), "range": rng.random() < 0.5})
    for name, (mode, _) in sorted(M._opaque_table().items()):
        for j in range(2 if quick else 12):
            cases.append({"kind": "run", "prop": PROP, "core": "opaque:" + name, "mode": mode, "ops": _history12(rng, "opaque:" + name, mode),
                          "shift": rng.choice([0, 7]), "range": rng.random() < 0.5})
    for i in range(60 if quick else 1500):
        cases.append(_hampel_case(rng))
    for i in range(8 if quick else 40):
        cases.append(_par_case(rng))
    return cases


def shrink(c):
    k = c.get("kind", "run")
    if k == "seq":
        calls = c["calls"]
        for i in range(len(calls) - 1, -1, -1):
            if len(calls) > 1:
                yield dict(c, calls=calls[:i] + calls[i + 1:])
    elif k == "hampel":
        z = c["z"]
        if len(z) > 2:
            yield dict(c, z=[[i, v] for i, (_, v) in enumerate(z[1:])])
            yield dict(c, z=z[:-1])
    elif k == "run":
        ops = c["ops"]
        for i in range(len(ops) - 1, 0, -1):
            yield dict(c, ops=ops[:i] + ops[i + 1:])
        if c.get("shift"):
            yield dict(c, shift=0)
