"""C13 correspondence + oracle: series transformers are invertible, index-preserving, aligned in time.

A case is a HISTORY of calls on one transformer object:

  {"cfg": [...], "itype": "range"|"int64", "shift": c,
   "ops": [{"op": "fit"|"upd"|"tr"|"inv"|"ft", "z": INPUT, "up": null|bool, "ref": k|null}, ...]}
  INPUT = {"l": [labels], "v": [floats | null (NaN)], "dt": "float64"|"float32"|"int64"|"int32" (optional)}
          | "notseries" | "fidx"        (an integer "dt" is honoured only for integral, NaN-free values)

cfg:  ["des", sp, "A"|"M"]  ["cdes", sp, "A"|"M", test]  ["det", degree]  ["bc"]  ["log"]
      ["ad", name]  ["hampel", w, n_sigma, k(, return_bool)]  ["pass", flag, inner_cfg]
      ["imputer", method(, missing_values)] ["acf", nlags(, adjusted, fft)] ["pacf", nlags(, method)] ["cos"]
      ["det", degree, "noint"] (with_intercept=False)                (observed + oracle only)
OPTIONS: every constructor option of every class is exercised away from its default too (HampelFilter return_bool,
Imputer missing_values / random / forecaster, ACF adjusted / fft, PACF method, the trend forecaster's with_intercept,
sklearn transformers with non-default options inside the adaptor); the same clauses apply.

"pform": "np" | "int" (optional) = every parameter of the case's object is passed in an EQUAL-VALUED form (np.bool_ /
0-1 flags, numpy integers, np.float64, np.str_); results must equal those with the builtin values.
"pre": {"cfg": cfg0, "ops": [...]} (optional) = OBJECT HISTORY: the object is constructed with cfg0 (same class, other
parameters), the pre ops (fit / transform / update on OTHER data) run on it, then `set_params(<parameters of cfg>)`,
then the case's ops (which start with fit / fit_transform).  The model is run as a FRESH object with cfg: a refit
must forget the history.  If the first fit of the case raises on the real object the case is not comparable (the
old fitted state legitimately persists) and is skipped.
"other": {"cfg": cfgB, "steps": [{"at": i, "ops": [...]}, ...]} (optional) = A SECOND OBJECT: before the case's op i
another object B of the same class (same / other / default parameters; constructed at the first step) is fitted,
updated and used on OTHER data.  The model and all clauses look at the case's own object only; in addition its
results must equal those of the same history with no B (`<site>:other-object-interferes`).
["bc"] may carry optimiser options: ["bc", [lo, hi] | null, "mle" | "pearsonr"].
`inv` with "ref": k is applied to the series the real code returned for op k (fallback "z").
If shift != 0 the same history is run a second time on a fresh object with every label + shift.

Library facts the model takes as DATA (DESIGN 4.2) are computed here independently of the object
under test (`_Shadow`): statsmodels' seasonal component of the training values, the result of the
seasonality test, whether scipy's / sklearn's own fit succeeded, and the values of the library
function (scipy boxcox / inv_boxcox at the fitted lambda, np.log / np.exp, the fitted sklearn
transformer) on the inputs of each call.
"""
import copy, json, math, warnings
import numpy as np, pandas as pd
from common import canon_err, show_ints, show_rat, parse_rat, close

PROP = "C13"
LEAN_MODULE = "SkVerif.Props.C13"
OBLIGATIONS = [
    "SkVerif.C13.aligned_seasonal_eq_phase",
    "SkVerif.C13.deseason_component_depends_on_phase_only",
    "SkVerif.C13.deseason_inverse_roundtrip",
    "SkVerif.C13.keeps_training_keeps_state",
    "SkVerif.C13.keeps_training_history",
    "SkVerif.C13.phase_independent_of_updates",
    "SkVerif.C13.phase_after_fit",
    "SkVerif.C13.detrend_roundtrip",
    "SkVerif.C13.detrend_trend_is_function_of_label",
    "SkVerif.C13.detrend_update_without_refit_keeps_trend",
    "SkVerif.C13.boxcox_roundtrip",
    "SkVerif.C13.adaptor_roundtrip",
    "SkVerif.C13.index_preserved",
    "SkVerif.C13.passthrough_returns_input",
    "SkVerif.C13.fit_transform_fit_error",
    "SkVerif.C13.fit_transform_eq_fit_then_transform",
    "SkVerif.C13.fit_transform_history",
    "SkVerif.C13.shift_equivariance",
    "SkVerif.C13.shiftState_fresh",
    "SkVerif.C13.shift_equivariance_history",
    "SkVerif.C13.hampel_index_preserved",
    "SkVerif.C13.hampel_flags_mark_removed",
    "SkVerif.C13.refit_forgets_history",
    "SkVerif.C13.refit_same_outcome",
]
TRUSTED = [
    "hand-written model SkVerif/Model/SeriesTransform.lean of _deseasonalize.py, _detrend.py (+ the parts of PolynomialTrendForecaster/_SktimeForecaster it reaches), boxcox.py, adapt.py, compose.py, BaseTransformer.fit_transform, check_series, _hampel_filter",
    "library facts fed to the model as data, computed by the harness independently of the object under test: statsmodels seasonal_decompose(...).seasonal[:sp] of the training values; result of the seasonality test; whether scipy's Box-Cox optimiser / sklearn's fit raised; values of scipy boxcox/inv_boxcox at the fitted lambda, np.log/np.exp, the fitted sklearn transformer on each call's input",
    "Imputer, (Partial)AutoCorrelationTransformer, CosineTransformer are not modelled: for them only the oracle (shift equivariance on the real code) runs",
]
ASSUMPTIONS = [
    "integer (Int64/Range) time index for all transformers; in addition the (conditional) deseasonalizer runs on an hourly / daily DatetimeIndex and a daily PeriodIndex (time points are mapped to integer steps for the model and the oracle); other transformers are not exercised on time-stamp indexes",
    "multivariate DataFrame input (adaptor, log, cos, Hampel, Imputer) is judged by the oracle only (round trip, index, shift and equality of every column with the same column transformed alone); the Lean model is univariate",
    "non-finite floats (NaN, +-inf) are one value `none`; rounding is not modelled (DESIGN 4.2); real-vs-model values agree within 1e-9 relative",
    "boxcox_roundtrip assumes scipy's pair satisfies inv_boxcox(boxcox(x)) = x wherever boxcox(x) is finite (stated hypothesis, exercised by the oracle within 1e-7)",
    "the phase clause is stated for stretches of time (labels t, t+1, ...): on a gapped or duplicated integer index the code aligns by POSITION (modelled and compared, not judged by the oracle)",
    "duplicate labels inside a batch passed to Detrender.fit/update are not modelled (pandas combine_first semantics); such cases are not sent to the model",
    "for ACF/PACF the output index is the lag, not time: the shift clause is read as 'output unchanged'",
]
RULE = ("multivariate stream: 2-3 column frames with string / integer column labels in non-sorted order for the adaptor (Standard/MinMax/Robust/log1p), log, cos, "
        "Hampel and 8 Imputer methods; time-index stream: (conditional) deseasonalizer on hourly / daily DatetimeIndex and daily PeriodIndex, periods 4,5,7,9,12,24, "
        "stretches starting hours to days before / after the training start; parameter forms: a share of all cases (half of the OptionalPassthrough ones) passes every parameter in an equal-valued form (np.bool_ or 0/1 "
        "for flags, np.int64 / np.int32 for sp, degree, window, lags, np.float64, np.str_ for option names); "
        "second object: a share of all cases (and a dedicated stream: every class x same / default / neighbouring parameters) has another object "
        "of the same class constructed, fitted, updated and used on other data between the operations of the case's object; "
        "object history: a share of all cases (and a dedicated stream: every class x every neighbouring configuration) runs on an object that was "
        "first constructed with other parameters, fitted / used on other data and then re-configured with set_params before the case's fit; "
        "values are held as float64 / float32 / int64 / int32 series (integer dtypes with integer-valued data; training series and later "
        "stretches vary independently, incl. a real-valued stretch after an integer training series; count-data stream with values up to 1000); "
        "a case is a history of calls (fit / update / transform / inverse_transform / fit_transform, inverse applied to the series the real "
        "transform returned) on one transformer object, optionally replayed with every label shifted by a constant; streams: deseasonalizer small scope "
        "(sp 1..5 x additive/multiplicative x origins -7/0/5 x every start offset in -sp-1..2sp+1 of the transformed stretch, with and without "
        "phase-neutral / arbitrary updates; quick = seed-rotated third), conditional deseasonalizer x 6 seasonality tests, detrender histories "
        "(degree 0/1; next/overlapping/gapped/earlier/empty update batches before and after a horizon was set), Box-Cox/log/4 sklearn adaptors, "
        "OptionalPassthrough around each, Hampel filter (w 1..6, origins 0 and != 0, return_bool False / True, univariate and frames, later stretches), Imputer/ACF/PACF/cos (oracle only), "
        "constructor options away from their defaults for every class (HampelFilter return_bool; Imputer missing_values sentinel, random with a fixed random_state, forecaster; ACF adjusted / fft; "
        "PACF method; trend forecaster with_intercept=False; MinMax/Standard/Robust scalers with non-default options inside the adaptor), structured random histories, "
        "malformed stream (calls before fit, non-series, float index, empty, unsorted, duplicated, gapped); distinct by driver line; "
        "non-trivial = at least one call returned a non-empty series")
LEVEL_TEXT = ("proof for the model: alignment of the seasonal component for every start offset (incl. before the training start); its independence "
              "from the history (every sequence of update / transform / inverse_transform calls and failing re-fits); round trips (deseasonalizer "
              "additive/multiplicative, detrender for any embedded regression, Box-Cox/log/adaptor for any library map with the stated inverse "
              "hypothesis); index preservation of the tagged transformers and of HampelFilter; fit_transform = fit;transform; shift equivariance of "
              "every call and history of every modelled transformer incl. HampelFilter with either value of return_bool (flags stay on the time points of the filtered series); a successful re-fit forgets the object's history (same parameters "
              "=> same results as a fresh object); tie to the code by differential correspondence over call histories")
LEVEL_NOTE = ("All clauses are proved at full strength for the model of the code after the fixes 1ad9b8f (Deseasonalizer keeps its phase reference across "
              "update and failed re-fit) and bc08df8 (HampelFilter reads windows by position), b2363ba (Detrender.update checks the fitted state) and ea521a6 (PolynomialTrendForecaster keeps the origin of its time axis from fit); the witnesses of the fixed defects stay in the corpus and "
              "re-introducing any of these defects makes the oracle fail. Observed only (oracle on real code, no model): Imputer, ACF/PACF, cos. Library code "
              "(statsmodels decomposition, scipy Box-Cox, sklearn transformers, seasonality test) enters as data / uninterpreted functions.")
TECHNIQUE = "Lean 4 executable model + universally quantified theorems (induction, invariants over operation lists); differential correspondence + property oracle on real call histories"

MODELLED = ("des", "cdes", "det", "bc", "log", "ad", "hampel", "pass")
TAGGED_SAME_INDEX = ("des", "cdes", "det", "bc", "log", "ad", "cos")
SITE = {"des": "Deseasonalizer", "cdes": "ConditionalDeseasonalizer", "det": "Detrender", "bc": "BoxCoxTransformer",
        "log": "LogTransformer", "ad": "TabularToSeriesAdaptor", "hampel": "HampelFilter", "imputer": "Imputer",
        "acf": "AutoCorrelationTransformer", "pacf": "PartialAutoCorrelationTransformer", "cos": "CosineTransformer"}
HAMPEL_K = 1.4826
SENTINEL = -99.0          # Imputer(missing_values=SENTINEL): the value that marks a missing observation


def _site(cfg):
    if cfg[0] == "pass":
        return "OptionalPassthrough(%s)" % _site(cfg[2])
    return SITE[cfg[0]]


# ----------------------------------------------------------------------------- building real objects
def _tests():
    return {"true": lambda y, sp: True, "false": lambda y, sp: False, "nonbool": lambda y, sp: 1,
            "npfalse": lambda y, sp: np.bool_(False)}


def _sk(name):
    from sklearn.preprocessing import MinMaxScaler, StandardScaler, RobustScaler, Binarizer, FunctionTransformer
    if name == "robust":
        return RobustScaler()
    if name == "minmax":
        return MinMaxScaler()
    if name == "standard":
        return StandardScaler()
    if name == "binarizer":
        return Binarizer(threshold=2.0)
    if name == "minmax11":
        return MinMaxScaler(feature_range=(-1, 1))
    if name == "standard_nomean":
        return StandardScaler(with_mean=False)
    if name == "robust_wide":
        return RobustScaler(quantile_range=(10.0, 90.0), with_centering=False)
    if name == "log1p":
        return FunctionTransformer(np.log1p, inverse_func=np.expm1, check_inverse=False)
    raise ValueError(name)


def _sk_has_inverse(name):
    return name != "binarizer"


def _form(v, form):
    """an EQUAL-VALUED form of a parameter value: np.bool_ / 0-1 for booleans, numpy integers for ints,
    np.float64 for floats, np.str_ for option names"""
    if form is None:
        return v
    if isinstance(v, bool):
        return np.bool_(v) if form == "np" else int(v)
    if isinstance(v, int):
        return np.int64(v) if form == "np" else np.int32(v)
    if isinstance(v, float):
        return np.float64(v)
    if isinstance(v, str):
        return np.str_(v)
    if isinstance(v, tuple):
        return tuple(_form(x, form) for x in v)
    return v


def _params(cfg, form=None):
    """constructor / set_params keyword arguments that make an object of cfg's class equivalent to _build(cfg);
    `form`: None = builtin values, "np" / "int" = equal-valued numpy / integer forms"""
    return {k: _form(v, form) for k, v in _params_plain(cfg, form).items()}


def _params_plain(cfg, form=None):
    k = cfg[0]
    if k in ("des", "cdes"):
        d = {"sp": cfg[1], "model": "additive" if cfg[2] == "A" else "multiplicative"}
        if k == "cdes":
            test = cfg[3]
            d["seasonality_test"] = None if test == "default" else (3 if test == "notcallable" else _tests()[test])
        return d
    if k == "det":
        from sktime.forecasting.trend import PolynomialTrendForecaster
        if cfg[1] == 1 and len(cfg) > 2 and cfg[2] == "default":
            return {"forecaster": None}
        if len(cfg) > 2 and cfg[2] == "noint":
            return {"forecaster": PolynomialTrendForecaster(degree=_form(cfg[1], form), with_intercept=_form(False, "np" if form else None))}   # (0 is refused by this environment's sklearn 1.7 parameter validation: not sktime's doing)
        return {"forecaster": PolynomialTrendForecaster(degree=_form(cfg[1], form))}
    if k == "bc":
        b = cfg[1] if len(cfg) > 1 else None
        return {"bounds": tuple(b) if b else None, "method": cfg[2] if len(cfg) > 2 else "mle"}
    if k == "ad":
        return {"transformer": _sk(cfg[1])}
    if k == "hampel":
        return {"window_length": cfg[1], "n_sigma": cfg[2], "k": cfg[3], "return_bool": bool(cfg[4]) if len(cfg) > 4 else False}
    if k == "pass":
        return {"transformer": _build(cfg[2], form), "passthrough": bool(cfg[1])}
    if k == "imputer":
        d = {"method": cfg[1], "value": 1.5 if cfg[1] == "constant" else None,
             "missing_values": float(cfg[2]) if len(cfg) > 2 and cfg[2] is not None else None,
             "random_state": 3 if cfg[1] == "random" else None, "forecaster": None}
        if cfg[1] == "forecaster":
            from sktime.forecasting.trend import PolynomialTrendForecaster
            d["forecaster"] = PolynomialTrendForecaster(degree=_form(2, form))
        return d
    if k == "acf":
        return {"n_lags": cfg[1], "adjusted": bool(cfg[2]) if len(cfg) > 2 else False, "fft": bool(cfg[3]) if len(cfg) > 3 else False}
    if k == "pacf":
        return {"n_lags": cfg[1], "method": cfg[2] if len(cfg) > 2 else "ywadjusted"}
    return {}


def _build(cfg, form=None):
    k = cfg[0]
    pr = _params(cfg, form)
    if k == "des":
        from sktime.transformations.series.detrend import Deseasonalizer
        return Deseasonalizer(**pr)
    if k == "cdes":
        from sktime.transformations.series.detrend import ConditionalDeseasonalizer
        return ConditionalDeseasonalizer(**pr)
    if k == "det":
        from sktime.transformations.series.detrend import Detrender
        return Detrender() if pr["forecaster"] is None else Detrender(pr["forecaster"])
    if k == "bc":
        from sktime.transformations.series.boxcox import BoxCoxTransformer
        return BoxCoxTransformer(**pr)
    if k == "log":
        from sktime.transformations.series.boxcox import LogTransformer
        return LogTransformer()
    if k == "ad":
        from sktime.transformations.series.adapt import TabularToSeriesAdaptor
        return TabularToSeriesAdaptor(pr["transformer"])
    if k == "hampel":
        from sktime.transformations.series.outlier_detection import HampelFilter
        return HampelFilter(**pr)
    if k == "pass":
        from sktime.transformations.series.compose import OptionalPassthrough
        return OptionalPassthrough(pr["transformer"], passthrough=pr["passthrough"])
    if k == "imputer":
        from sktime.transformations.series.impute import Imputer
        return Imputer(**{a: v for a, v in pr.items() if v is not None})
    if k == "acf":
        from sktime.transformations.series.acf import AutoCorrelationTransformer
        return AutoCorrelationTransformer(**pr)
    if k == "pacf":
        from sktime.transformations.series.acf import PartialAutoCorrelationTransformer
        return PartialAutoCorrelationTransformer(**pr)
    if k == "cos":
        from sktime.transformations.series.cos import CosineTransformer
        return CosineTransformer()
    raise ValueError(cfg)


def _is_series(inp):
    return isinstance(inp, dict)


def _contig(labels):
    return all(b - a == 1 for a, b in zip(labels, labels[1:]))


def _dt(inp):
    """numpy dtype of the values of a generated series"""
    dt = inp.get("dt", "float64") if isinstance(inp, dict) else "float64"
    if dt.startswith("int") and not all(v is not None and float(v) == int(v) for v in inp["v"]):
        return "float64"
    return dt


def _has_f32(case):
    return any(isinstance(o["z"], dict) and o["z"].get("dt") == "float32" for o in case["ops"])


_BASE = pd.Timestamp("2021-03-01")
_STEP = {"dth": pd.Timedelta(hours=1), "dtd": pd.Timedelta(days=1)}


def _time_index(labels, itype):
    """integer step k <-> time point: hourly / daily DatetimeIndex or daily PeriodIndex starting 2021-03-01"""
    if itype in _STEP:
        return pd.date_range(_BASE + labels[0] * _STEP[itype], periods=len(labels), freq="h" if itype == "dth" else "D")
    return pd.period_range(pd.Period("2021-03-01", freq="D") + labels[0], periods=len(labels), freq="D")


def _index_labels(idx):
    """integer labels of a returned index (time points are mapped back to integer steps), or None"""
    if isinstance(idx, pd.DatetimeIndex):
        step = pd.Timedelta(hours=1) if (len(idx) and (idx.freqstr or "").lower().startswith("h")) or any(ts.hour for ts in idx) else pd.Timedelta(days=1)
        if _CUR["itype"] in _STEP:
            step = _STEP[_CUR["itype"]]
        return [int(round((ts - _BASE) / step)) for ts in idx]
    if isinstance(idx, pd.PeriodIndex):
        return [int((p - pd.Period("2021-03-01", freq="D")).n) for p in idx]
    if idx.dtype.kind not in "iu":
        return None
    return [int(v) for v in idx]


_CUR = {"itype": "range"}


def _mk_input(inp, itype, shift):
    if inp == "notseries":
        return [1.0, 2.0, 3.0]
    if inp == "fidx":
        return pd.Series([1.0, 2.0], index=pd.Index([0.5, 1.5]))
    labels = [int(l) + shift for l in inp["l"]]
    if itype in ("dth", "dtd", "per") and labels and _contig(labels):
        idx = _time_index(labels, itype)
    elif itype == "range" and labels and _contig(labels):
        idx = pd.RangeIndex(labels[0], labels[-1] + 1)
    else:
        idx = pd.Index(np.array(labels, dtype="int64"))
    if "cols" in inp:      # multivariate: one list of values per column, columns in the given (not sorted) order
        data = {c: np.array([np.nan if v is None else float(v) for v in col], dtype="float64") for c, col in zip(inp["cols"], inp["vv"])}
        return pd.DataFrame(data, index=idx, columns=list(inp["cols"]))
    vals = np.array([np.nan if v is None else float(v) for v in inp["v"]], dtype="float64").astype(_dt(inp))
    return pd.Series(vals, index=idx)


def _fl(x):
    x = float(x)
    return "nan" if (math.isnan(x) or math.isinf(x)) else repr(x)


def _ser_token(r):
    if isinstance(r, pd.DataFrame):
        try:
            labels = _index_labels(r.index)
        except Exception:
            labels = None
        if labels is None:
            return "?index"
        cols = []
        for c in r.columns:
            v = r[c].to_numpy()
            if v.dtype.kind not in "fiub":
                return "?dtype:" + str(v.dtype)
            cols.append("-" if len(v) == 0 else ",".join(_fl(x) for x in v))
        return "F;%s;%s;%s" % (show_ints(labels), "~".join(str(c) for c in r.columns), ";".join(cols))
    if not isinstance(r, pd.Series):
        return "?" + type(r).__name__
    try:
        labels = _index_labels(r.index)
        if labels is None:
            return "?index:" + str(r.index.dtype)
    except Exception:
        return "?index"
    vals = r.to_numpy()
    if vals.dtype.kind not in "fiub":
        return "?dtype:" + str(vals.dtype)
    return (show_ints(labels)) + ":" + ("-" if len(vals) == 0 else ",".join(_fl(v) for v in vals))


def _apply(t, op, z):
    k = op["op"]
    if k == "fit":
        t.fit(z)
        return "ok", None
    if k == "upd":
        if op.get("up") is None:
            t.update(z)
        else:
            t.update(z, update_params=bool(op["up"]))
        return "ok", None
    if k == "tr":
        r = t.transform(z)
    elif k == "inv":
        r = t.inverse_transform(z)
    elif k == "ft":
        r = t.fit_transform(z)
    else:
        raise ValueError(k)
    return _ser_token(r), (r if isinstance(r, (pd.Series, pd.DataFrame)) else None)


def _quiet_apply(t, op, z):
    try:
        with warnings.catch_warnings():
            warnings.simplefilter("ignore")
            with np.errstate(all="ignore"):
                _apply(t, op, z)
    except Exception:
        pass


def _run_hist(case, shift, extras=None, with_pre=True, with_other=True, plain=False):
    cfg, itype = case["cfg"], case.get("itype", "range")
    _CUR["itype"] = itype
    form = None if plain else case.get("pform")
    other = case.get("other") if with_other else None
    tB = [None]

    def run_other(at):
        # a second, unrelated object of the same class used between the operations of the case's object
        if not other:
            return
        for st in other["steps"]:
            if st["at"] == at:
                if tB[0] is None:
                    try:
                        tB[0] = _build(other["cfg"])
                    except Exception:
                        return
                for bop in st["ops"]:
                    _quiet_apply(tB[0], bop, _mk_input(bop["z"], itype, shift))

    pre = case.get("pre") if with_pre else None
    if pre:
        # object history: another configuration fitted / used on other data, then set_params
        t = _build(pre["cfg"])
        for op in pre["ops"]:
            try:
                with warnings.catch_warnings():
                    warnings.simplefilter("ignore")
                    with np.errstate(all="ignore"):
                        _apply(t, op, _mk_input(op["z"], itype, shift))
            except Exception:
                pass
        t.set_params(**_params(cfg, form))
    else:
        t = _build(cfg, form)
    toks, sers = [], []
    for i, op in enumerate(case["ops"]):
        run_other(i)
        z = None
        if op["op"] == "inv" and op.get("ref") is not None and op["ref"] < len(sers) and sers[op["ref"]] is not None:
            z = sers[op["ref"]].copy()
        if z is None:
            z = _mk_input(op["z"], itype, shift)
        try:
            with warnings.catch_warnings():
                warnings.simplefilter("ignore")
                with np.errstate(all="ignore"):
                    tok, ser = _apply(t, op, z)
        except Exception as e:
            tok, ser = canon_err(e), None
        toks.append(tok)
        sers.append(ser)
        if extras is not None:
            # fit_transform on this object vs fit-then-transform on a fresh one
            if op["op"] == "ft":
                t2 = _build(cfg, form)
                try:
                    with warnings.catch_warnings():
                        warnings.simplefilter("ignore")
                        with np.errstate(all="ignore"):
                            t2.fit(_mk_input(op["z"], itype, shift))
                            r2 = _ser_token(t2.transform(_mk_input(op["z"], itype, shift)))
                except Exception as e:
                    r2 = canon_err(e)
                extras.setdefault("ftref", {})[str(i)] = r2
            # deseasonalizers: what is removed from the training series right after a successful fit
            if _des_cfg(cfg) is not None and op["op"] in ("fit", "ft") and not tok.startswith(("E:", "?")) and _is_series(op["z"]):
                try:
                    with warnings.catch_warnings():
                        warnings.simplefilter("ignore")
                        with np.errstate(all="ignore"):
                            r3 = _ser_token(copy.deepcopy(t).transform(_mk_input(op["z"], itype, shift)))
                except Exception as e:
                    r3 = canon_err(e)
                extras.setdefault("ref", {})[str(i)] = r3
            # Box-Cox: the fitted lambda (only used to bound the ROUNDING error of the round trip)
            if _eff_cfg(cfg)[0] == "bc" and op["op"] in ("fit", "ft") and not tok.startswith(("E:", "?")):
                try:
                    obj = t
                    while hasattr(obj, "transformer_") and obj.transformer_ is not None:
                        obj = obj.transformer_
                    extras.setdefault("lam", {})[str(i)] = float(obj.lambda_)
                except Exception:
                    pass
    return toks


def _eff_cfg(cfg):
    """the transformer that actually does the work (an OptionalPassthrough(passthrough=False) delegates)"""
    while cfg[0] == "pass" and not cfg[1]:
        cfg = cfg[2]
    return cfg


def _des_cfg(cfg):
    """the (conditional) deseasonalizer whose components are observable through this object, or None"""
    if cfg[0] in ("des", "cdes"):
        return cfg
    if cfg[0] == "pass" and not cfg[1]:
        return _des_cfg(cfg[2])
    return None


def run_real(case):
    extras = {}
    if _has_f32(case):
        extras["f32"] = True       # single-precision inputs: results carry ~1e-7 relative rounding error
    try:
        main = _run_hist(case, 0, extras)
        if case.get("pre"):
            if not main or main[0].startswith(("E:", "?")) or case["ops"][0]["op"] not in ("fit", "ft"):
                return "SKIP-PRE @@ {}"
            extras["fresh"] = " ".join(_run_hist(case, 0, None, with_pre=False, with_other=False))
        if _is_frame_case(case):
            ncol = max(len(o["z"]["cols"]) for o in case["ops"] if isinstance(o["z"], dict) and "cols" in o["z"])
            extras["percol"] = [" ".join(_run_hist(_column_case(case, j), 0, None)) for j in range(ncol)]
        if case.get("pform"):
            extras["plain"] = " ".join(_run_hist(case, 0, None, plain=True))
        if case.get("other"):
            extras["alone"] = " ".join(_run_hist(case, 0, None, with_other=False))
        out = " ".join(main)
        if case.get("shift", 0):
            out += " ## " + " ".join(_run_hist(case, int(case["shift"])))
        return out + " @@ " + json.dumps(extras, sort_keys=True)
    except Exception as e:  # building the object failed
        return "BUILD-" + canon_err(e) + " @@ {}"


# ----------------------------------------------------------------------------- library facts (data for the model)
def _valid_series(inp):
    return _is_series(inp) and len(inp["l"]) > 0 and all(a <= b for a, b in zip(inp["l"], inp["l"][1:]))


def _err_token(e):
    tok = canon_err(e)
    return tok if tok in ("E:value", "E:type", "E:notimpl", "E:notfitted", "E:attr", "E:key") else "E:other"


class _Shadow:
    """Library-side facts, computed without touching the object under test."""

    def __init__(self, cfg):
        self.cfg = cfg
        self.k = cfg[0]
        self.inner = _Shadow(cfg[2]) if self.k == "pass" else None
        self.lam = None
        self.sk = None

    def fit(self, inp, itype):
        """-> (seasonal list|None, isSeasonal 'N'|'T'|'F', fitErr 'ok'|'E:..')"""
        if self.k == "pass":
            return ("none", "N", "ok") if self.cfg[1] else self.inner.fit(inp, itype)
        seas, iss, fe = None, "N", "ok"
        if not _valid_series(inp):
            return seas, iss, fe
        z = _mk_input(inp, itype, 0)
        with warnings.catch_warnings():
            warnings.simplefilter("ignore")
            with np.errstate(all="ignore"):
                if self.k in ("des", "cdes"):
                    from statsmodels.tsa.seasonal import seasonal_decompose
                    try:
                        seas = [float(v) for v in seasonal_decompose(
                            z, model="additive" if self.cfg[2] == "A" else "multiplicative", period=self.cfg[1],
                            filt=None, two_sided=True, extrapolate_trend=0).seasonal.iloc[:self.cfg[1]]]
                    except Exception:
                        seas = None
                    if self.k == "cdes":
                        test = self.cfg[3]
                        try:
                            if test == "default":
                                from sktime.utils.seasonality import autocorrelation_seasonality_test
                                r = autocorrelation_seasonality_test(z, sp=self.cfg[1])
                            elif test == "notcallable":
                                raise ValueError()
                            else:
                                r = _tests()[test](z, sp=self.cfg[1])
                            iss = ("T" if r else "F") if isinstance(r, (bool, np.bool_)) else "N"
                        except Exception:
                            iss = "N"
                elif self.k == "bc":
                    from sktime.transformations.series.boxcox import _boxcox_normmax
                    try:
                        pr = _params(self.cfg)
                        self.lam = _boxcox_normmax(z, bounds=pr["bounds"], method=pr["method"])
                    except Exception as e:
                        fe = _err_token(e)
                elif self.k == "ad":
                    from sklearn.base import clone
                    try:
                        self.sk = clone(_sk(self.cfg[1])).fit(z.to_numpy().reshape(-1, 1))
                    except Exception as e:
                        fe = _err_token(e)
        return seas, iss, fe

    def aux(self, vals, inverse, dt="float64"):
        """(values of the library function on `vals` held in an array of dtype `dt`, dtype of the result) or None"""
        if self.k == "pass":
            return None if self.cfg[1] else self.inner.aux(vals, inverse, dt)
        if len(vals) == 0 or (self.k == "ad" and inverse and not _sk_has_inverse(self.cfg[1])):
            return None          # the code never reaches the library function here
        x = np.array(vals, dtype="float64").astype(dt)

        def pack(r):
            r = np.asarray(r).ravel()
            return [float(v) for v in r], str(r.dtype)

        try:
            with warnings.catch_warnings():
                warnings.simplefilter("ignore")
                with np.errstate(all="ignore"):
                    if self.k == "bc":
                        if self.lam is None:
                            return None
                        from scipy.special import boxcox, inv_boxcox
                        return pack(inv_boxcox(x, self.lam) if inverse else boxcox(x, self.lam))
                    if self.k == "log":
                        return pack(np.exp(x) if inverse else np.log(x))
                    if self.k == "ad":
                        if self.sk is None:
                            return None
                        r = self.sk.inverse_transform(x.reshape(-1, 1)) if inverse else self.sk.transform(x.reshape(-1, 1))
                        return pack(r)
        except Exception:
            return "RAISED"
        return None


def _rat(v):
    if v is None:
        return "nan"
    v = float(v)
    if math.isnan(v) or math.isinf(v):
        return "nan"
    return show_rat(v)


def _rats(vs):
    vs = list(vs)
    return "-" if not vs else ",".join(_rat(v) for v in vs)


def _inp_str(inp):
    if inp == "notseries":
        return "notseries"
    if inp == "fidx":
        return "fidx"
    return "s:%s:%s" % (show_ints(inp["l"]), _rats(inp["v"]))


def _cfg_str(cfg):
    k = cfg[0]
    if k in ("des", "cdes"):
        return "%s:%d:%s" % (k, cfg[1], cfg[2])
    if k == "det":
        return "det:%d" % cfg[1]
    if k in ("bc", "log"):
        return k
    if k == "ad":
        return "ad:%s" % ("T" if _sk_has_inverse(cfg[1]) else "F")
    if k == "hampel":
        return "hampel:%d:%s:%s" % (cfg[1], show_rat(cfg[2]), show_rat(float(cfg[3]))) + (
            ":%s" % ("T" if cfg[4] else "F") if len(cfg) > 4 else "")
    if k == "pass":
        return "pass:%s:%s" % ("T" if cfg[1] else "F", _cfg_str(cfg[2]))
    raise ValueError(cfg)


def _modelled(cfg):
    if cfg[0] == "pass":
        return cfg[2][0] in MODELLED and cfg[2][0] != "pass" and _modelled(cfg[2])
    if cfg[0] == "det" and len(cfg) > 2 and cfg[2] == "noint":
        return False         # with_intercept=False: another embedded regression than the driver's (oracle only)
    return cfg[0] in MODELLED


def _col_kind(cfg):
    if cfg[0] == "pass":
        return None if cfg[1] else _col_kind(cfg[2])
    return cfg[0] if cfg[0] in ("bc", "log", "ad") else None


class _LibraryRaised(Exception):
    pass


def _is_frame_case(case):
    return any(isinstance(o["z"], dict) and "cols" in o["z"] for o in case["ops"])


def _column_case(case, j):
    """the same history on column j alone (a univariate series)"""
    ops = []
    for o in case["ops"]:
        z = o["z"]
        if isinstance(z, dict) and "cols" in z:
            z = {"l": z["l"], "v": z["vv"][j]}
        ops.append(dict(o, z=z))
    return {k: v for k, v in dict(case, ops=ops).items() if k not in ("pre", "other")}


def to_line(case):
    cfg = case["cfg"]
    if not _modelled(cfg) or _is_frame_case(case):
        return None          # the model is univariate: multivariate frames are judged by the oracle (incl. per-column equality)
    itype = case.get("itype", "range")
    det = cfg[0] == "det" or (cfg[0] == "pass" and cfg[2][0] == "det")
    sh = _Shadow(cfg)
    col = _col_kind(cfg)
    toks = []
    fwd = []          # per op: the shadow's own result values (what a later `inv` by reference may receive)

    def table(cands, inverse):
        """`key=value|key=value`: the library function on every input this call may receive"""
        parts, first = [], None
        for vals, dt in cands:
            out = sh.aux(vals, inverse, dt)
            if out == "RAISED":
                raise _LibraryRaised()
            if out is None:
                continue
            if first is None:
                first = out
            part = "%s=%s" % (_rats(vals), _rats(out[0]))
            if part not in parts:
                parts.append(part)
        return ("|".join(parts) if parts else "none"), first

    try:
        for op in case["ops"]:
            inp = op["z"]
            k = op["op"]
            if det and k in ("upd", "fit", "ft") and _is_series(inp) and len(set(inp["l"])) != len(inp["l"]):
                return None      # duplicate labels in a batch fed to the embedded forecaster: combine_first is not modelled there
            cands = []
            if _is_series(inp):
                cands.append(([np.nan if v is None else float(v) for v in inp["v"]], _dt(inp)))
            if k == "inv" and op.get("ref") is not None and op["ref"] < len(fwd) and fwd[op["ref"]] is not None:
                cands.insert(0, fwd[op["ref"]])
            if k in ("fit", "ft"):
                seas, iss, fe = sh.fit(inp, itype)
                seas_s = "none" if seas in (None, "none") else _rats(seas)
            aux_s, first = "none", None
            if k in ("tr", "inv", "ft") and col is not None and cands:
                aux_s, first = table(cands, k == "inv")
            if k == "fit":
                toks.append("fit;%s;%s;%s;%s" % (_inp_str(inp), seas_s, iss, fe))
            elif k == "upd":
                toks.append("upd;%s;%s" % (_inp_str(inp), "D" if op.get("up") is None else ("T" if op["up"] else "F")))
            elif k == "tr":
                toks.append("tr;%s;%s" % (_inp_str(inp), aux_s))
            elif k == "inv":
                toks.append("inv;%s;%s;%s" % (_inp_str(inp), "-" if op.get("ref") is None else str(op["ref"]), aux_s))
            elif k == "ft":
                toks.append("ft;%s;%s;%s;%s;%s" % (_inp_str(inp), seas_s, iss, fe, aux_s))
            # the value a later `inv` by reference receives if this call returns a series: the library
            # function on this call's own (first candidate) input
            fwd.append(first if (k in ("tr", "ft", "inv") and col is not None) else None)
    except _LibraryRaised:
        return None              # the library function itself raised on this input (e.g. sklearn rejects NaN): not modelled
    return "C13 hist %s %d %s" % (_cfg_str(cfg), int(case.get("shift", 0)), " ".join(toks))


# ----------------------------------------------------------------------------- comparison
def _split_out(out):
    body, _, extras = out.partition(" @@ ")
    main, _, shifted = body.partition(" ## ")
    return main.split(" ") if main else [], (shifted.split(" ") if shifted else None), extras


def _parse_tok(tok):
    """-> ('ok',) | ('err', kind) | ('ser', labels, values) | ('odd', tok);  values: float|None (non-finite)"""
    if tok == "ok":
        return ("ok",)
    if tok.startswith("E:"):
        return ("err", "E:other" if tok.startswith("E:other") else tok)
    if tok.startswith("F;"):
        parts = tok.split(";")
        labels = [] if parts[1] == "-" else [int(x) for x in parts[1].split(",")]
        cols = [[] if c == "-" else [None if x == "nan" else x for x in c.split(",")] for c in parts[3:]]
        return ("frame", labels, cols, parts[2].split("~"))
    if tok.startswith("?") or ":" not in tok:
        return ("odd", tok)
    ls, vs = tok.split(":")
    labels = [] if ls == "-" else [int(x) for x in ls.split(",")]
    values = [] if vs == "-" else [None if x == "nan" else x for x in vs.split(",")]
    return ("ser", labels, values)


def _num(x):
    """token -> float (real side: repr float; model side: n/d)"""
    if x is None:
        return None
    if "/" in x:
        return float(parse_rat(x))
    return float(x)


def _vals_close(xs, ys, tol):
    if len(xs) != len(ys):
        return False
    for a, b in zip(xs, ys):
        if (a is None) != (b is None):
            return False
        if a is not None and abs(_num(a) - _num(b)) > tol * max(1.0, abs(_num(b))):
            return False
    return True


def _tok_close(rt, mt, tol=1e-9):
    r, m = _parse_tok(rt), _parse_tok(mt)
    if r[0] != m[0]:
        return False
    if r[0] == "frame":
        return r[1] == m[1] and r[3] == m[3] and len(r[2]) == len(m[2]) and all(_vals_close(a, b, tol) for a, b in zip(r[2], m[2]))
    if r[0] == "ser":
        if r[1] != m[1] or len(r[2]) != len(m[2]):
            return False
        for a, b in zip(r[2], m[2]):
            if (a is None) != (b is None):
                return False
            if a is not None:
                fa, fb = _num(a), _num(b)
                if abs(fa - fb) > tol * max(1.0, abs(fb)):
                    return False
        return True
    return r == m


def compare(real_out, model_out):
    if real_out.startswith("SKIP-PRE"):
        return True
    rm, rs, ex = _split_out(real_out)
    mm, ms, _ = _split_out(model_out)
    tol = 2e-6 if '"f32": true' in ex else 1e-9       # single-precision inputs
    if len(rm) != len(mm) or (rs is None) != (ms is None):
        return False
    if not all(_tok_close(a, b, tol) for a, b in zip(rm, mm)):
        return False
    if rs is not None:
        if len(rs) != len(ms) or not all(_tok_close(a, b, tol) for a, b in zip(rs, ms)):
            return False
    return True


# ----------------------------------------------------------------------------- oracle (the property text)
RT_TOL = 1e-7      # "up to floating-point error"
PH_TOL = 1e-7


def _vals_of(inp):
    return [None if v is None else float(v) for v in inp["v"]]


def _oracle_frames(case, site, main, shifted, extras):
    """multivariate input (a DataFrame with columns in a non-sorted order): the clauses per column"""
    fails = []

    def add(key, msg):
        if not any(k == key for k, _ in fails):
            fails.append((key, msg))

    cfg, ops = case["cfg"], case["ops"]
    P = [_parse_tok(t) for t in main]
    tol = RT_TOL
    ins = []
    for i, op in enumerate(ops):
        z = op["z"]
        if op["op"] == "inv" and op.get("ref") is not None and op["ref"] < i and P[op["ref"]][0] == "frame":
            ins.append((P[op["ref"]][1], [[_num(v) for v in c] for c in P[op["ref"]][2]]))
        elif isinstance(z, dict) and "cols" in z:
            ins.append((list(z["l"]), [[None if v is None else float(v) for v in c] for c in z["vv"]]))
        else:
            ins.append(None)
    percol = [pc.split(" ") for pc in extras.get("percol", [])]
    for i, op in enumerate(ops):
        if P[i][0] != "frame" or ins[i] is None:
            if P[i][0] == "err" and ins[i] is not None and percol and all(len(pc) == len(main) and _parse_tok(pc[i])[0] == "ser" for pc in percol):
                add(site + ":multivariate-differs-from-per-column", "op %d (%s): the frame is rejected (%s) but every column alone is accepted" % (i, op["op"], main[i]))
            continue
        labels, cols = P[i][1], P[i][2]
        # index: exactly the input's time index
        if op["op"] in ("tr", "ft") and cfg[0] in TAGGED_SAME_INDEX and labels != ins[i][0]:
            add(site + ".transform:index-changed", "op %d: input index %r, output index %r" % (i, ins[i][0], labels))
        # every column is transformed like the same column alone
        if percol and len(cols) == len(percol):
            for j, pc in enumerate(percol):
                u = _parse_tok(pc[i]) if len(pc) == len(main) else ("odd",)
                if u[0] != "ser" or u[1] != labels or not _vals_close(cols[j], u[2], 1e-9):
                    add(site + ":multivariate-differs-from-per-column",
                        "op %d (%s) column #%d (%r of %r): in the frame -> %s ; the column alone -> %s"
                        % (i, op["op"], j, P[i][3][j] if j < len(P[i][3]) else "?", case["ops"][0]["z"].get("cols"), ",".join(map(str, cols[j]))[:120], pc[i][:120] if len(pc) == len(main) else "?"))
                    break
        # round trip per column
        if op["op"] == "inv" and op.get("ref") is not None:
            k = op["ref"]
            if k < i and ops[k]["op"] in ("tr", "ft") and P[k][0] == "frame" and ins[k] is not None \
                    and not any(o["op"] in ("fit", "upd", "ft") for o in ops[k + 1:i]):
                zl, zc = ins[k]
                if labels != zl or len(cols) != len(zc):
                    add(site + ".inverse_transform:roundtrip-index", "ops %d,%d: z index %r / %d columns, inverse(transform(z)) index %r / %d columns" % (k, i, zl, len(zc), labels, len(cols)))
                else:
                    for j in range(len(zc)):
                        for l, x, tv, bv in zip(zl, zc[j], P[k][2][j], cols[j]):
                            if x is None or tv is None:
                                continue
                            if bv is None or abs(_num(bv) - x) > tol * max(1.0, abs(x)):
                                add(site + ".inverse_transform:roundtrip-values",
                                    "ops %d,%d column #%d label %d: z=%r transform=%s inverse(transform)=%s" % (k, i, j, l, x, tv, bv))
                                break
    # shifting the integer time index
    if shifted is not None and len(shifted) == len(main):
        c = int(case["shift"])
        for i, (a, b) in enumerate(zip(main, shifted)):
            pa = _parse_tok(a)
            if pa[0] == "frame":
                parts = a.split(";")
                parts[1] = show_ints([l + c for l in pa[1]])
                exp = ";".join(parts)
            elif pa[0] == "ser":
                exp = show_ints([l + c for l in pa[1]]) + ":" + a.split(":")[1]
            else:
                exp = a
            if not _tok_close(b, exp, 1e-9):
                add(site + ":shift-changes-result", "op %d (%s): %s vs shifted by %d: %s" % (i, ops[i]["op"], a[:160], c, b[:160]))
                break
    return fails


def oracle(case, out):
    fails = []
    cfg = case["cfg"]
    site = _site(cfg)
    main, shifted, extras = _split_out(out)
    if out.startswith(("BUILD-", "SKIP-PRE")):
        return fails
    ops = case["ops"]
    if len(main) != len(ops):
        return [(site + ":harness-output-length", "got %d tokens for %d ops" % (len(main), len(ops)))]
    extras = json.loads(extras or "{}")
    if _is_frame_case(case):
        return _oracle_frames(case, site, main, shifted, extras)
    rt_tol = 1e-5 if extras.get("f32") else RT_TOL      # single-precision inputs: float32 rounding
    ph_tol = 1e-5 if extras.get("f32") else PH_TOL
    P = [_parse_tok(t) for t in main]

    def add(key, msg):
        if not any(k == key for k, _ in fails):
            fails.append((key, msg))

    # the input series (labels, values) each op actually received
    ins = []
    for i, op in enumerate(ops):
        if op["op"] == "inv" and op.get("ref") is not None and op["ref"] < i and P[op["ref"]][0] == "ser":
            ins.append((P[op["ref"]][1], [_num(v) for v in P[op["ref"]][2]]))
        elif _is_series(op["z"]):
            ins.append((list(op["z"]["l"]), _vals_of(op["z"])))
        else:
            ins.append(None)

    # (1) tagged transformers return exactly the input's index
    if cfg[0] in TAGGED_SAME_INDEX:
        for i, op in enumerate(ops):
            if op["op"] in ("tr", "ft") and P[i][0] == "ser" and ins[i] is not None and P[i][1] != ins[i][0]:
                add(site + ".transform:index-changed", "op %d: input index %r, output index %r" % (i, ins[i][0], P[i][1]))
            if op["op"] in ("tr", "ft") and P[i][0] == "odd":
                add(site + ".transform:not-a-series", "op %d returned %s" % (i, main[i]))

    eff = _eff_cfg(cfg)[0]

    def quiet_updates(k, i):
        """ops strictly between k and i: -> None if something re-estimates (fit, fit_transform, an update that refits or
        raised), else (number of successful NON-re-estimating updates, does one of their batches start before
        every time point the object had seen so far)"""
        start = None
        for j in range(k, -1, -1):        # the series the object was last fitted on
            if ops[j]["op"] in ("fit", "ft") and P[j][0] in ("ok", "ser") and ins[j] is not None and ins[j][0]:
                start = min(ins[j][0])
                break
        n_upd, earlier = 0, False
        for j in range(0, i):
            o = ops[j]
            if j > k and o["op"] in ("fit", "ft"):
                return None
            if o["op"] != "upd":
                continue
            okj = P[j][0] == "ok" and ins[j] is not None
            if j > k:
                if not okj:
                    return None
                if eff in ("des", "cdes"):
                    pass                   # the seasonal component is never re-estimated by update
                elif eff == "det" and o.get("up") is False:
                    pass                   # update_params=False: the trend model is not re-fitted
                else:
                    return None
                n_upd += 1
                if ins[j][0] and start is not None and min(ins[j][0]) < start:
                    earlier = True
            if okj and ins[j][0] and start is not None:
                start = min(start, min(ins[j][0]))
        return n_upd, earlier

    # (2) inverse_transform(transform(z)) == z wherever transform(z) is finite, same index;
    #     (2b) also ACROSS intervening updates that re-estimate nothing
    for i, op in enumerate(ops):
        if op["op"] != "inv" or op.get("ref") is None or P[i][0] != "ser":
            continue
        k = op["ref"]
        if not (k < i and ops[k]["op"] in ("tr", "ft") and P[k][0] == "ser" and ins[k] is not None):
            continue
        qu = quiet_updates(k, i)
        if qu is None:
            continue
        rt_key = ".inverse_transform:roundtrip-values" if qu[0] == 0 else (
            ".inverse_transform:roundtrip-across-update" + (":earlier-batch" if qu[1] else ""))
        zl, zv = ins[k]
        lam = None
        if _eff_cfg(cfg)[0] == "bc":
            for j in range(k, -1, -1):
                if str(j) in extras.get("lam", {}):
                    lam = extras["lam"][str(j)]
                    break
        if P[i][1] != zl:
            add(site + ".inverse_transform:roundtrip-index", "ops %d,%d: z index %r, inverse(transform(z)) index %r" % (k, i, zl, P[i][1]))
            continue
        for j, (x, tv, bv) in enumerate(zip(zv, P[k][2], P[i][2])):
            if tv is None or x is None:
                continue
            b = _num(bv)
            tol = rt_tol
            if lam is not None and lam != 0.0:
                # rounding-error bound of evaluating (lam*y + 1)**(1/lam) in double precision: the relative
                # error eps*(1+|lam*y|)/|lam*y+1| of the base is amplified by the exponent 1/|lam|
                y = _num(tv)
                base = lam * y + 1.0
                if base == 0.0:
                    continue
                tol += 64 * 2.0 ** -52 * (1.0 + abs(lam * y)) / (abs(lam) * abs(base))
            if b is None or abs(b - x) > tol * max(1.0, abs(x)):
                add(site + rt_key,
                    "ops %d,%d label %d: z=%r transform=%s inverse(transform)=%s%s" % (
                        k, i, zl[j], x, tv, bv, "" if qu[0] == 0 else " (with %d update(s) that re-estimate nothing in between)" % qu[0]))
                break

    # (2c) an update that re-estimates nothing changes no transform of already known time points: two transform
    #      calls separated only by such updates agree wherever they receive the same value at the same label
    tr_idx = [i for i, o in enumerate(ops) if o["op"] == "tr" and P[i][0] == "ser" and ins[i] is not None
              and P[i][1] == ins[i][0] and len(set(ins[i][0])) == len(ins[i][0])]
    for a_i, k in enumerate(tr_idx):
        for i in tr_idx[a_i + 1:]:
            qu = quiet_updates(k, i)
            if qu is None:
                break
            if qu[0] == 0:
                continue
            first = {l: (x, y) for l, x, y in zip(ins[k][0], ins[k][1], P[k][2])}
            bad = None
            for l, x, y in zip(ins[i][0], ins[i][1], P[i][2]):
                if l in first and first[l][0] == x and x is not None:
                    y0, y1 = first[l][1], y
                    if (y0 is None) != (y1 is None) or (y0 is not None and abs(_num(y0) - _num(y1)) > rt_tol * max(1.0, abs(_num(y0)))):
                        bad = (l, x, y0, y1)
                        break
            if bad:
                add(site + ".update:changes-transform-without-reestimating" + (":earlier-batch" if qu[1] else ""),
                    "ops %d,%d: transform of value %r at label %d was %s, after %d update(s) that re-estimate nothing it is %s"
                    % (k, i, bad[1], bad[0], bad[2], qu[0], bad[3]))
                break

    # (3) deseasonalizer: the component removed/restored at a time point depends only on its
    #     position modulo the period relative to the training series, whatever the start of the
    #     stretch and whatever updates happened in between
    dc = _des_cfg(cfg)
    if dc is not None:
        sp, mult = dc[1], dc[2] == "M"
        t0, ref, upd_starts, failed_fit_starts = None, {}, [], []

        def comps(labels, vin, vout, inverse):
            res = []
            for l, a, b in zip(labels, vin, vout):
                if a is None or b is None:
                    continue
                b = _num(b) if isinstance(b, str) else b
                if b is None:
                    continue
                if not mult:
                    res.append((l, (b - a) if inverse else (a - b)))
                else:
                    num, den = (b, a) if inverse else (a, b)
                    if den != 0 and num != 0:
                        res.append((l, num / den))
            return res

        for i, op in enumerate(ops):
            k = op["op"]
            ok = P[i][0] in ("ok", "ser")
            if k in ("fit", "ft"):
                if ok and ins[i] is not None:
                    t0, ref, upd_starts, failed_fit_starts = ins[i][0][0], {}, [], []
                    rt = _parse_tok(extras.get("ref", {}).get(str(i), "E:none"))
                    if rt[0] == "ser" and _contig(ins[i][0]):
                        for l, c in comps(ins[i][0], ins[i][1], rt[2], False):
                            ref.setdefault((l - t0) % sp, c)
                elif (not ok) and ins[i] is not None and len(ins[i][0]) > 0 and t0 is not None:
                    failed_fit_starts.append(ins[i][0][0])
                if k == "fit":
                    continue
            if k == "upd":
                if ok and ins[i] is not None and len(ins[i][0]) > 0:
                    upd_starts.append(ins[i][0][0])
                continue
            if t0 is None or P[i][0] != "ser" or ins[i] is None or not _contig(ins[i][0]) or P[i][1] != ins[i][0]:
                continue
            for l, c in comps(ins[i][0], ins[i][1], P[i][2], k == "inv"):
                p = (l - t0) % sp
                if p not in ref:
                    ref[p] = c
                    continue
                if abs(c - ref[p]) > ph_tol * max(1.0, abs(ref[p])):
                    msg = ("op %d (%s): component at label %d (phase %d relative to training start %d) is %r, "
                           "but %r was removed at that phase from the training series" % (i, k, l, p, t0, c, ref[p]))
                    if any((u - t0) % sp != 0 for u in upd_starts):
                        add(site + ".update:phase-reference-moved", msg + "; update batches started at %r" % upd_starts)
                    elif any((u - t0) % sp != 0 for u in failed_fit_starts):
                        add(site + ".fit:failed-fit-moved-phase-reference", msg + "; failed fit on series starting at %r" % failed_fit_starts)
                    elif upd_starts:
                        add(site + ".update:phase-mismatch-after-aligned-update", msg)
                    else:
                        add(site + ":phase-mismatch", msg)
                    break

    # (4) fit_transform == fit followed by transform
    for i, op in enumerate(ops):
        if op["op"] == "ft" and str(i) in extras.get("ftref", {}):
            if not _tok_close(main[i], extras["ftref"][str(i)], 1e-12):
                add(site + ".fit_transform:differs-from-fit-then-transform",
                    "op %d: fit_transform -> %s ; fit().transform() -> %s" % (i, main[i][:200], extras["ftref"][str(i)][:200]))

    # (6) object history: after set_params + fit the object behaves like a freshly constructed one
    if case.get("pre") and "fresh" in extras:
        fresh = extras["fresh"].split(" ")
        if len(fresh) == len(main):
            for i, (a, b) in enumerate(zip(main, fresh)):
                if not _tok_close(a, b, 1e-12):
                    add(site + ":refit-remembers-history",
                        "op %d (%s): object first used as %r then set_params+fit -> %s ; fresh object -> %s"
                        % (i, ops[i]["op"], case["pre"]["cfg"], a[:160], b[:160]))
                    break

    # (8) equal-valued parameters (np.bool_ / 0-1, numpy integers, np.str_ ...) give equal results
    if case.get("pform") and "plain" in extras:
        plain = extras["plain"].split(" ")
        if len(plain) == len(main):
            for i, (a, b) in enumerate(zip(main, plain)):
                if not _tok_close(a, b, 1e-12):
                    add(site + ":equal-valued-parameter-treated-differently",
                        "op %d (%s): parameters %r in their %s forms -> %s ; builtin values -> %s"
                        % (i, ops[i]["op"], {k: repr(v) for k, v in _params(cfg, case["pform"]).items() if not hasattr(v, "get_params")},
                           case["pform"], a[:140], b[:140]))
                    break

    # (7) a second object of the same class, used in between, does not influence this one
    if case.get("other") and "alone" in extras:
        alone = extras["alone"].split(" ")
        if len(alone) == len(main):
            for i, (a, b) in enumerate(zip(main, alone)):
                if not _tok_close(a, b, 1e-12):
                    add(site + ":other-object-interferes",
                        "op %d (%s): with another %s object (%r) used in between -> %s ; alone -> %s"
                        % (i, ops[i]["op"], SITE.get(case["other"]["cfg"][0], "OptionalPassthrough"), case["other"]["cfg"], a[:150], b[:150]))
                    break

    # (5) shifting the integer index of all inputs shifts the output index, values unchanged
    if shifted is not None:
        c = int(case["shift"])
        time_indexed = cfg[0] not in ("acf", "pacf")
        if len(shifted) != len(main):
            add(site + ":harness-output-length", "shifted run length")
        else:
            for i, (a, b) in enumerate(zip(main, shifted)):
                pa = _parse_tok(a)
                if pa[0] == "ser":
                    exp = show_ints([l + (c if time_indexed else 0) for l in pa[1]]) + ":" + a.split(":")[1]
                else:
                    exp = a
                if not _tok_close(b, exp, 1e-9):
                    if _eff_cfg(cfg)[0] == "hampel":
                        kind = "label-lookup-keyerror" if ("E:key" in (a, b)) else "shift-changes-values"
                        add("HampelFilter:" + kind, "op %d: index origin matters: %s vs shifted by %d: %s" % (i, a[:160], c, b[:160]))
                    else:
                        add(site + ":shift-changes-result", "op %d (%s): %s vs shifted by %d: %s" % (i, ops[i]["op"], a[:160], c, b[:160]))
                    break
    return fails


# ----------------------------------------------------------------------------- evidence helpers
def nontrivial(case, out):
    if out.startswith(("SKIP-PRE", "BUILD-")):
        return False
    main, _, _ = _split_out(out)
    return any(_parse_tok(t)[0] in ("ser", "frame") and len(_parse_tok(t)[1]) > 0 for t in main)


def _cfg_tag(cfg):
    if cfg[0] == "pass":
        return "pass(%s,%s)" % (cfg[2][0], "T" if cfg[1] else "F")
    return ":".join(str(x) for x in cfg[:3])


def features(case, out):
    cfg = case["cfg"]
    f = ["cfg=" + (cfg[0] if cfg[0] != "pass" else "pass(%s,%s)" % (cfg[2][0], "T" if cfg[1] else "F"))]
    main, shifted, _ = _split_out(out)
    if out.startswith(("SKIP-PRE", "BUILD-")):
        main = []
    f.append("ops=%d" % min(len(case["ops"]), 8))
    f.append("shift=" + ("0" if not case.get("shift") else "nonzero"))
    if case.get("pform"):
        f.append("param-form=" + case["pform"])
        f.append("param-form:" + cfg[0] + ("(%s)" % ("T" if cfg[1] else "F") if cfg[0] == "pass" else ""))
    if case.get("other"):
        f.append("second-object")
        f.append("second-object:" + cfg[0] + ("(same-params)" if case["other"]["cfg"] == cfg else ""))
    if case.get("pre"):
        f.append("object-history" + (":skipped" if out.startswith("SKIP-PRE") else ""))
        f.append("history:" + (cfg[0] if cfg[0] != "pass" else "pass(%s->%s)" % ("T" if case["pre"]["cfg"][1] else "F", "T" if cfg[1] else "F")))
    if any(o["op"] == "upd" for o in case["ops"]):
        f.append("with-update")
    ec = cfg[2] if cfg[0] == "pass" else cfg
    if ec[0] == "hampel" and len(ec) > 4:
        f.append("hampel:return_bool=%s" % bool(ec[4]))
    if (ec[0] in ("imputer", "pacf") and len(ec) > 2) or (ec[0] == "acf" and len(ec) > 2 and (ec[2] or ec[3])) or \
            (ec[0] == "imputer" and ec[1] in ("random", "forecaster")) or (ec[0] == "det" and ec[-1] == "noint") or \
            (ec[0] == "ad" and ec[1] in ("minmax11", "standard_nomean", "robust_wide")) or (ec[0] == "hampel" and len(ec) > 4 and ec[4]):
        f.append("non-default-option:" + ec[0])
    for t in main:
        p = _parse_tok(t)
        if p[0] == "err":
            f.append("err=" + p[1])
    dc = _des_cfg(cfg)
    if dc is not None:
        t0 = None
        for o in case["ops"]:
            if o["op"] in ("fit", "ft") and _is_series(o["z"]) and o["z"]["l"]:
                t0 = o["z"]["l"][0]
            elif o["op"] in ("tr", "inv") and t0 is not None and _is_series(o["z"]) and o["z"]["l"] and o.get("ref") is None:
                f.append("sp=%d,offset=%d" % (dc[1], (o["z"]["l"][0] - t0) % dc[1]))
                if o["z"]["l"][0] < t0:
                    f.append("stretch-before-training")
    if case.get("itype") == "int64":
        f.append("int64index")
    if case.get("itype") in ("dth", "dtd", "per"):
        f.append("time-index=" + case["itype"])
    if _is_frame_case(case):
        f.append("multivariate:" + cfg[0])
    for o in case["ops"]:
        if isinstance(o["z"], dict) and o["z"].get("dt"):
            f.append("dtype=" + _dt(o["z"]) + ("(train)" if o["op"] in ("fit", "ft") else ""))
    return sorted(set(f))


def is_exhaustive(tier):
    return False


# ----------------------------------------------------------------------------- generators
def _dy(rng, lo=1, hi=40, den=4):
    return rng.randrange(lo * den, hi * den + 1) / den


def _series(rng, start, n, positive=True, nan_p=0.0):
    vals = []
    for _ in range(n):
        v = _dy(rng) if positive else rng.randrange(-160, 161) / 4
        vals.append(None if rng.random() < nan_p else v)
    return {"l": list(range(start, start + n)), "v": vals}


DTYPES = ["float64"] * 6 + ["int64"] * 2 + ["int32", "float32"]


def _as_dtype(rng, z, dt=None):
    """give a generated series a dtype; integer dtypes get integer-valued, NaN-free data"""
    dt = dt or rng.choice(DTYPES)
    if not isinstance(z, dict) or dt == "float64":
        return z
    z = dict(z)
    if dt.startswith("int"):
        z["v"] = [float(round(v)) if v is not None else float(rng.randrange(1, 40)) for v in z["v"]]
        z["v"] = [v if v != 0 or rng.random() < 0.5 else 1.0 for v in z["v"]]
    z["dt"] = dt
    return z


def _vary_dtypes(rng, case, p=0.45):
    """training series and later stretches get independent dtypes (e.g. a float stretch after an
    integer training series)"""
    if rng.random() >= p:
        return case
    for o in case["ops"]:
        if isinstance(o["z"], dict) and rng.random() < 0.7:
            o["z"] = _as_dtype(rng, o["z"])
    return case


def _seasonal_series(rng, start, n, sp, positive=True):
    base = [_dy(rng, 1, 12) for _ in range(sp)]
    return {"l": list(range(start, start + n)),
            "v": [base[i % sp] + rng.randrange(0, 9) / 8 + (i // sp) * rng.choice([0, 0.25]) + (0 if positive else -4) for i in range(n)]}


def _gen_des(tier, rng, cases):
    """every start offset mod sp (incl. before the training start), origins != 0, with/without updates"""
    combos = []
    for sp in (1, 2, 3, 4, 5):
        for m in ("A", "M"):
            for t0 in (-7, 0, 5):
                for extra in (0, 1, sp + 1):
                    combos.append((sp, m, t0, extra))
    for ci, (sp, m, t0, extra) in enumerate(combos):
        if tier == "quick" and (ci + rng.randrange(1 << 20)) % 3 != 0:
            continue
        n = 2 * sp + extra
        z1 = _seasonal_series(rng, t0, n, sp)
        offsets = list(range(-sp - 1, 2 * sp + 2))
        for off in offsets:
            ln = rng.randrange(1, sp + 3)
            z2 = _series(rng, t0 + off, ln)
            # without update
            ops = [{"op": "fit", "z": z1}, {"op": "tr", "z": z1}, {"op": "inv", "z": z1, "ref": 1},
                   {"op": "tr", "z": z2}, {"op": "inv", "z": z2, "ref": 3}, {"op": "inv", "z": z2}]
            cases.append({"cfg": ["des", sp, m], "itype": rng.choice(["range", "int64"]), "shift": rng.choice([0, 0, -3, 11]), "ops": ops})
            # with an update whose batch starts at a multiple of sp after the training start (phase-neutral)
            if tier == "thorough" or rng.random() < 0.5:
                ub = _series(rng, t0 + sp * rng.randrange(1, 4), rng.randrange(1, 4))
                ops = [{"op": "fit", "z": z1}, {"op": "tr", "z": z2}, {"op": "upd", "z": ub, "up": rng.choice([None, True, False])},
                       {"op": "tr", "z": z2}, {"op": "inv", "z": z2, "ref": 3}, {"op": "inv", "z": z2, "ref": 1}]
                cases.append({"cfg": ["des", sp, m], "itype": "range", "shift": rng.choice([0, 4]), "ops": ops})
            # with an update at an arbitrary start (the defect fixed by 1ad9b8f showed when it is not a multiple of sp)
            if tier == "thorough" or rng.random() < 0.5:
                ub = _series(rng, t0 + n + rng.randrange(0, sp + 1), rng.randrange(1, 4))
                ops = [{"op": "fit", "z": z1}, {"op": "upd", "z": ub, "up": None},
                       {"op": "tr", "z": z2}, {"op": "inv", "z": z2, "ref": 2}]
                cases.append({"cfg": ["des", sp, m], "itype": "range", "shift": 0, "ops": ops})


def _gen_cdes(tier, rng, cases):
    tests = ["true", "false", "default", "nonbool", "notcallable", "npfalse"]
    for sp in (1, 2, 3, 4):
        for m in ("A", "M"):
            for test in tests:
                reps = 2 if tier == "quick" else 25
                for _ in range(reps):
                    t0 = rng.choice([-4, 0, 3, 9])
                    n = rng.choice([2 * sp, 3 * sp, 3 * sp + 1, 4 * sp + 2])
                    z1 = _seasonal_series(rng, t0, n, sp)
                    z2 = _series(rng, t0 + rng.randrange(-sp, 3 * sp + 1), rng.randrange(1, sp + 3))
                    ops = [{"op": "ft", "z": z1}, {"op": "tr", "z": z2}, {"op": "inv", "z": z2, "ref": 1}]
                    if rng.random() < 0.4:
                        ops.insert(1, {"op": "upd", "z": _series(rng, t0 + sp * rng.randrange(0, 4), 2), "up": None})
                        ops[-1]["ref"] = 2
                    cases.append({"cfg": ["cdes", sp, m, test], "itype": rng.choice(["range", "int64"]),
                                  "shift": rng.choice([0, 0, 5, -2]), "ops": ops})


def _gen_det(tier, rng, cases):
    reps = 300 if tier == "quick" else 2500
    for r in range(reps):
        deg = rng.choice([0, 1, 1])
        cfg = ["det", deg] if not (deg == 1 and rng.random() < 0.3) else ["det", 1, "default"]
        if r % 10 == 9:
            cfg = ["det", rng.choice([1, 1, 2]), "noint"]       # the trend forecaster's other option: with_intercept=False
        t0 = rng.choice([-6, 0, 3, 10])
        n = rng.choice([1, 2, 3, 5, 8, 12])
        z1 = _series(rng, t0, n, positive=False)
        ops = [{"op": "fit", "z": z1}]
        if rng.random() < 0.7:
            ops += [{"op": "tr", "z": z1}, {"op": "inv", "z": z1, "ref": 1}]
        # updates: next batch / overlapping / gap / earlier, before or after a horizon was ever set
        nupd = rng.choice([0, 1, 1, 2])
        end = t0 + n
        for _ in range(nupd):
            kind = rng.choice(["next", "next", "overlap", "gap", "earlier", "empty"])
            ln = rng.randrange(1, 4)
            if kind == "next":
                ub = _series(rng, end, ln, positive=False, nan_p=0.05)
                end += ln
            elif kind == "overlap":
                ub = _series(rng, end - rng.randrange(1, min(3, n) + 1), ln + 1, positive=False, nan_p=0.1)
                end = max(end, ub["l"][-1] + 1)
            elif kind == "gap":
                ub = _series(rng, end + rng.randrange(1, 3), ln, positive=False)
            elif kind == "earlier":
                ub = _series(rng, t0 - rng.randrange(1, 4), ln, positive=False)
            else:
                ub = {"l": [], "v": []}
            ops.append({"op": "upd", "z": ub, "up": rng.choice([None, None, True, False])})
            if rng.random() < 0.5:
                zz = _series(rng, t0 + rng.randrange(-3, n + 4), rng.randrange(1, 5), positive=False, nan_p=0.05)
                ops.append({"op": "tr", "z": zz})
                ops.append({"op": "inv", "z": zz, "ref": len(ops) - 1})
        # later / overlapping / earlier stretches
        for _ in range(rng.randrange(1, 3)):
            zz = _series(rng, t0 + rng.randrange(-4, n + 6), rng.randrange(1, 6), positive=False, nan_p=0.05)
            ops.append({"op": "tr", "z": zz})
            ops.append({"op": "inv", "z": zz, "ref": len(ops) - 1})
        if rng.random() < 0.3:
            ops.append({"op": "ft", "z": _series(rng, rng.randrange(-3, 8), rng.randrange(2, 7), positive=False)})
        cases.append({"cfg": cfg, "itype": rng.choice(["range", "int64"]), "shift": rng.choice([0, 0, 7, -5]), "ops": ops})
        # transform | update(s) that re-estimate nothing | inverse of the earlier result, transform again
        if r % 2 == 0:
            zz = _series(rng, t0 + rng.randrange(-3, n + 4), rng.randrange(1, 6), positive=False)
            ops = [{"op": "fit", "z": z1}, {"op": "tr", "z": zz}]
            end = t0 + n
            for _ in range(rng.randrange(1, 3)):
                kind = rng.choice(["next", "next", "overlap", "later", "empty", "earlier"])
                ln = rng.randrange(1, 4)
                if kind == "next":
                    ub = _series(rng, end, ln, positive=False)
                    end += ln
                elif kind == "earlier":
                    ub = _series(rng, t0 - rng.randrange(1, 5), ln, positive=False)
                elif kind == "overlap":
                    ub = _series(rng, end - rng.randrange(1, min(3, n) + 1), ln + 1, positive=False)
                    end = max(end, ub["l"][-1] + 1)
                elif kind == "later":
                    ub = _series(rng, end + rng.randrange(1, 3), ln, positive=False)
                    end = ub["l"][-1] + 1
                else:
                    ub = {"l": [], "v": []}
                ops.append({"op": "upd", "z": ub, "up": False})
            ops += [{"op": "inv", "z": zz, "ref": 1}, {"op": "tr", "z": zz}, {"op": "tr", "z": z1}]
            cases.append({"cfg": cfg, "itype": rng.choice(["range", "int64"]), "shift": rng.choice([0, 0, 3]), "ops": ops})


def _gen_col(tier, rng, cases):
    reps = 25 if tier == "quick" else 300
    for cfg in (["bc"], ["bc", [0, 1], "mle"], ["bc", None, "pearsonr"], ["bc", [-1, 2], "pearsonr"], ["log"], ["ad", "minmax"], ["ad", "standard"], ["ad", "robust"], ["ad", "binarizer"], ["ad", "log1p"],
                ["ad", "minmax11"], ["ad", "standard_nomean"], ["ad", "robust_wide"]):
        for r in range(reps):
            t0 = rng.choice([-5, 0, 4, 20])
            n = rng.randrange(3, 12)
            z1 = _series(rng, t0, n)
            z2 = _series(rng, t0 + rng.randrange(-3, n + 5), rng.randrange(1, 6))
            if rng.random() < 0.25:   # non-positive entries: log / boxcox are not finite there
                z2["v"][rng.randrange(len(z2["v"]))] = rng.choice([0.0, -1.5])
            if rng.random() < 0.5:
                ops = [{"op": "fit", "z": z1}, {"op": "tr", "z": z1}, {"op": "inv", "z": z1, "ref": 1},
                       {"op": "tr", "z": z2}, {"op": "inv", "z": z2, "ref": 3}]
            else:
                ops = [{"op": "ft", "z": z1}, {"op": "inv", "z": z1, "ref": 0}, {"op": "tr", "z": z2}, {"op": "inv", "z": z2, "ref": 2}]
            if rng.random() < 0.15:
                ops.append({"op": "upd", "z": z2, "up": None})
            cases.append({"cfg": cfg, "itype": rng.choice(["range", "int64"]), "shift": rng.choice([0, 3, -8]), "ops": ops})


def _gen_counts(tier, rng, cases):
    """count data: integer-dtype training series (values up to 1000), an overlapping integer stretch and a
    later REAL-valued stretch on the same scale (smoothed values), for every invertible transformer"""
    reps = 6 if tier == "quick" else 60
    cfgs = [["ad", "standard"], ["ad", "minmax"], ["ad", "robust"], ["ad", "log1p"], ["bc"], ["log"],
            ["det", 1], ["des", 3, "A"], ["des", 2, "M"], ["pass", False, ["ad", "standard"]]]
    for cfg in cfgs:
        for _ in range(reps):
            t0 = rng.choice([0, 10, -4])
            n = rng.randrange(12, 60)
            dt = rng.choice(["int64", "int64", "int32"])
            vals = [float(rng.randrange(1, 1000)) for _ in range(n)]
            z1 = {"l": list(range(t0, t0 + n)), "v": vals, "dt": dt}
            k = rng.randrange(2, n)
            over = {"l": z1["l"][n - k:], "v": vals[n - k:], "dt": rng.choice([dt, "float64"])}
            sm = [(vals[max(i - 1, 0)] + vals[i] + vals[min(i + 1, n - 1)]) / 4 for i in range(n - k, n)]   # dyadic, real-valued
            smooth = {"l": [l + rng.choice([0, k]) for l in over["l"]], "v": sm, "dt": rng.choice(["float64", "float64", "float32"])}
            ops = [{"op": "fit", "z": z1}, {"op": "tr", "z": z1}, {"op": "inv", "z": z1, "ref": 1},
                   {"op": "tr", "z": over}, {"op": "inv", "z": over, "ref": 3},
                   {"op": "tr", "z": smooth}, {"op": "inv", "z": smooth, "ref": 5}]
            if rng.random() < 0.3:
                ops = [{"op": "ft", "z": z1}, {"op": "inv", "z": z1, "ref": 0}] + ops[3:]
                for o in ops[2:]:
                    if o.get("ref") is not None:
                        o["ref"] -= 1
            cases.append({"cfg": cfg, "itype": rng.choice(["range", "int64"]), "shift": rng.choice([0, 0, 5]), "ops": ops})


# ---- object history: the same object used before with other parameters / other data
_INNERS = [["des", 2, "A"], ["des", 3, "M"], ["cdes", 2, "A", "true"], ["det", 1], ["det", 0], ["bc"], ["log"],
           ["ad", "minmax"], ["ad", "standard"], ["ad", "binarizer"]]


def _neighbours(cfg):
    """configurations of the same class that differ in one (or a few) parameters"""
    k = cfg[0]
    if k in ("des", "cdes"):
        out = [[k, sp, cfg[2]] + cfg[3:] for sp in (1, 2, 3, 4, 5, 7) if sp != cfg[1]]
        out.append([k, cfg[1], "M" if cfg[2] == "A" else "A"] + cfg[3:])
        out.append([k, cfg[1] + 1, "M" if cfg[2] == "A" else "A"] + cfg[3:])
        if k == "cdes":
            out += [[k, cfg[1], cfg[2], t] for t in ("true", "false", "default") if t != cfg[3]]
        return out
    if k == "det":
        return [c for c in (["det", 0], ["det", 1], ["det", 1, "default"], ["det", 1, "noint"]) if c != cfg]
    if k == "bc":
        return [c for c in (["bc"], ["bc", [0, 1], "mle"], ["bc", None, "pearsonr"], ["bc", [-2, 0.5], "mle"]) if c != cfg]
    if k == "ad":
        return [["ad", n] for n in ("minmax", "standard", "robust", "binarizer", "log1p", "minmax11", "standard_nomean") if n != cfg[1]]
    if k == "hampel":
        me = list(cfg[1:4]) + [bool(cfg[4]) if len(cfg) > 4 else False]
        return [["hampel", w, ns, kk, rb] for (w, ns, kk) in ((2, 3, HAMPEL_K), (5, 1, 1.0), (3, 2, 0.5), tuple(cfg[1:4]))
                for rb in (False, True) if [w, ns, kk, rb] != me]
    if k == "pass":
        out = [["pass", not cfg[1], cfg[2]]]
        out += [["pass", fl, inner] for inner in _INNERS if inner != cfg[2] for fl in (True, False)]
        return out
    if k == "imputer":
        return [c for c in ([["imputer", m] for m in ("drift", "linear", "constant", "mean", "ffill", "random", "forecaster")]
                            + [["imputer", "linear", SENTINEL], ["imputer", "mean", SENTINEL]]) if c != cfg]
    if k == "acf":
        return [c for c in ([[k, n] for n in (1, 2, 3, 4)] + [[k, 2, True, False], [k, 2, False, True]]) if c != cfg]
    if k == "pacf":
        return [c for c in ([[k, n] for n in (1, 2, 3, 4)] + [[k, 2, "ywmle"], [k, 2, "ols"]]) if c != cfg]
    return [list(cfg)]        # log, cos: no parameters; the history is other data only


def _train_len(cfg):
    c = _eff_cfg(cfg) if cfg[0] != "pass" else cfg[2]
    return 2 * c[1] if c[0] in ("des", "cdes") else 3


def _pre_history(rng, cfg0, t0):
    """calls on the object before it is re-configured: fit on OTHER data, then some use of it"""
    c = cfg0[2] if cfg0[0] == "pass" else cfg0
    sp = c[1] if c[0] in ("des", "cdes") else 2
    n = _train_len(cfg0) + rng.randrange(0, 6)
    start = t0 + rng.choice([-7, -2, 0, 3, 11])
    z = _seasonal_series(rng, start, max(n, 4), sp)
    ops = [{"op": "fit", "z": z}]
    for _ in range(rng.randrange(0, 3)):
        k = rng.choice(["tr", "tr", "inv", "upd"])
        zz = _series(rng, start + rng.randrange(-3, n + 3), rng.randrange(1, 6))
        ops.append({"op": k, "z": zz, "up": None})
    return {"cfg": cfg0, "ops": ops}


def _attach_history(rng, case, cfg0=None):
    ops = case["ops"]
    if case.get("pre") or not ops or ops[0]["op"] not in ("fit", "ft") or not _valid_series(ops[0]["z"]):
        return False
    if case["cfg"][0] == "pass" and case["cfg"][2][0] == "pass":
        return False
    cfg0 = cfg0 or rng.choice(_neighbours(case["cfg"]))
    case["pre"] = _pre_history(rng, cfg0, ops[0]["z"]["l"][0])
    return True


_DEFAULTS = {"des": ["des", 1, "A"], "cdes": ["cdes", 1, "A", "default"], "det": ["det", 1, "default"], "bc": ["bc"],
             "hampel": ["hampel", 10, 3, HAMPEL_K], "imputer": ["imputer", "drift"]}


def _attach_other(rng, case, cfgB=None):
    """a second object B of the same class, used on other data between the operations of the case's object"""
    ops = case["ops"]
    if case.get("other") or not ops or (case["cfg"][0] == "pass" and case["cfg"][2][0] == "pass"):
        return False
    cfg = case["cfg"]
    if cfgB is None:
        r = rng.random()
        cfgB = list(cfg) if r < 0.4 else (_DEFAULTS.get(cfg[0], list(cfg)) if r < 0.6 else rng.choice(_neighbours(cfg)))
    t0 = next((o["z"]["l"][0] for o in ops if _is_series(o["z"]) and o["z"]["l"]), 0)
    bops = _pre_history(rng, cfgB, t0)["ops"]
    for _ in range(rng.randrange(0, 3)):
        c = cfgB[2] if cfgB[0] == "pass" else cfgB
        sp = c[1] if c[0] in ("des", "cdes") else 2
        k = rng.choice(["fit", "upd", "tr", "ft"])
        zz = _seasonal_series(rng, t0 + rng.randrange(-9, 30), max(_train_len(cfgB), 4) + rng.randrange(0, 4), sp)
        bops.append({"op": k, "z": zz, "up": None})
    # spread B's calls over the slots 0..len(ops)-1 (mostly BETWEEN the operations of the case's object)
    slots = sorted(rng.choice([0] + list(range(1, len(ops))) * 3) if len(ops) > 1 else 0 for _ in bops)
    steps = {}
    for at, bop in zip(slots, bops):
        steps.setdefault(at, []).append(bop)
    case["other"] = {"cfg": cfgB, "steps": [{"at": at, "ops": o} for at, o in sorted(steps.items())]}
    return True


def _gen_other(tier, rng, cases):
    """every class x (same parameters | default-constructed | neighbouring configuration) as the second object"""
    bases = [["des", 4, "A"], ["des", 1, "A"], ["cdes", 3, "A", "true"], ["cdes", 1, "A", "default"], ["det", 1], ["det", 0],
             ["det", 1, "default"], ["bc"], ["bc", [0, 1], "mle"], ["log"], ["ad", "minmax"], ["ad", "standard"],
             ["hampel", 3, 3, HAMPEL_K], ["hampel", 3, 3, HAMPEL_K, True], ["imputer", "linear"], ["imputer", "drift"], ["acf", 2], ["cos"],
             ["pass", False, ["det", 1, "default"]], ["pass", False, ["des", 2, "A"]], ["pass", True, ["bc"]], ["pass", False, ["ad", "minmax"]]]
    reps = 2 if tier == "quick" else 12
    for cfg in bases:
        others = [list(cfg)]
        if cfg[0] in _DEFAULTS and _DEFAULTS[cfg[0]] != cfg:
            others.append(_DEFAULTS[cfg[0]])
        nb = _neighbours(cfg)
        others += [nb[0]] if tier == "quick" else nb[:4]
        for cfgB in others:
            for _ in range(reps):
                c = cfg[2] if cfg[0] == "pass" else cfg
                sp = c[1] if c[0] in ("des", "cdes") else 2
                t0 = rng.choice([-5, 0, 6])
                n = max(_train_len(cfg), 4) + rng.randrange(0, 7)
                z1 = _seasonal_series(rng, t0, n, sp)
                if cfg[0] == "imputer":
                    z1["v"] = [None if (rng.random() < 0.2 and 0 < i < n - 1) else v for i, v in enumerate(z1["v"])]
                z2 = _series(rng, t0 + rng.randrange(-3, n + 3), rng.randrange(1, 6))
                ops = [{"op": "fit", "z": z1}, {"op": "tr", "z": z1}, {"op": "inv", "z": z1, "ref": 1},
                       {"op": "tr", "z": z2}, {"op": "inv", "z": z2, "ref": 3}]
                if c[0] in ("des", "cdes", "det") and cfg[0] != "pass" and rng.random() < 0.4:
                    ops.insert(3, {"op": "upd", "z": _series(rng, t0 + n, 2), "up": None})
                    ops[-1]["ref"] = 4
                case = {"cfg": cfg, "itype": rng.choice(["range", "int64"]), "shift": rng.choice([0, 0, 4, -6]), "ops": ops}
                _attach_other(rng, case, cfgB)
                cases.append(case)


def _gen_history(tier, rng, cases):
    """every class x every neighbouring configuration it may have had before set_params + fit"""
    bases = [["des", 4, "A"], ["des", 2, "M"], ["cdes", 3, "A", "true"], ["cdes", 2, "M", "false"], ["det", 1], ["det", 0],
             ["bc"], ["bc", [0, 1], "mle"], ["log"], ["ad", "minmax"], ["ad", "standard"], ["ad", "binarizer"],
             ["hampel", 3, 3, HAMPEL_K], ["hampel", 3, 3, HAMPEL_K, True], ["imputer", "linear"], ["imputer", "constant"], ["acf", 2], ["cos"]]
    bases += [["pass", fl, inner] for inner in _INNERS for fl in (True, False)]
    reps = 1 if tier == "quick" else 5
    for cfg in bases:
        nb = _neighbours(cfg)
        if tier == "quick" and len(nb) > 4:
            nb = [nb[0]] + rng.sample(nb[1:], 3)
        for cfg0 in nb:
            for _ in range(reps):
                c = cfg[2] if cfg[0] == "pass" else cfg
                sp = c[1] if c[0] in ("des", "cdes") else 2
                t0 = rng.choice([-5, 0, 6])
                n = max(_train_len(cfg), 4) + rng.randrange(0, 7)
                nanp = 0.2 if cfg[0] == "imputer" else 0.0
                z1 = _seasonal_series(rng, t0, n, sp)
                if nanp:
                    z1["v"] = [None if (rng.random() < nanp and 0 < i < n - 1) else v for i, v in enumerate(z1["v"])]
                z2 = _series(rng, t0 + rng.randrange(-3, n + 3), rng.randrange(1, 6))
                ops = [{"op": "fit", "z": z1}, {"op": "tr", "z": z1}, {"op": "inv", "z": z1, "ref": 1},
                       {"op": "tr", "z": z2}, {"op": "inv", "z": z2, "ref": 3}]
                if rng.random() < 0.3:
                    ops = [{"op": "ft", "z": z1}, {"op": "inv", "z": z1, "ref": 0}, {"op": "tr", "z": z2}, {"op": "inv", "z": z2, "ref": 2}]
                if cfg[0] in ("des", "cdes", "det") and rng.random() < 0.4:
                    ops.append({"op": "upd", "z": _series(rng, t0 + n, 2), "up": None})
                    ops.append({"op": "tr", "z": z2})
                case = {"cfg": cfg, "itype": rng.choice(["range", "int64"]), "shift": rng.choice([0, 0, 4, -6]), "ops": ops}
                _attach_history(rng, case, cfg0)
                cases.append(case)


def _frame(rng, start, n, cols, nan_p=0.0, positive=True):
    vv = []
    for j, _c in enumerate(cols):
        scale = [1, 100, 7][j % 3]
        col = [scale * (_dy(rng) if positive else rng.randrange(-160, 161) / 4) + 50 * j for _ in range(n)]
        vv.append([None if (rng.random() < nan_p and 0 < i < n - 1) else v for i, v in enumerate(col)])
    return {"l": list(range(start, start + n)), "cols": list(cols), "vv": vv}


def _gen_frames(tier, rng, cases):
    """multivariate frames (2-3 columns, string and integer labels, NOT in sorted order) for the transformers that accept them"""
    colsets = [["temp", "load"], ["b", "a", "c"], [2, 0, 1], [1, 0], [10, 3], ["y", "x"], ["a", "b"]]
    cfgs = [["ad", "standard"], ["ad", "minmax"], ["ad", "robust"], ["ad", "log1p"], ["log"], ["cos"], ["hampel", 3, 3, HAMPEL_K],
            ["hampel", 3, 3, HAMPEL_K, True], ["hampel", 4, 2, 1.0, True], ["ad", "minmax11"], ["ad", "standard_nomean"]]
    cfgs += [["imputer", m] for m in ("linear", "mean", "median", "ffill", "bfill", "constant", "nearest", "drift")]
    cfgs += [["imputer", "linear", SENTINEL], ["imputer", "mean", SENTINEL], ["imputer", "drift", SENTINEL], ["imputer", "forecaster"]]
    reps = 2 if tier == "quick" else 14
    for cfg in cfgs:
        for cols in colsets:
            for _ in range(reps):
                t0 = rng.choice([-4, 0, 7])
                n = rng.randrange(6, 14)
                nanp = 0.2 if cfg[0] == "imputer" else 0.0
                pos = cfg[0] != "cos"
                z1 = _frame(rng, t0, n, cols, nanp, pos)
                z2 = _frame(rng, t0 + rng.randrange(-3, n + 3), rng.randrange(2 if cfg[0] != "hampel" else 5, 8), cols, nanp, pos)
                if cfg[0] == "imputer" and len(cfg) > 2:          # missing observations are marked by the sentinel value
                    for zz in (z1, z2):
                        zz["vv"] = [[SENTINEL if (v is not None and rng.random() < 0.2) else v for v in col] for col in zz["vv"]]
                if cfg[0] == "hampel":
                    for zz in (z1, z2):
                        for col in zz["vv"]:
                            if rng.random() < 0.7:
                                col[rng.randrange(len(col))] = rng.choice([40000.0, -30000.0])
                ops = [{"op": "fit", "z": z1}, {"op": "tr", "z": z1}, {"op": "inv", "z": z1, "ref": 1},
                       {"op": "tr", "z": z2}, {"op": "inv", "z": z2, "ref": 3}]
                if rng.random() < 0.3:
                    ops = [{"op": "ft", "z": z1}, {"op": "inv", "z": z1, "ref": 0}, {"op": "tr", "z": z2}, {"op": "inv", "z": z2, "ref": 2}]
                cases.append({"cfg": cfg, "itype": rng.choice(["range", "int64"]), "shift": rng.choice([0, 3, -5]), "ops": ops})


def _gen_time_index(tier, rng, cases):
    """(conditional) deseasonalizer on an hourly / daily DatetimeIndex and a daily PeriodIndex: periods that do not
    divide a day (5, 7, 9) and ones that do (4, 12, 24); stretches starting days before / after the training start"""
    reps = 2 if tier == "quick" else 10
    for itype in ("dth", "dtd", "per"):
        for sp in (4, 5, 7, 9, 12, 24):
            for m in ("A", "M"):
                for _ in range(reps):
                    t0 = rng.choice([-30, 0, 17])
                    n = 2 * sp + rng.randrange(0, sp + 2)
                    z1 = _seasonal_series(rng, t0, n, sp)
                    cfg = ["des", sp, m] if rng.random() < 0.7 else ["cdes", sp, m, rng.choice(["true", "default"])]
                    ops = [{"op": "fit", "z": z1}, {"op": "tr", "z": z1}, {"op": "inv", "z": z1, "ref": 1}]
                    for _k in range(3):
                        off = rng.choice([rng.randrange(0, 24), 24 + rng.randrange(0, 60), 24 * rng.randrange(2, 9) + rng.randrange(0, 24), -rng.randrange(1, 80)])
                        zz = _series(rng, t0 + off, rng.randrange(1, sp + 3))
                        ops.append({"op": "tr", "z": zz})
                        ops.append({"op": "inv", "z": zz, "ref": len(ops) - 1})
                        if rng.random() < 0.3:
                            ops.append({"op": "upd", "z": _series(rng, t0 + n + rng.randrange(0, 40), 2), "up": None})
                    cases.append({"cfg": cfg, "itype": itype, "shift": rng.choice([0, 0, 31, -50]), "ops": ops})


def _gen_pass(tier, rng, cases):
    inners = [["des", 2, "A"], ["des", 3, "M"], ["cdes", 2, "A", "true"], ["det", 1], ["det", 0], ["bc"], ["log"],
              ["ad", "minmax"], ["ad", "binarizer"], ["hampel", 3, 3, HAMPEL_K],
              ["hampel", 3, 3, HAMPEL_K, True], ["det", 1, "noint"], ["ad", "standard_nomean"]]
    reps = 4 if tier == "quick" else 40
    for inner in inners:
        for flag in (True, False):
            for _ in range(reps):
                sp = inner[1] if inner[0] in ("des", "cdes") else 2
                t0 = rng.choice([-3, 0, 6])
                n = rng.randrange(2 * sp, 2 * sp + 5)
                z1 = _seasonal_series(rng, t0, n, sp)
                z2 = _series(rng, t0 + rng.randrange(-2, n + 3), rng.randrange(1, 5))
                ops = [{"op": "fit", "z": z1}, {"op": "tr", "z": z1}, {"op": "inv", "z": z1, "ref": 1},
                       {"op": "tr", "z": z2}, {"op": "inv", "z": z2, "ref": 3}]
                if rng.random() < 0.3:
                    ops = [{"op": "ft", "z": z1}, {"op": "inv", "z": z1, "ref": 0}, {"op": "upd", "z": z2, "up": None}]
                if rng.random() < 0.2:
                    ops = [{"op": "tr", "z": z1}] + ops
                    for o in ops:
                        if o.get("ref") is not None:
                            o["ref"] += 1
                cases.append({"cfg": ["pass", flag, inner], "itype": "range", "shift": rng.choice([0, 2]), "ops": ops})


def _gen_hampel(tier, rng, cases):
    reps = 10 if tier == "quick" else 150
    for w in (1, 2, 3, 4, 5, 6):
        for _ in range(reps):
            n = rng.randrange(max(2, w - 1), 15)
            t0 = rng.choice([0, 0, 0, 3, -2])
            z = _series(rng, t0, n, positive=False, nan_p=0.08)
            for _k in range(rng.randrange(0, 3)):
                z["v"][rng.randrange(n)] = rng.choice([400.0, -300.0, 90.5])
            cfg = ["hampel", w, rng.choice([3, 2, 1]), rng.choice([HAMPEL_K, 1.0, 0.5]), rng.random() < 0.5]    # return_bool: both values
            ops = [{"op": "ft", "z": z}]
            if rng.random() < 0.3:         # a later / overlapping stretch through the fitted object
                n2 = rng.randrange(max(2, w - 1), 12)
                ops.append({"op": "tr", "z": _series(rng, t0 + rng.randrange(-2, n + 3), n2, positive=False, nan_p=0.08)})
            cases.append({"cfg": cfg, "itype": rng.choice(["range", "int64"]),
                          "shift": rng.choice([0, 0, 5, -1, -n]), "ops": ops})


def _gen_positional(tier, rng, cases):
    """transformers that are only observed (not modelled here): shift equivariance on the real code"""
    reps = 3 if tier == "quick" else 40
    cfgs = [["imputer", m] for m in ("drift", "linear", "nearest", "constant", "mean", "median", "bfill", "ffill")]
    cfgs += [["acf", 2], ["acf", 4], ["pacf", 2], ["cos"]]
    # the classes' other options away from their defaults
    cfgs += [["imputer", "random"], ["imputer", "forecaster"], ["imputer", "linear", SENTINEL], ["imputer", "drift", SENTINEL],
             ["imputer", "mean", SENTINEL], ["imputer", "ffill", SENTINEL], ["acf", 2, True, False], ["acf", 3, False, True],
             ["acf", 2, True, True], ["pacf", 2, "ywmle"], ["pacf", 2, "ols"], ["pacf", 3, "ldbiased"]]
    for cfg in cfgs:
        for _ in range(reps):
            n = rng.randrange(8, 16)
            z = _series(rng, rng.choice([0, 4, -3]), n, positive=False, nan_p=0.2 if cfg[0] == "imputer" else 0.0)
            if cfg[0] == "imputer" and all(v is None for v in z["v"]):
                z["v"][0] = 1.0
            if cfg[0] == "imputer" and len(cfg) > 2:
                z["v"] = [SENTINEL if (v is not None and rng.random() < 0.2) else v for v in z["v"]]
            cases.append({"cfg": cfg, "itype": rng.choice(["range", "int64"]), "shift": rng.choice([6, -2, 1]),
                          "ops": [{"op": "ft", "z": z}, {"op": "tr", "z": z}]})


def _rand_cfg(rng):
    r = rng.random()
    if r < 0.35:
        return ["des", rng.choice([1, 2, 3, 4, 6, 7, 12]), rng.choice(["A", "A", "M"])]
    if r < 0.45:
        return ["cdes", rng.choice([2, 3, 4]), rng.choice(["A", "M"]), rng.choice(["true", "false", "default"])]
    if r < 0.7:
        return ["det", rng.choice([0, 1])]
    if r < 0.78:
        return ["bc"]
    if r < 0.84:
        return ["log"]
    if r < 0.92:
        return ["ad", rng.choice(["minmax", "standard", "robust", "binarizer"])]
    return ["pass", rng.random() < 0.4, rng.choice([["des", 2, "A"], ["det", 1], ["log"]])]


def _gen_random(tier, rng, cases, malformed=False):
    reps = (1000 if tier == "quick" else 9000) if not malformed else (300 if tier == "quick" else 2500)
    for _ in range(reps):
        cfg = _rand_cfg(rng)
        sp = cfg[1] if cfg[0] in ("des", "cdes") else 2
        t0 = rng.randrange(-12, 30)
        n = min(int(rng.lognormvariate(2.2, 0.6)) + 2 * sp, 40)
        z1 = _seasonal_series(rng, t0, max(n, 1), sp)
        ops = []
        if malformed and rng.random() < 0.35:
            ops.append({"op": rng.choice(["tr", "inv", "upd"]), "z": z1, "up": None})   # before fit
        ops.append({"op": rng.choice(["fit", "fit", "ft"]), "z": z1})
        last_tr = None
        for _j in range(min(int(rng.lognormvariate(1.2, 0.6)), 9)):
            k = rng.choice(["tr", "tr", "inv", "upd", "fit", "ft"] if not malformed else ["tr", "inv", "upd", "fit"])
            start = t0 + rng.randrange(-2 * sp, n + 2 * sp + 1)
            ln = rng.randrange(1, 2 * sp + 4)
            if k in ("fit", "ft"):
                if rng.random() < 0.5:
                    ln = rng.randrange(1, 2 * sp + 1)       # may be too short for two cycles
                z = _seasonal_series(rng, start, ln, sp)
            else:
                z = _series(rng, start, ln, nan_p=0.03)
            if malformed:
                r = rng.random()
                if r < 0.15:
                    z = "notseries"
                elif r < 0.3:
                    z = "fidx"
                elif r < 0.45:
                    z = {"l": [], "v": []}
                elif r < 0.65 and len(z["l"]) > 1:
                    i = rng.randrange(len(z["l"]) - 1)
                    z["l"][i], z["l"][i + 1] = z["l"][i + 1], z["l"][i]       # unsorted
                elif r < 0.8 and len(z["l"]) > 1 and not (cfg[0] == "det" or (cfg[0] == "pass" and cfg[2][0] == "det")):
                    i = rng.randrange(len(z["l"]) - 1)
                    z["l"][i + 1] = z["l"][i]                                  # duplicate label
                    z["l"] = sorted(z["l"])
                elif r < 0.9 and len(z["l"]) > 1:
                    z["l"] = [z["l"][0] + 2 * j for j in range(len(z["l"]))]   # gapped
            op = {"op": k, "z": z}
            if k == "upd":
                op["up"] = rng.choice([None, True, False])
                if cfg[0] in ("des", "cdes") and rng.random() < 0.3 and _is_series(z) and z["l"] and not malformed:
                    # some phase-neutral updates (batch start a multiple of sp from the training start)
                    d = (z["l"][0] - t0) % sp
                    z["l"] = [l - d for l in z["l"]]
            if k == "inv" and last_tr is not None and rng.random() < 0.7:
                op["ref"] = last_tr
            ops.append(op)
            if k in ("tr", "ft"):
                last_tr = len(ops) - 1
            if k in ("fit", "upd", "ft") and k != "ft":
                last_tr = None
            if k in ("fit", "ft") and _is_series(z) and z["l"]:
                t0 = z["l"][0]
        cases.append({"cfg": cfg, "itype": rng.choice(["range", "int64"]), "shift": rng.choice([0, 0, 0, 13, -9]), "ops": ops})


def gen_cases(tier, rng):
    cases = []
    _gen_des(tier, rng, cases)
    _gen_cdes(tier, rng, cases)
    _gen_det(tier, rng, cases)
    _gen_col(tier, rng, cases)
    _gen_counts(tier, rng, cases)
    _gen_pass(tier, rng, cases)
    _gen_hampel(tier, rng, cases)
    _gen_positional(tier, rng, cases)
    _gen_random(tier, rng, cases)
    _gen_random(tier, rng, cases, malformed=True)
    _gen_time_index(tier, rng, cases)
    _gen_history(tier, rng, cases)
    _gen_other(tier, rng, cases)
    # a second object of the same class used in between, for a share of all other cases
    for c in cases:
        if rng.random() < 0.2:
            _attach_other(rng, c)
    # equal-valued forms of the parameters (np.bool_ / 0-1 flags, numpy integers for sp / degree / window / lags,
    # np.float64, np.str_ option names) for a share of all cases; half of the OptionalPassthrough cases
    for c in cases:
        if c["cfg"][0] not in ("log", "cos") and rng.random() < (0.5 if c["cfg"][0] == "pass" else 0.2):
            c["pform"] = rng.choice(["np", "int"])
    # object history for a share of all other cases (the first call must be a fit on a valid series)
    for c in cases:
        if rng.random() < 0.25:
            _attach_history(rng, c)
    _gen_frames(tier, rng, cases)        # after the post-passes: frames keep builtin parameters, float64 values, one object
    # dtype of the values: training series and later stretches vary independently
    # (float64 / float32 / int64 / int32; integer dtypes carry integer-valued data)
    n_counts = sum(1 for c in cases if any(isinstance(o["z"], dict) and "dt" in o["z"] for o in c["ops"]))
    for c in cases:
        if not _is_frame_case(c) and not any(isinstance(o["z"], dict) and "dt" in o["z"] for o in c["ops"]):
            _vary_dtypes(rng, c)
    return cases


# ----------------------------------------------------------------------------- shrinking
def _fix_refs(ops, removed):
    out = []
    for j, o in enumerate(ops):
        if j == removed:
            continue
        o = dict(o)
        if o.get("ref") is not None:
            if o["ref"] == removed:
                o["ref"] = None
            elif o["ref"] > removed:
                o["ref"] -= 1
        out.append(o)
    return out


def _drop_op(c, i):
    d = dict(c, ops=_fix_refs(c["ops"], i))
    if c.get("other"):
        d["other"] = dict(c["other"], steps=[dict(st, at=st["at"] - 1 if st["at"] > i else st["at"]) for st in c["other"]["steps"]])
    return d


def shrink(c):
    ops = c["ops"]
    if c.get("shift"):
        yield dict(c, shift=0)
    if c.get("other"):
        yield {k: v for k, v in c.items() if k != "other"}
        st = c["other"]["steps"]
        for j in range(len(st) - 1, 0, -1):
            yield dict(c, other=dict(c["other"], steps=st[:j] + st[j + 1:]))
        for j, sj in enumerate(st):
            for m in range(len(sj["ops"]) - 1, 0 if j == 0 else -1, -1):
                if len(sj["ops"]) > 1:
                    yield dict(c, other=dict(c["other"], steps=st[:j] + [dict(sj, ops=sj["ops"][:m] + sj["ops"][m + 1:])] + st[j + 1:]))
    if c.get("pre"):
        yield {k: v for k, v in c.items() if k != "pre"}
    if c.get("pform"):
        yield {k: v for k, v in c.items() if k != "pform"}
    for i in range(len(ops) - 1, -1, -1):
        if len(ops) > 1:
            yield _drop_op(c, i)
    for i, o in enumerate(ops):
        z = o["z"]
        if _is_series(z) and "cols" in z:
            if len(z["l"]) > 2:
                for sl in (slice(0, -1), slice(1, None)):
                    yield dict(c, ops=ops[:i] + [dict(o, z=dict(z, l=z["l"][sl], vv=[col[sl] for col in z["vv"]]))] + ops[i + 1:])
            continue
        if _is_series(z) and len(z["l"]) > 1:
            for cut in ({"l": z["l"][:-1], "v": z["v"][:-1]}, {"l": z["l"][1:], "v": z["v"][1:]}):
                yield dict(c, ops=ops[:i] + [dict(o, z=cut)] + ops[i + 1:])
        if _is_series(z):
            simp = {"l": z["l"], "v": [None if v is None else float(round(v)) for v in z["v"]]}
            if simp != z:
                yield dict(c, ops=ops[:i] + [dict(o, z=simp)] + ops[i + 1:])
