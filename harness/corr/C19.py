"""C19 correspondence + oracle: benchmark orchestration (sktime/benchmarking/orchestration.py, results.py, base.py,
strategies.py, tasks.py, data.py, series_as_features/model_selection/_split.py).

case (kind "hist") = {
  "kind": "hist", "store": "hdd"|"ram", "learner": ["cls", ncls] | ["reg"], "labels": "int"|"str"|"numstr"|"nastr",
  "labnames": (scheme "nastr") the ncls class names, at least one spelled like a missing csv cell ("NA", "null", "", ..),
  "datasets": [{"name", "tpos", "feats": null|[col positions], "rows": [[cells]], "labels": null|"RRE..",
                "rowidx": optional row labels of the DataFrame (permuted / offset / gapped / duplicated ints, or strings);
                          absent = RangeIndex}],
  "Instance index" of a record = the POSITIONS (iloc) the cv splitter yielded, which is what the code stores as
  `index`; row labels of the frame play no role (the model does not even receive them), and the oracle recomputes
  every record by position.
  "strategies": [{"name", "p"}],
  "cv": {"kind": "kfold", "k", "shuffle", "rs"} | {"kind": "single", "t", "shuffle", "rs"} | {"kind": "presplit", "k": null|int},
  "runs": [{"owP", "owF", "saveF", "pot", "fail": null|k, "fresh": bool, "ns": optional number of strategies (a prefix) used by this run}]}
case (kind "init") = {"kind": "init", "ntasks", "ndatasets", "names": [...]}

A run = a new Orchestrator (new datasets, tasks, strategies, cv objects: a new process) over a new results object on the
same path (`fresh`) or the previous run's results object; `fail` = the k-th call of an estimator's fit/predict (counted
together, from 1) raises.  After every run the whole store is observed: record files / dict entries, saved fitted
strategies, which of them changed, the registry of the live results object, the master file, and what
`load_predictions` returns for every fold and part; plus the calls the estimators received.
"""
import os, csv, shutil, tempfile, logging, itertools
from fractions import Fraction
import numpy as np, pandas as pd
from common import canon_err, show_rat, show_bool

PROP = "C19"
LEAN_MODULE = "SkVerif.Props.C19"
OBLIGATIONS = [
    "SkVerif.C19.exactly_one_record_per_key",
    "SkVerif.C19.record_eq_honest_fold",
    "SkVerif.C19.load_eq_saved",
    "SkVerif.C19.resume_completes_to_uninterrupted",
    "SkVerif.C19.resume_does_not_touch_completed",
    "SkVerif.C19.resume_produces_exactly_missing",
    "SkVerif.C19.rerun_performs_no_fits",
    "SkVerif.C19.overwrite_recomputes_all",
    "SkVerif.C19.uninterrupted_log_exactly_once",
    "SkVerif.C19.resume_registry_complete",
    "SkVerif.C19.registry_names_only_items",
    "SkVerif.C19.mkWork_keys_injective",
    "SkVerif.C19.validate_ok_names_nodup",
    "SkVerif.C19.original_ram_key_collision",
    "SkVerif.C19.record_one_prediction_per_instance",
    "SkVerif.C19.existence_checks_ignore_content",
]
TRUSTED = [
    "hand-written model SkVerif/Model/Orch.lean of Orchestrator.fit_predict / _iter and of the two result stores",
    "the file system and joblib/csv round trips are a key->record map with an existence test (records read back from "
    "disk are compared by the correspondence and the oracle only, not proved)",
    "sklearn.clone / KFold / train_test_split, pandas iloc / column selection as black boxes (exercised by the correspondence)",
]
ASSUMPTIONS = [
    "dataset names are distinct and contain no path separator (the code does not check this)",
    "every training fold has at least 2 rows and the cv scheme is valid for every dataset (else task / sklearn validation raises)",
    "cv.split is deterministic (fixed random_state); estimators are deterministic",
    "one task object per dataset; verbose=False; tasks are TSC or TSR with a compatible strategy",
]
RULE = ("exhaustive small scope: for fixed small configurations, every failure point k x option combinations x "
        "{fresh, reused} results object, followed by resume / re-run / overwrite runs (quick: seed-rotated slice); "
        "structured random histories (1-3 datasets, 1-3 strategies, k-fold incl. leave-one-out / single split / pre-split CV, "
        "parts of exactly one instance, class labels as ints / bools / strings / strings spelled like a missing csv cell, RAM and HDD); "
        "malformed stream (invalid names, option conflicts). distinct by driver line; "
        "non-trivial = at least one run completed and stored a record")
LEVEL_TEXT = ("proof (Lean 4) of the skip/fit/save/predict/save logic of Orchestrator.fit_predict for all work lists, failure "
              "points, option combinations and run sequences, on an executable model tied to the code by differential correspondence")
LEVEL_NOTE = ("proved for the model (code after fixes 027a939, 23c2285), for HDD and RAM stores: exactly one honest record per key, "
              "resume completes to the uninterrupted store (records, saved strategies, registry, master file) without touching "
              "completed entries, re-run performs no calls, overwrite recomputes all. Observed only: csv/pickle round trips "
              "(known finding: numeric-string labels read back as numbers), cv splitters, clone freshness")
TECHNIQUE = "Lean 4 theorem proving + differential correspondence with counting/failing estimators"

_ERR = {"_Inject": "E:inject", "NotImplementedError": "E:notimpl", "ValueError": "E:value"}


# ----------------------------------------------------------------------------- the estimator (mirrored in Drv/C19.lean)
class _Inject(Exception):
    pass


_STATE = {"n": 0, "fail": None, "log": [], "serial": 0}


def _tick():
    _STATE["n"] += 1
    if _STATE["fail"] is not None and _STATE["n"] == _STATE["fail"]:
        raise _Inject()


def _row_sum(x):
    return sum(((c + 1) * Fraction(v) for c, v in enumerate(x)), Fraction(0))


def _fit_chk(X, y):
    return sum(((r + 1) * (Fraction(t) + _row_sum(x)) for r, (x, t) in enumerate(zip(X, y))), Fraction(0))


def _pred_chk(X):
    return sum(((r + 1) * _row_sum(x) for r, x in enumerate(X)), Fraction(0))


def _predict_rows(w, X, ncls):
    if ncls == 0:
        return [w / 2 + _row_sum(x) for x in X]
    return [Fraction(int(w + _row_sum(x)) % ncls) for x in X]


# spellings that pandas.read_csv (default na_values) takes for a missing cell; usable as class labels
_NA_LIKE = ["NA", "null", "None", "nan", "n/a", "NULL", "<NA>", "", "N/A", "NaN", "#N/A", "-nan", "#NA", "-NaN"]
_PLAIN = ["B", "yes", "Lx", "c-1"]


def _labspec(c):
    """what the label helpers take: the scheme's name, or (scheme "nastr") the tuple of the class names"""
    return tuple(c["labnames"]) if c["labels"] == "nastr" else c["labels"]


def _lab_out(i, labels):
    if isinstance(labels, (tuple, list)):
        return labels[i]
    if labels == "bool":
        return bool(i)
    return i if labels == "int" else ("L%d" % i if labels == "str" else "%d" % i)


def _lab_in(v, labels):
    if isinstance(labels, (tuple, list)):
        return list(labels).index(v)
    if labels == "int":
        return v
    if labels == "bool":
        return int(v)
    s = str(v)
    return int(s[1:]) if labels == "str" else int(s)


def _tdtype(c):
    """dtype of the target column: classification int64/int32/bool/object(str); regression float64/float32/int64/int32/bool"""
    td = c.get("tdtype")
    if td:
        return td
    if _ncls_of(c):
        return "int64" if c["labels"] == "int" else "object"
    return "float64"


def _ncls_of(c):
    return c["learner"][1] if c["learner"][0] == "cls" else 0


from sklearn.base import BaseEstimator, ClassifierMixin, RegressorMixin


class _Base(BaseEstimator):
    def __init__(self, p=0, ncls=0, labels="int", proba="none"):
        self.p = p
        self.ncls = ncls
        self.labels = labels
        self.proba = proba

    def fit(self, X, y):
        _STATE.setdefault("cols", set()).add(tuple(str(x) for x in X.columns))
        Xl = [list(r) for r in X.values.tolist()]
        yl = [_lab_in(v, self.labels) if self.ncls else v for v in y.tolist()]
        refit = 1 if hasattr(self, "w_") else 0
        _STATE["log"].append("f:%d:%d:%d:%s:%d" % (self.p, len(Xl), X.shape[1], show_rat(_fit_chk(Xl, yl)), refit))
        _tick()
        # a re-fitted instance keeps what it learned before: only a fresh clone gives the honest fit
        self.w_ = getattr(self, "w_", 0) + Fraction(self.p) + _fit_chk(Xl, yl)
        if self.ncls:
            dt = "int64" if self.labels == "int" else ("bool" if self.labels == "bool" else object)
            self.classes_ = np.array([_lab_out(i, self.labels) for i in range(self.ncls)], dtype=dt)
        _STATE["serial"] += 1
        self.serial_ = _STATE["serial"]
        return self

    def predict(self, X):
        _STATE.setdefault("cols", set()).add(tuple(str(x) for x in X.columns))
        Xl = [list(r) for r in X.values.tolist()]
        _STATE["log"].append("p:%d:%d:%d:%s:0" % (self.p, len(Xl), X.shape[1], show_rat(_pred_chk(Xl))))
        _tick()
        out = _predict_rows(self.w_, Xl, self.ncls)
        if self.ncls:
            dt = "int64" if self.labels == "int" else ("bool" if self.labels == "bool" else object)
            return np.array([_lab_out(int(v), self.labels) for v in out], dtype=dt)
        return np.array([float(v) for v in out], dtype="float64")


class C19Classifier(ClassifierMixin, _Base):
    """no predict_proba"""


class C19ProbaClassifier(C19Classifier):
    """a classifier WITH predict_proba whose `predict` is deliberately NOT the first argmax of `predict_proba`:
    proba="last": the predicted class k shares the maximal probability with class 0 (ties are broken towards the last
    class by `predict`, as seeded-RNG / last-wins tie-breaks do); proba="decoupled": the most probable class is
    (k + 1) mod n (a `predict` that is another function of the data, as SVC(probability=True)).  The orchestrator as
    documented stores what `predict` returned and never calls `predict_proba` (TSCStrategy does not expose it);
    a call is logged as `q:` and counted like any estimator call."""

    def predict_proba(self, X):
        _STATE.setdefault("cols", set()).add(tuple(str(x) for x in X.columns))
        Xl = [list(r) for r in X.values.tolist()]
        _STATE["log"].append("q:%d:%d:%d:%s:0" % (self.p, len(Xl), X.shape[1], show_rat(_pred_chk(Xl))))
        _tick()
        ks = [int(v) for v in _predict_rows(self.w_, Xl, self.ncls)]
        P = np.zeros((len(ks), self.ncls))
        for r, k in enumerate(ks):
            if self.proba == "decoupled":
                P[r, (k + 1) % self.ncls] = 0.75
                P[r, k] = 0.25
            elif k == 0:
                P[r, 0] = 1.0
            else:
                P[r, 0] = 0.5
                P[r, k] = 0.5
        return P


class C19Regressor(RegressorMixin, _Base):
    pass


def _classes():
    return C19Classifier, C19Regressor


# ----------------------------------------------------------------------------- building the real objects
def _ncls(c):
    return c["learner"][1] if c["learner"][0] == "cls" else 0


def _frame(c, d):
    ncols = len(d["rows"][0])
    names, j = [], 0
    cn = d.get("colnames")
    for i in range(ncols):
        if i == d["tpos"]:
            names.append("target")
        else:
            names.append(cn[j] if cn else "c%d" % j); j += 1
    cols = {}
    for i, nm in enumerate(names):
        col = [r[i] for r in d["rows"]]
        if i == d["tpos"]:
            if _ncls(c):
                col = [_lab_out(int(v), _labspec(c)) for v in col]
                if c["labels"] in ("int", "bool"):
                    col = np.array(col, dtype=_tdtype(c))
            else:
                col = np.array(col, dtype=_tdtype(c))
        cols[nm] = col
    df = pd.DataFrame(cols, columns=names)
    if d.get("labels"):
        df.index = ["train" if ch == "R" else "test" for ch in d["labels"]]
    elif d.get("rowidx") is not None:
        df.index = pd.Index(d["rowidx"])
    feats = None if d["feats"] is None else [names[i] for i in d["feats"]]
    return df, feats


_PERCALL = ("percall", "kfold-unseeded", "single-unseeded")


def _percall_folds(n, k, step, callno):
    """the split the recording cv stub returns on its `callno`-th call (0-based): positions rotated by callno*step,
    reversed on odd calls, then k contiguous test blocks"""
    perm = [(i + callno * step) % n for i in range(n)]
    if callno % 2:
        perm.reverse()
    out, start = [], 0
    for f in range(k):
        size = n // k + (1 if f < n % k else 0)
        test = perm[start:start + size]
        out.append((perm[:start] + perm[start + size:], test))
        start += size
    return out


class C19CallCV:
    """a cv object that answers every call of split() with ANOTHER split (deterministic in the call count), like
    an unseeded shuffling splitter; the orchestrator asks once per (dataset, strategy)"""

    def __init__(self, k, step):
        self.k, self.step, self.calls = k, step, 0

    def split(self, data, y=None, groups=None):
        folds = _percall_folds(len(data), self.k, self.step, self.calls)
        self.calls += 1
        return iter([(np.array(a), np.array(b)) for a, b in folds])

    def get_n_splits(self, *a, **k):
        return self.k


def _cv_object(c):
    from sklearn.model_selection import KFold
    from sktime.series_as_features.model_selection import PresplitFilesCV, SingleSplit
    cv = c["cv"]
    if cv["kind"] == "percall":
        return C19CallCV(cv["k"], cv["step"])
    if cv["kind"] == "kfold-unseeded":     # global numpy RNG, seeded by the harness before each run
        return KFold(cv["k"], shuffle=True)
    if cv["kind"] == "single-unseeded":
        return SingleSplit(test_size=cv["t"])
    if cv["kind"] == "kfold":
        return KFold(cv["k"], shuffle=True, random_state=cv["rs"]) if cv.get("shuffle") else KFold(cv["k"])
    if cv["kind"] == "single":
        if cv.get("shuffle"):
            return SingleSplit(test_size=cv["t"], random_state=cv["rs"])
        return SingleSplit(test_size=cv["t"], shuffle=False)
    if cv["kind"] == "presplit":
        return PresplitFilesCV(cv=None if cv["k"] is None else KFold(cv["k"]))
    raise ValueError(cv)


_FOLD_CACHE = {}


def _folds_per_call(c):
    """{(dataset index, strategy index): folds} for cv objects that split anew on every call: the orchestrator calls
    cv.split once per (dataset, strategy), datasets outer, all strategies of the case; replayed here WITHOUT sktime"""
    from sklearn.model_selection import KFold, train_test_split
    import json as _json
    key = _json.dumps([c["cv"], [len(d["rows"]) for d in c["datasets"]], len(c["strategies"])])
    if key in _FOLD_CACHE:
        return _FOLD_CACHE[key]
    cv, ns, out = c["cv"], len(c["strategies"]), {}
    state = np.random.get_state()
    try:
        if cv["kind"] != "percall":
            np.random.seed(cv["rs"])
        for di, d in enumerate(c["datasets"]):
            n = len(d["rows"])
            for si in range(ns):
                if cv["kind"] == "percall":
                    f = _percall_folds(n, cv["k"], cv["step"], di * ns + si)
                elif cv["kind"] == "kfold-unseeded":
                    f = [([int(i) for i in a], [int(i) for i in b]) for a, b in KFold(cv["k"], shuffle=True).split(np.arange(n))]
                else:
                    a, b = train_test_split(np.arange(n), test_size=cv["t"])
                    f = [([int(i) for i in a], [int(i) for i in b])]
                out[(di, si)] = f
    finally:
        np.random.set_state(state)
    if len(_FOLD_CACHE) > 64:
        _FOLD_CACHE.clear()
    _FOLD_CACHE[key] = out
    return out


def _folds(c, d, si=0):
    """the folds the cv scheme defines for dataset d (and, for per-call schemes, strategy number si), computed
    WITHOUT sktime (sklearn / index arithmetic only)"""
    from sklearn.model_selection import KFold, train_test_split
    n = len(d["rows"])
    cv = c["cv"]
    if cv["kind"] in _PERCALL:
        di = [x["name"] for x in c["datasets"]].index(d["name"])
        return _folds_per_call(c)[(di, si)]
    if cv["kind"] == "kfold":
        kf = KFold(cv["k"], shuffle=True, random_state=cv["rs"]) if cv.get("shuffle") else KFold(cv["k"])
        return [([int(i) for i in a], [int(i) for i in b]) for a, b in kf.split(np.arange(n))]
    if cv["kind"] == "single":
        if cv.get("shuffle"):
            a, b = train_test_split(np.arange(n), test_size=cv["t"], random_state=cv["rs"])
        else:
            a, b = np.arange(n - cv["t"]), np.arange(n - cv["t"], n)
        return [([int(i) for i in a], [int(i) for i in b])]
    if cv["kind"] == "presplit":
        labs = d["labels"]
        out = [([i for i in range(n) if labs[i] == "R"], [i for i in range(n) if labs[i] != "R"])]
        if cv["k"] is not None:
            out += [([int(i) for i in a], [int(i) for i in b]) for a, b in KFold(cv["k"]).split(np.arange(n))]
        return out
    raise ValueError(cv)


def _nfolds(c):
    return max([len(_folds(c, d)) for d in c["datasets"]] or [0])


def _ns(c, run):
    ns = run.get("ns")
    return len(c["strategies"]) if ns is None else ns


def _real(x):
    """the name the REAL objects get (strategy / dataset); the model and all canonical output use the alias `name`"""
    return x.get("real", x["name"])


def _aliases(c):
    return ({_real(x): x["name"] for x in c["strategies"]}, {_real(x): x["name"] for x in c["datasets"]})


def _safe(n):
    """a name that is not one of the case's names, made harmless for the line syntax"""
    return "?" + "".join(ch if ch.isalnum() or ch in "_-" else "%%%02x" % ord(ch) for ch in str(n))


def _build(c, run=None):
    from sktime.benchmarking.data import RAMDataset
    from sktime.benchmarking.tasks import TSCTask, TSRTask
    from sktime.benchmarking.strategies import TSCStrategy, TSRStrategy
    Cl, Rg = _classes()
    ncls = _ncls(c)
    datasets, tasks = [], []
    for d in c["datasets"]:
        df, feats = _frame(c, d)
        datasets.append(RAMDataset(df, _real(d)))
        tasks.append((TSCTask if ncls else TSRTask)(target="target", features=feats))
    strategies = []
    for s in (c["strategies"] if run is None else c["strategies"][:_ns(c, run)]):
        if ncls and c.get("proba"):
            est = C19ProbaClassifier(p=s["p"], ncls=ncls, labels=_labspec(c), proba=c["proba"])
        else:
            est = (Cl if ncls else Rg)(p=s["p"], ncls=ncls, labels=_labspec(c))
        strategies.append((TSCStrategy if ncls else TSRStrategy)(est, name=_real(s)))
    return tasks, datasets, strategies, _cv_object(c)


# ----------------------------------------------------------------------------- observation
def _val(v, c):
    """canonical value of a stored y AS A NUMBER: class index / exact rational (bool targets: 0/1); anything of an
    unexpected type is tagged"""
    if isinstance(v, (bool, np.bool_)) and (_tdtype(c) == "bool"):
        return str(int(v))
    if isinstance(v, str) and v in ("True", "False") and _tdtype(c) == "bool":
        return "1" if v == "True" else "0"
    if _ncls(c) and c["labels"] not in ("int", "bool"):
        if isinstance(v, str):
            try:
                return str(_lab_in(v, _labspec(c)))
            except Exception:
                return "T:str:" + _safe(v)
        return "T:%s:%s" % (type(v).__name__.replace("64", "").replace("numpy.", ""), v)
    if isinstance(v, str):
        try:
            return show_rat(Fraction(v))
        except Exception:
            return "T:str:" + v
    if isinstance(v, (bool, np.bool_)):
        return "T:bool:%s" % v
    if isinstance(v, (float, np.floating)):
        return show_rat(float(v))
    return show_rat(int(v))


def _shape_tag(x):
    """None for a one-dimensional sequence; else a tag that names the shape of a malformed record field"""
    try:
        nd = np.ndim(x)
    except Exception:
        return "T:shape?"
    if nd == 1 or isinstance(x, (list, tuple, range)):
        return None
    return "T:shape(%s)" % "x".join(str(k) for k in np.shape(x))


def _vals(l, c):
    tag = _shape_tag(l)
    if tag:   # e.g. a 0-d array where one value per instance belongs
        flat = np.asarray(l, dtype=object).ravel().tolist()
        return tag + ":" + ";".join(_val(v, c) for v in flat)
    l = list(l)
    return "-" if not l else ",".join(_val(v, c) for v in l)


def _ints(l):
    tag = _shape_tag(l)
    if tag:
        return tag + ":" + ";".join(str(v) for v in np.asarray(l, dtype=object).ravel().tolist())
    l = list(l)
    try:
        return "-" if not l else ",".join(str(int(v)) for v in l)
    except Exception:
        return "T:index:" + ";".join(_safe(v) for v in l)


def _alias_hdd_key(key, c):
    """<strategy>/<dataset>/<strategy>_<part>_<fold> with the real names replaced by the aliases; anything else is
    made harmless and matches no expected key"""
    smap, dmap = _aliases(c)
    parts = key.split(os.sep)
    if len(parts) == 3 and parts[0] in smap and parts[1] in dmap and parts[2].startswith(parts[0] + "_"):
        rest = parts[2][len(parts[0]) + 1:]
        if all(ch.isalnum() or ch == "_" for ch in rest):
            return "%s/%s/%s_%s" % (smap[parts[0]], dmap[parts[1]], smap[parts[0]], rest)
    return "/".join(_safe(x) for x in parts)


def _alias_name(n, m):
    return m[n] if n in m else _safe(n)


def _snapshot_hdd(path, c):
    """files under the results path, read WITHOUT sktime: {key: (content string, change token)}"""
    import joblib
    recs, strats = {}, {}
    for root, _dirs, files in os.walk(path):
        for fn in files:
            full = os.path.join(root, fn)
            rel = os.path.relpath(full, path)
            if rel == "results.pickle":
                continue
            key, ext = os.path.splitext(rel)
            key = _alias_hdd_key(key, c)
            st = os.stat(full)
            raw = open(full, "rb").read()
            tok = (st.st_mtime_ns, raw)
            if ext == ".csv":
                with open(full, newline="") as fh:
                    rows = list(csv.DictReader(fh))
                strs = lambda col: [r[col] for r in rows]
                conv = lambda l: _vals(l, c)
                recs[key] = ("%s@%s@%s" % (_ints(strs("index")), conv(strs("y_true")), conv(strs("y_pred"))), tok)
            elif ext == ".pickle":
                obj = joblib.load(full)
                strats[key] = (show_rat(obj.estimator.w_), tok)
            else:
                recs["?" + rel] = ("?", tok)
    return recs, strats


def _snapshot_ram(res, c):
    recs = {}
    for key, w in res.results.items():
        # RAMResults keys are tuples (strategy, dataset, part, str(fold)); any other scheme is shown as it is
        # and then matches no expected key
        if isinstance(key, tuple) and len(key) == 4:
            smap, dmap = _aliases(c)
            key = "+".join([_alias_name(key[0], smap), _alias_name(key[1], dmap), str(key[2]), str(key[3])])
        elif isinstance(key, tuple):
            key = "+".join(_safe(x) for x in key)
        elif not isinstance(key, str):
            key = repr(key).replace(" ", "")
        recs[key] = ("%s@%s@%s" % (_ints(w.index), _vals(w.y_true, c), _vals(w.y_pred, c)), w)
    return recs, {}


def _changed(prev, cur):
    out = []
    for k, (_content, tok) in cur.items():
        if k not in prev:
            out.append(k)
        else:
            ptok = prev[k][1]
            same = (ptok is tok) if not isinstance(tok, tuple) else (ptok == tok)
            if not same:
                out.append(k)
    return out


def _join(l, sep):
    l = list(l)
    return sep.join(l) if l else "-"


def _load_all(res, c, nfolds):
    smap, dmap = _aliases(c)
    out = []
    for f in range(nfolds):
        for part in ("train", "test"):
            try:
                rs = []
                for w in res.load_predictions(f, part):
                    rs.append("%s~%s~%s~%s~%s" % (_alias_name(w.strategy_name, smap), _alias_name(w.dataset_name, dmap), _ints(w.index), _vals(w.y_true, c), _vals(w.y_pred, c)))
                s = _join(sorted(rs), "&")
            except (KeyError, FileNotFoundError):
                s = "E:missing"
            except Exception as e:
                s = canon_err(e)
            out.append("%d%s=%s" % (f, part, s))
    return _join(out, "|")


def _run_init(c):
    from sktime.benchmarking.orchestration import Orchestrator
    from sktime.benchmarking.results import RAMResults
    from sktime.benchmarking.data import RAMDataset
    from sktime.benchmarking.tasks import TSCTask
    from sktime.benchmarking.strategies import TSCStrategy
    Cl, _ = _classes()
    df = pd.DataFrame({"c0": [0, 1, 2, 3], "target": [0, 1, 0, 1]})
    try:
        Orchestrator([TSCTask(target="target") for _ in range(c["ntasks"])],
                     [RAMDataset(df, "d%d" % i) for i in range(c["ndatasets"])],
                     [TSCStrategy(Cl(p=i, ncls=2), name=n) for i, n in enumerate(c["names"])],
                     None, RAMResults())
        return "ok"
    except Exception as e:
        return _ERR.get(type(e).__name__, canon_err(e))


def run_real(c):
    if c["kind"] == "init":
        return _run_init(c)
    from sktime.benchmarking.orchestration import Orchestrator
    from sktime.benchmarking.results import HDDResults, RAMResults
    import joblib
    hdd = c["store"] == "hdd"
    root = tempfile.mkdtemp(prefix="c19-") if hdd else None
    path = None
    if hdd:   # the results directory may carry characters that are special to glob / regex / shells
        path = os.path.join(root, c.get("resdir") or "results")
        os.makedirs(path)
    smap, dmap = _aliases(c)
    sreg = lambda names: _join(sorted(_alias_name(n, smap) for n in names), ",")
    dreg = lambda names: _join(sorted(_alias_name(n, dmap) for n in names), ",")
    logging.disable(logging.WARNING)
    out = []
    try:
        res = None
        prev_recs, prev_strats = {}, {}
        nfolds = _nfolds(c)
        for i, run in enumerate(c["runs"]):
            tasks, datasets, strategies, cv = _build(c, run)
            if res is None or run["fresh"]:
                res = HDDResults(path) if hdd else RAMResults()
                if not hdd:
                    prev_recs, prev_strats = {}, {}
            _STATE["n"] = 0; _STATE["fail"] = run["fail"]; _STATE["log"] = []; _STATE["cols"] = set()
            if c["cv"]["kind"] in ("kfold-unseeded", "single-unseeded"):
                np.random.seed(c["cv"]["rs"])
            try:
                orch = Orchestrator(tasks, datasets, strategies, cv, res)
                orch.fit_predict(overwrite_predictions=run["owP"], predict_on_train=run["pot"],
                                 save_fitted_strategies=run["saveF"], overwrite_fitted_strategies=run["owF"])
                outcome = "ok"
            except Exception as e:
                outcome = _ERR.get(type(e).__name__, canon_err(e))
            finally:
                _STATE["fail"] = None
            calls = list(_STATE["log"])
            recs, strats = _snapshot_hdd(path, c) if hdd else _snapshot_ram(res, c)
            wr = ["rec:" + k for k in _changed(prev_recs, recs)] + ["str:" + k for k in _changed(prev_strats, strats)]
            prev_recs, prev_strats = recs, strats
            master, reload_ = "none", "none"
            if hdd and os.path.isfile(os.path.join(path, "results.pickle")):
                m = joblib.load(os.path.join(path, "results.pickle"))
                master = "%s+%s" % (sreg(m.strategy_names), dreg(m.dataset_names))
                # what another process reads back: a NEW results object over the path, registry from the master file
                other = HDDResults(path)
                other.strategy_names, other.dataset_names = list(m.strategy_names), list(m.dataset_names)
                reload_ = _load_all(other, c, nfolds)
            out += [
                "r%d.out=%s" % (i, outcome),
                "r%d.calls=%s" % (i, _join(calls, "|")),
                "r%d.wr=%s" % (i, _join(sorted(wr), "|")),
                "r%d.recs=%s" % (i, _join(sorted(k + "@" + v[0] for k, v in recs.items()), "|")),
                "r%d.strats=%s" % (i, _join(sorted(k + "@" + v[0] for k, v in strats.items()), "|")),
                "r%d.master=%s" % (i, master),
                "r%d.reg=%s+%s" % (i, sreg(res.strategy_names), dreg(res.dataset_names)),
                "r%d.load=%s" % (i, _load_all(res, c, nfolds)),
                "r%d.reload=%s" % (i, reload_),
                # real side only (not compared with the model): the column names the estimators were handed
                "r%d.cols=%s" % (i, _join(sorted(",".join(t) for t in _STATE["cols"]), "|")),
            ]
    except Exception as e:  # construction problems (e.g. invalid names in a history case)
        out.append("E:setup:" + canon_err(e))
    finally:
        logging.disable(logging.NOTSET)
        if root is not None:
            shutil.rmtree(root, ignore_errors=True)
    return " ".join(out)


# ----------------------------------------------------------------------------- driver line
def _rat(v):
    return show_rat(v)


def to_line(c):
    if c["kind"] == "init":
        return "C19 init %d %d %s" % (c["ntasks"], c["ndatasets"], _join(c["names"], ","))
    if c.get("labels") == "numstr" or (c.get("labels") == "nastr" and c["store"] == "hdd"):
        return None  # the model has no notion of csv type inference / missing-value spellings; oracle only
    dss = []
    for d in c["datasets"]:
        rows = "|".join(",".join(_rat(v) for v in r) for r in d["rows"])
        feats = "all" if d["feats"] is None else ".".join(str(i) for i in d["feats"])
        dss.append("%s:%d:%s:%s:%s" % (d["name"], d["tpos"], feats, rows, d.get("labels") or "-"))
    sts = ["%s:%d" % (s["name"], s["p"]) for s in c["strategies"]]
    cv = c["cv"]
    if cv["kind"] == "kfold" and not cv.get("shuffle"):
        cvs = "kfold:%d" % cv["k"]
    elif cv["kind"] == "single" and not cv.get("shuffle"):
        cvs = "single:%d" % cv["t"]
    elif cv["kind"] == "presplit":
        cvs = "presplit:%s" % ("none" if cv["k"] is None else cv["k"])
    elif cv["kind"] in _PERCALL:  # another split per call of cv.split: folds per dataset and strategy
        fstr = lambda fs: _join(["%s>%s" % (_ints(a), _ints(b)) for a, b in fs], "|")
        cvs = "givenps:" + ";".join("!".join(fstr(_folds(c, d, si)) for si in range(len(c["strategies"]))) for d in c["datasets"])
    else:  # library randomness: the folds are data for the model
        cvs = "given:" + ";".join(_join(["%s>%s" % (_ints(a), _ints(b)) for a, b in _folds(c, d)], "|") for d in c["datasets"])
    runs = ["%s%s%s%s:%s:%s:%d" % (show_bool(r["owP"]), show_bool(r["owF"]), show_bool(r["saveF"]), show_bool(r["pot"]),
                                   "none" if r["fail"] is None else r["fail"], show_bool(r["fresh"]), _ns(c, r)) for r in c["runs"]]
    lrn = "cls:%d" % c["learner"][1] if c["learner"][0] == "cls" else "reg"
    return "C19 hist %s %s %s %s %s %s" % (c["store"], lrn, _join(dss, ";"), _join(sts, ";"), cvs, _join(runs, ";"))


# ----------------------------------------------------------------------------- comparison (unordered sections sorted)
def _parse(out):
    d = {}
    for tok in out.split(" "):
        if "=" not in tok:
            d.setdefault("_bad", []).append(tok)
            continue
        k, v = tok.split("=", 1)
        d[k] = v
    return d


def _canon(out):
    if out in ("ok",) or out.startswith("E:"):
        return out
    d = _parse(out)
    res = []
    for k in sorted(d):
        v = d[k]
        sec = k.split(".", 1)[-1]
        if sec == "cols":
            continue
        if sec in ("wr", "recs", "strats"):
            v = _join(sorted(set([] if v == "-" else v.split("|"))), "|")
        elif sec in ("master", "reg") and v != "none":
            a, b = v.split("+")
            v = "%s+%s" % (_join(sorted([] if a == "-" else a.split(",")), ","), _join(sorted([] if b == "-" else b.split(",")), ","))
        elif sec in ("load", "reload") and v != "none":
            ents = []
            for e in ([] if v == "-" else v.split("|")):
                fk, r = e.split("=", 1)
                if not r.startswith("E:") and r != "-":
                    r = "&".join(sorted(r.split("&")))
                ents.append(fk + "=" + r)
            v = _join(ents, "|")
        res.append(k + "=" + str(v))
    return " ".join(res)


def compare(real, model):
    return _canon(real) == _canon(model)


# ----------------------------------------------------------------------------- oracle (property text on real observations)
def _honest(c):
    """{(s, d, fold, part): 'idx@ytrue@ypred'}, {(s, d, fold): w}, call signatures, from the case alone:
    fit a fresh estimator on the fold's training instances, predict the part's instances."""
    ncls = _ncls(c)
    recs, ws, sig = {}, {}, {}
    for d in c["datasets"]:
        ncols = len(d["rows"][0])
        fcols = d["feats"] if d["feats"] is not None else [i for i in range(ncols) if i != d["tpos"]]
        X = [[r[i] for i in fcols] for r in d["rows"]]
        y = [r[d["tpos"]] for r in d["rows"]]
        for s in c["strategies"]:
            for f, (tr, te) in enumerate(_folds(c, d, [x["name"] for x in c["strategies"]].index(s["name"]))):
                w = Fraction(s["p"]) + _fit_chk([X[i] for i in tr], [y[i] for i in tr])
                ws[(s["name"], d["name"], f)] = show_rat(w)
                sig[(s["name"], d["name"], f, "fit")] = "f:%d:%d:%d:%s:0" % (s["p"], len(tr), len(fcols), show_rat(_fit_chk([X[i] for i in tr], [y[i] for i in tr])))
                for part, idx in (("train", tr), ("test", te)):
                    pred = _predict_rows(w, [X[i] for i in idx], ncls)
                    recs[(s["name"], d["name"], f, part)] = "%s@%s@%s" % (
                        _ints(idx), _join([show_rat(Fraction(y[i])) for i in idx], ","), _join([show_rat(v) for v in pred], ","))
                    sig[(s["name"], d["name"], f, part)] = "p:%d:%d:%d:%s:0" % (s["p"], len(idx), len(fcols), show_rat(_pred_chk([X[i] for i in idx])))
    return recs, ws, sig


def _key_str(c, s, d, f, part):
    return "%s/%s/%s_%s_%d" % (s, d, s, part, f) if c["store"] == "hdd" else "%s+%s+%s+%d" % (s, d, part, f)


def _section(d, i, name, sep="|"):
    v = d.get("r%d.%s" % (i, name), "-")
    return [] if v == "-" else v.split(sep)


def _shape_fault(content):
    """which field of a stored record 'idx@y_true@y_pred' is not one value per recorded instance (None = all are)"""
    parts = content.split("@")
    if len(parts) != 3:
        return "record"
    names = ("index", "y_true", "y_pred")
    for nm, p_ in zip(names, parts):
        if p_.startswith("T:shape") or p_.startswith("T:index"):
            return nm
    lens = [0 if p_ == "-" else len(p_.split(",")) for p_ in parts]
    if lens[2] != lens[0]:
        return "y_pred"
    if lens[1] != lens[0]:
        return "y_true"
    return None


def _na_masked_equal(c, exp, got):
    """scheme "nastr" on disk: `got` (what load_predictions returned) equals `exp` (what is stored) except that
    values stored as a label spelled like a missing cell came back as NaN - and nothing else differs"""
    if c.get("labels") != "nastr" or got is None or got.startswith("E:"):
        return False
    na_idx = set(str(i) for i, nm in enumerate(c["labnames"]) if nm in _NA_LIKE)
    ee, gg = exp.split("&"), got.split("&")
    if len(ee) != len(gg):
        return False
    hit = False
    for e, g in zip(ee, gg):
        ef, gf = e.split("~"), g.split("~")
        if len(ef) != 5 or len(gf) != 5 or ef[:3] != gf[:3]:
            return False
        for ev, gv in zip(ef[3:], gf[3:]):
            el, gl = ev.split(","), gv.split(",")
            if len(el) != len(gl):
                return False
            for a, b in zip(el, gl):
                if a == b:
                    continue
                if b == "T:float:nan" and a in na_idx:
                    hit = True
                    continue
                return False
    return hit


def oracle(c, out):
    fails = []
    if c["kind"] == "init":
        names = c["names"]
        bad = (c["ntasks"] != c["ndatasets"] or len(set(names)) != len(names) or any("__" in n for n in names)
               or any(n in ("estimator", "name") for n in names))
        if bad and out == "ok":
            fails.append(("Orchestrator.__init__:invalid-accepted", "invalid configuration accepted: %r" % (c,)))
        if not bad and out != "ok":
            fails.append(("Orchestrator.__init__:valid-rejected", "valid configuration rejected: %s" % out))
        return fails
    if out.startswith("E:setup"):
        return [("harness:setup", out)]
    d = _parse(out)
    hdd = c["store"] == "hdd"
    hon_recs, hon_w, sig = _honest(c)
    all_items = [(s["name"], dd["name"], f) for dd in c["datasets"] for s in c["strategies"] for f in range(len(_folds(c, dd)))]
    key2item = {}
    collide = False
    for (s, dn, f) in all_items:
        for part in ("train", "test"):
            k = _key_str(c, s, dn, f, part)
            if k in key2item:
                collide = True
            key2item.setdefault(k, []).append((s, dn, f, part))
    prev_master, prev_reg = "none", "-+-"
    old_ram_keys = {}   # the joined-string scheme RAMResults used before the tuple keys
    for (s, dn, f) in all_items:
        for part in ("train", "test"):
            old_ram_keys.setdefault("%s_%s_%s_%d" % (s, dn, part, f), []).append((s, dn, f, part))
    requested_ever = set()   # (s, d, f, part) requested by some run so far
    strat_ever = False
    prev_recs, prev_strats = {}, {}
    some_fresh_resume = False
    for i, run in enumerate(c["runs"]):
        names_i = [s["name"] for s in c["strategies"][:_ns(c, run)]]
        items = [it for it in all_items if it[0] in names_i]
        outcome = d.get("r%d.out" % i)
        if outcome is None:
            fails.append(("harness:missing-run", "no output for run %d" % i)); break
        recs = dict(e.split("@", 1) for e in _section(d, i, "recs"))
        strats = dict(e.split("@", 1) for e in _section(d, i, "strats"))
        wr = set(_section(d, i, "wr"))
        calls = _section(d, i, "calls")
        if run["fresh"] and not hdd:
            prev_recs, prev_strats = {}, {}
        if i > 0 and run["fresh"] and hdd:
            some_fresh_resume = True
        parts = ["train", "test"] if run["pot"] else ["test"]
        rejected = (run["owF"] and not run["saveF"]) or (not hdd and run["saveF"])
        if not rejected:
            for (s, dn, f) in items:
                for part in parts:
                    requested_ever.add((s, dn, f, part))
            strat_ever = strat_ever or run["saveF"]
        site = "fit_predict"
        # ---- an explicit rejection of an option combination stores nothing new and calls at most one fit
        if run["owF"] and not run["saveF"]:
            if outcome == "ok":
                pass  # the text does not demand the rejection
        # ---- every stored record is the honest record of its (strategy, dataset, fold, part); exactly one per key
        for k, content in recs.items():
            its = key2item.get(k)
            if not its and not hdd and len(old_ram_keys.get(k, [])) > 1:
                fails.append(("RAMResults._generate_key:collision",
                              "run %d: joined-string key %s stands for %r: one record for several (strategy, dataset, fold, part)" % (i, k, old_ram_keys[k])))
                continue
            if not its:
                fails.append((site + ":record-under-unknown-key", "run %d: record %s is not the key of any strategy/dataset/fold/part" % (i, k)))
                continue
            if len(its) > 1:
                fails.append(("generate_key:collision",
                              "run %d: key %s stands for %r: one record for several (strategy, dataset, fold, part)" % (i, k, its)))
                continue
            if its[0] not in requested_ever:
                fails.append((site + ":record-not-requested", "run %d: record %s stored but never requested" % (i, k)))
            fault = _shape_fault(content)
            if fault and content != hon_recs[its[0]]:
                # one value per recorded instance: the clone's predict gives len(idx) predictions, in one dimension
                fails.append((site + (":stored-prediction-shape-differs-from-clone-predict" if fault == "y_pred"
                                      else ":stored-record-field-not-one-value-per-instance"),
                              "run %d: record %s = %s: %s is not one value per recorded instance; fitting a clone on the "
                              "fold's training instances and predicting the recorded instances gives %s" % (i, k, content, fault, hon_recs[its[0]])))
            elif content != hon_recs[its[0]]:
                key = site + ":record-differs-from-honest-fold"
                if c["labels"] == "numstr" and "T:" in content:
                    key = "HDDResults.save_predictions:numeric-string-labels-read-back-as-numbers"
                fails.append((key, "run %d: record %s = %s, honest fit/predict gives %s" % (i, k, content, hon_recs[its[0]])))
        for k, w in strats.items():
            its = [(s, dn, f) for (s, dn, f) in all_items if _key_str(c, s, dn, f, "train") == k]
            if len(its) != 1:
                fails.append((site + ":strategy-under-unknown-key", "run %d: saved strategy %s" % (i, k))); continue
            if not strat_ever:
                fails.append((site + ":strategy-saved-unrequested", "run %d: %s saved although save_fitted_strategies was never set" % (i, k)))
            if w != hon_w[its[0]]:
                fails.append((site + ":saved-strategy-differs-from-honest-fit", "run %d: %s learned %s, honest fit learns %s" % (i, k, w, hon_w[its[0]])))
        # ---- the X handed to an estimator has the task's feature columns in DATA order (explicit features: given order)
        exp_cols = set()
        for dd in c["datasets"]:
            nc = len(dd["rows"][0]); cn = dd.get("colnames") or ["c%d" % j for j in range(nc - 1)]
            byname = cn[:dd["tpos"]] + ["target"] + cn[dd["tpos"]:]
            fpos = dd["feats"] if dd["feats"] is not None else [j for j in range(nc) if j != dd["tpos"]]
            exp_cols.add(",".join(byname[j] for j in fpos))
        for seen in _section(d, i, "cols"):
            if seen not in exp_cols:
                fails.append(("strategy:estimator-sees-other-columns-or-order",
                              "run %d: an estimator was handed columns [%s]; the datasets' feature columns in data order are %r" % (i, seen, sorted(exp_cols))))
                break
        # ---- only the documented estimator methods are called: fit, and predict for every stored prediction
        for cl in calls:
            if not cl.startswith(("f:", "p:")):
                fails.append((site + ":undocumented-estimator-method-called",
                              "run %d: the orchestrator called %s (q = predict_proba); stored predictions must come from predict" % (i, cl)))
                break
        # ---- every fit is on a fresh clone
        for cl in calls:
            if cl.startswith("f:") and not cl.endswith(":0"):
                fails.append(("_iter:fit-on-already-fitted-instance", "run %d: call %s re-fits an estimator instance" % (i, cl)))
                break
        ow = run["owP"] or run["owF"]
        # ---- which items/parts were complete before this run (what the existence checks can see)
        def have(s, dn, f, part):
            return hdd and _key_str(c, s, dn, f, part) in prev_recs
        def have_strat(s, dn, f):
            return hdd and _key_str(c, s, dn, f, "train") in prev_strats
        def complete(s, dn, f):
            return all(have(s, dn, f, p) for p in parts) and (have_strat(s, dn, f) or not run["saveF"])
        if hdd and not ow:
            # completed records and saved strategies are neither recomputed nor modified
            for k, content in prev_recs.items():
                if "rec:" + k in wr or recs.get(k) != content:
                    fails.append((site + ":completed-record-touched", "run %d (no overwrite): record %s existed and was rewritten/changed" % (i, k)))
            for k, w in prev_strats.items():
                if "str:" + k in wr or strats.get(k) != w:
                    fails.append((site + ":completed-strategy-touched", "run %d (no overwrite): saved strategy %s existed and was rewritten/changed" % (i, k)))
        if outcome == "ok" and not rejected and not collide:
            # ---- exactly one record per requested key after a completed run
            for (s, dn, f) in items:
                for part in parts:
                    if _key_str(c, s, dn, f, part) not in recs:
                        fails.append((site + ":record-missing", "run %d completed but no record for %r" % (i, (s, dn, f, part))))
                if run["saveF"] and hdd and _key_str(c, s, dn, f, "train") not in strats:
                    fails.append((site + ":fitted-strategy-missing", "run %d completed but no saved strategy for %r" % (i, (s, dn, f))))
            # ---- exactly the missing ones are produced; with overwrite everything is recomputed
            exp_calls, exp_wr = [], set()
            for (s, dn, f) in items:
                if not ow and complete(s, dn, f):
                    continue
                exp_calls.append(sig[(s, dn, f, "fit")])
                if run["saveF"] and (run["owF"] or not have_strat(s, dn, f)):
                    exp_wr.add("str:" + _key_str(c, s, dn, f, "train"))
                for part in parts:
                    if run["owP"] or not have(s, dn, f, part):
                        exp_calls.append(sig[(s, dn, f, part)])
                        exp_wr.add("rec:" + _key_str(c, s, dn, f, part))
            if sorted(calls) != sorted(exp_calls):
                if not exp_calls:
                    key = site + ":rerun-performs-calls"
                elif run["owP"]:
                    key = site + ":overwrite-does-not-recompute-all"
                else:
                    key = site + ":not-exactly-the-missing-computed"
                fails.append((key, "run %d: estimator calls %r, expected (as a multiset) %r" % (i, calls, exp_calls)))
            if wr != exp_wr:
                fails.append((site + ":not-exactly-the-missing-written", "run %d: written %r, expected %r" % (i, sorted(wr), sorted(exp_wr))))
            # ---- registry and master file name everything that is stored; load_predictions reads back what was stored
            reg = d.get("r%d.reg" % i)
            # the registry must name every strategy and dataset that has something stored
            stored = [it4 for k in recs for it4 in key2item.get(k, [])]
            all_s = sorted(set(x[0] for x in stored)); all_d = sorted(set(x[1] for x in stored))
            want = "%s+%s" % (_join(all_s, ","), _join(all_d, ","))
            wrote_names = set()
            for w_ in wr:
                k = w_.split(":", 1)[1]
                for (s, dn, f, part) in key2item.get(k, []):
                    wrote_names.add(s); wrote_names.add(dn)
            def names_of(observed):
                if observed in (None, "none"):
                    return set()
                a, b = observed.split("+")
                return (set(a.split(",")) | set(b.split(","))) - {"-"}
            def reg_key(observed):
                got = names_of(observed)
                missing = (set(all_s) | set(all_d)) - got
                extra = got - (set(all_s) | set(all_d))
                # the known defect: names of work that was complete before a crash were never persisted (not in
                # the master file, not in the live registry) and nothing was saved for them in this run
                known_before = names_of(prev_master) | (set() if run["fresh"] else names_of(prev_reg))
                if hdd and some_fresh_resume and missing and not extra and not (missing & (wrote_names | known_before)):
                    return "registry:names-of-skipped-work-missing-after-new-results-object"
                return "registry:mismatch"
            if items:
                if reg != want:
                    fails.append((reg_key(reg), "run %d completed: registry %s, stored strategies/datasets %s" % (i, reg, want)))
                if hdd and d.get("r%d.master" % i) != want:
                    fails.append((reg_key(d.get("r%d.master" % i)).replace("registry:", "master-file:"),
                                  "run %d completed: master file names %s, stored %s" % (i, d.get("r%d.master" % i), want)))
                loads = dict(e.split("=", 1) for e in _section(d, i, "load"))
                for f in range(_nfolds(c)):
                    for part in ("train", "test"):
                        pairs = [(s, dn) for s in all_s for dn in all_d]
                        if not pairs or not all(_key_str(c, s, dn, f, part) in recs for (s, dn) in pairs):
                            continue
                        exp = sorted("%s~%s~%s" % (s, dn, recs[_key_str(c, s, dn, f, part)].replace("@", "~")) for (s, dn) in pairs)
                        got = loads.get("%d%s" % (f, part))
                        if got != "&".join(exp):
                            k = "load_predictions:differs-from-stored"
                            if reg != want and reg_key(reg).startswith("registry:names-of-skipped"):
                                k = "load_predictions:omits-skipped-work-after-new-results-object"
                            elif c["labels"] == "numstr" and got and "T:" in got:
                                k = "HDDResults.load_predictions:numeric-string-labels-read-back-as-numbers"
                            elif hdd and _na_masked_equal(c, "&".join(exp), got):
                                k = "HDDResults.load_predictions:na-like-labels-read-back-as-missing"
                            fails.append((k, "run %d: load_predictions(%d, %s) = %s, stored %s" % (i, f, part, got, "&".join(exp))))
                # ---- and so does a NEW results object over the same path that takes the names from the master file
                mst = d.get("r%d.master" % i, "none")
                if hdd and mst != "none":
                    ma, mb = mst.split("+")
                    m_s = [] if ma == "-" else ma.split(","); m_d = [] if mb == "-" else mb.split(",")
                    reloads = d.get("r%d.reload" % i, "none")
                    reloads = {} if reloads in ("none", "-") else dict(e.split("=", 1) for e in reloads.split("|"))
                    for f in range(_nfolds(c)):
                        for part in ("train", "test"):
                            pairs = [(s, dn) for s in m_s for dn in m_d]
                            if not pairs or not all(_key_str(c, s, dn, f, part) in recs for (s, dn) in pairs):
                                continue
                            exp = sorted("%s~%s~%s" % (s, dn, recs[_key_str(c, s, dn, f, part)].replace("@", "~")) for (s, dn) in pairs)
                            got = reloads.get("%d%s" % (f, part))
                            if got is not None and not got.startswith("E:"):
                                got = "&".join(sorted(got.split("&")))
                            if got != "&".join(exp):
                                k = "load_predictions:new-results-object-differs-from-stored"
                                if c["labels"] == "numstr" and got and "T:" in got:
                                    k = "HDDResults.load_predictions:numeric-string-labels-read-back-as-numbers"
                                elif _na_masked_equal(c, "&".join(exp), got):
                                    k = "HDDResults.load_predictions:na-like-labels-read-back-as-missing"
                                fails.append((k, "run %d: a new HDDResults over the path gives load_predictions(%d, %s) = %s, stored %s" % (i, f, part, got, "&".join(exp))))
        prev_recs, prev_strats = recs, strats
        prev_master, prev_reg = d.get("r%d.master" % i, "none"), d.get("r%d.reg" % i, "-+-")
    # dedupe by key keeping first
    seen, res = set(), []
    for k, m in fails:
        if k not in seen:
            seen.add(k); res.append((k, m))
    return res


def nontrivial(c, out):
    if c["kind"] != "hist":
        return False
    d = _parse(out)
    return any(d.get("r%d.out" % i) == "ok" and d.get("r%d.recs" % i, "-") != "-" for i in range(len(c["runs"])))


def features(c, out):
    if c["kind"] == "init":
        return ["init=" + out]
    d = _parse(out)
    _rowidx_feats = ["names=" + ("special" if any("real" in x for x in c["strategies"] + c["datasets"]) else "plain"),
                     "resdir=" + ("special" if c.get("resdir") else "plain")]
    for dd in c["datasets"]:
        cn = dd.get("colnames")
        _rowidx_feats.append("colnames=" + ("default" if not cn else ("sorted" if cn == sorted(cn) else "unsorted")) +
                             ("/feats=none" if dd["feats"] is None else "/feats=explicit"))
    for dd in c["datasets"]:
        ri = dd.get("rowidx")
        f_ri = "range" if ri is None and not dd.get("labels") else ("train/test" if ri is None else
               ("str" if isinstance(ri[0], str) else ("dup-int" if len(set(ri)) < len(ri) else
               ("perm-int" if sorted(ri) == list(range(len(ri))) else "other-int"))))
        _rowidx_feats.append("rowidx=" + f_ri)
    f = _rowidx_feats + ["target=%s/%s" % (c["learner"][0], _tdtype(c) if c["labels"] not in ("str", "numstr", "nastr") else c["labels"]),
                         "proba=" + str(c.get("proba")) if _ncls(c) else "proba=n/a", "store=" + c["store"], "cv=" + c["cv"]["kind"] + ("-shuffle" if c["cv"].get("shuffle") else ""),
         "learner=" + c["learner"][0], "labels=" + c["labels"],
         "nstrat=%d" % len(c["strategies"]), "ndata=%d" % len(c["datasets"]), "nruns=%d" % len(c["runs"])]
    if c["labels"] == "nastr":
        f.append("na-like-labels=%d/%d" % (sum(1 for nm in c["labnames"] if nm in _NA_LIKE), len(c["labnames"])))
    sizes = [len(p_) for dd in c["datasets"] for fs in [_folds(c, dd)] for tr_te in fs for p_ in tr_te]
    f.append("min-part-size=%s" % (min(sizes) if sizes else "-"))
    for i, r in enumerate(c["runs"]):
        f.append("out=" + str(d.get("r%d.out" % i)))
        f.append("opts=%s%s%s%s" % (show_bool(r["owP"]), show_bool(r["owF"]), show_bool(r["saveF"]), show_bool(r["pot"])))
        if r["fail"] is not None:
            f.append("failpoint=%s" % (r["fail"] if r["fail"] < 12 else "12+"))
        if i > 0:
            f.append("resume-fresh=%s" % r["fresh"])
    return f


# ----------------------------------------------------------------------------- generators
def _mk_rows(rng, n, ncols, tpos, ncls):
    rows = []
    for _ in range(n):
        r = [rng.randrange(-3, 6) for _ in range(ncols)]
        r[tpos] = rng.randrange(ncls) if ncls else rng.randrange(-8, 17) / 4
        rows.append(r)
    return rows


def _apply_tdtype(c, td):
    """give the target column dtype `td`; integer / bool targets get integral values, so that a regressor's
    fractional predictions differ from anything representable in the target's dtype"""
    ncls = _ncls_of(c)
    if td is None:
        return c
    c = dict(c, tdtype=td)
    if ncls:
        if td == "bool":
            c["labels"] = "bool"
        return c
    dss = []
    for d in c["datasets"]:
        rows = []
        for r in d["rows"]:
            r = list(r)
            v = r[d["tpos"]]
            if td in ("int64", "int32"):
                r[d["tpos"]] = int(round(v * 4))
            elif td == "bool":
                r[d["tpos"]] = int(round(v * 4)) % 2
            rows.append(r)
        dss.append(dict(d, rows=rows))
    c["datasets"] = dss
    return c


def _pick_tdtype(rng, ncls, labels):
    if ncls == 0:
        return rng.choice([None, "float32", "float32", "int64", "int64", "int32", "bool"])
    if labels != "int":
        return None
    if ncls == 2 and rng.random() < 0.3:
        return "bool"
    return rng.choice([None, "int64", "int32"])


def _rowidx(rng, n, kind=None):
    """row labels that differ from positions: label-based access with cv positions would hit other rows"""
    kind = kind or rng.choice(["perm", "perm", "offset", "gaps", "desc", "str", "dup", "permoff"])
    if kind == "perm":
        l = list(range(n)); rng.shuffle(l)
        if l == list(range(n)):
            l = l[1:] + l[:1]
        return l
    if kind == "offset":
        return list(range(1, n + 1))
    if kind == "gaps":
        return [2 * i + 3 for i in range(n)]
    if kind == "desc":
        return list(range(n - 1, -1, -1))
    if kind == "str":
        l = ["r%d" % i for i in range(n)]; rng.shuffle(l)
        return l
    if kind == "dup":
        return [i // 2 for i in range(n)]
    l = list(range(-2, n - 2)); rng.shuffle(l)
    return l


def _colnames(rng, k, kind=None):
    """names of the non-target columns, in data order, that are NOT in sorted order (a sorted() of the columns would
    permute them): reversed letters, dim_<i> with >= 11 columns (dim_10 < dim_2), mixed case, shuffled"""
    kind = kind or rng.choice(["default", "rev", "rev", "dim", "mixed", "shuffled"])
    if kind == "default" or k < 1:
        return None
    if kind == "rev":
        return [chr(ord("a") + k - 1 - j) for j in range(k)] if k <= 26 else None
    if kind == "dim":
        return ["dim_%d" % j for j in range(k)]
    if kind == "mixed":
        return [("x%d" % (10 * (k - j)) if j % 2 else "B%d" % j) for j in range(k)]
    l = ["f%d" % j for j in range(k)]
    rng.shuffle(l)
    return l


_REAL_S = ["tree[depth=1]", "k nn", "a*b", "q?", "r.f+", "(x)", "\u00fcn\u00ef-\u00e7", "[", "s]1[", "w{1,2}", "$HOME", "a b.c", "-x", "%s"]
_REAL_D = ["d[0]", "gun point", "e*", "c.1", "data(2)", "\u00f6l", "[a-z]", "x?", "t^1", "~d", "a&b", "#1"]
_REAL_DIR = ["res [1]", "r*", "x?(y)", "\u00fcn\u00ef", "a.b+c", "[0-9]", "out dir", "{a,b}"]


def _real_names(rng, c, prob=1.0):
    """give strategies, datasets and the results directory names with characters that are special somewhere
    (glob, regex, shell, format strings, spaces, unicode); the model keeps the plain aliases"""
    c = dict(c)
    if rng.random() < prob:
        rs = rng.sample(_REAL_S, len(c["strategies"]))
        c["strategies"] = [dict(x, real=r) for x, r in zip(c["strategies"], rs)]
    if rng.random() < prob:
        rd = rng.sample(_REAL_D, len(c["datasets"]))
        c["datasets"] = [dict(x, real=r) for x, r in zip(c["datasets"], rd)]
    if rng.random() < prob:
        c["resdir"] = rng.choice(_REAL_DIR)
    return c


def _dataset(rng, name, n, ncols, ncls, presplit=False, explicit=None, rowidx=None):
    tpos = rng.randrange(ncols)
    feats = None
    others = [i for i in range(ncols) if i != tpos]
    if explicit if explicit is not None else rng.random() < 0.35:
        feats = rng.sample(others, rng.randrange(1, len(others) + 1))
    labels = None
    if presplit:
        ntr = rng.randrange(2, n - 1 + 1) if n > 2 else 2
        labs = ["R"] * ntr + ["E"] * (n - ntr)
        rng.shuffle(labs)
        labels = "".join(labs)
    d = {"name": name, "tpos": tpos, "feats": feats, "rows": _mk_rows(rng, n, ncols, tpos, ncls), "labels": labels}
    cn = _colnames(rng, ncols - 1)
    if cn:
        d["colnames"] = cn
    if not presplit and rowidx is not False and (rowidx is not None or rng.random() < 0.55):
        d["rowidx"] = _rowidx(rng, n, rowidx)
    return d


def _opts(owP=False, owF=False, saveF=True, pot=False, fail=None, fresh=True, ns=None):
    r = {"owP": owP, "owF": owF, "saveF": saveF, "pot": pot, "fail": fail, "fresh": fresh}
    if ns is not None:
        r["ns"] = ns
    return r


def _ncalls(c, pot):
    n = 0
    for d in c["datasets"]:
        n += len(c["strategies"]) * len(_folds(c, d)) * (2 + (1 if pot else 0))
    return n


def _small_configs(rng, tier):
    """fixed small configurations (data drawn from rng, shapes fixed)"""
    cfgs = []
    # A: 2 strategies x 1 dataset x 2-fold
    cfgs.append({"store": "hdd", "learner": ["cls", 3], "labels": "int",
                 "datasets": [_dataset(rng, "d0", 4, 3, 3, explicit=False, rowidx="perm")],
                 "strategies": [{"name": "s0", "p": 1}, {"name": "s1", "p": 2}],
                 "cv": {"kind": "percall", "k": 2, "step": 1}, "proba": "last"})   # another split for every strategy
    # B: 1 strategy x 2 datasets x single split (regression)
    cfgs.append(_apply_tdtype({"store": "hdd", "learner": ["reg"], "labels": "int",
                 "datasets": [_dataset(rng, "da", 5, 2, 0, explicit=False, rowidx="gaps"),
                              _dataset(rng, "db", 4, 3, 0, explicit=True, rowidx="str")],
                 "strategies": [{"name": "only", "p": -1}],
                 "cv": {"kind": "single", "t": 2}}, "int64"))   # integer target, fractional predictions
    # C: 2 strategies x 1 dataset, pre-split files + inner 2-fold
    cfgs.append({"store": "hdd", "learner": ["cls", 2], "labels": "str",
                 "datasets": [_dataset(rng, "p0", 5, 2, 2, presplit=True, explicit=False)],
                 "strategies": [{"name": "a_x", "p": 0}, {"name": "b", "p": 3}],
                 "cv": {"kind": "presplit", "k": 2}, "proba": "decoupled"})
    if tier == "thorough":
        # D: 2 strategies x 2 datasets x 3-fold
        cfgs.append(_apply_tdtype({"store": "hdd", "learner": ["reg"], "labels": "int",
                     "datasets": [_dataset(rng, "d0", 6, 3, 0, rowidx=False), _dataset(rng, "d1", 7, 2, 0, rowidx="permoff")],
                     "strategies": [{"name": "s0", "p": 1}, {"name": "s1", "p": 4}],
                     "cv": {"kind": "kfold-unseeded", "k": 3, "rs": 11}}, "int32"))
    return cfgs


def _exhaustive(rng, tier):
    cases = []
    n = 0
    for cfg in [_real_names(rng, cf) for cf in _small_configs(rng, tier)]:
        for pot in (False, True):
            for saveF in (True, False):
                total = _ncalls(dict(cfg), pot)
                for k in range(1, total + 2):       # total+1: no call fails
                    for fresh in (True, False):
                        n += 1
                        if tier == "quick" and (n + rng.randrange(1 << 30)) % 3 != 0:
                            continue
                        runs = [_opts(saveF=saveF, pot=pot, fail=k, fresh=True),
                                _opts(saveF=saveF, pot=pot, fresh=fresh),
                                _opts(saveF=saveF, pot=pot, fresh=True),
                                _opts(owP=True, saveF=saveF, pot=pot, fresh=fresh)]
                        cases.append(dict(cfg, kind="hist", runs=runs))
                # two crashes in a row, then completion; then overwrite of fitted strategies
                for _ in range(3 if tier == "quick" else 12):
                    k1 = rng.randrange(1, total + 1); k2 = rng.randrange(1, total + 1)
                    runs = [_opts(saveF=saveF, pot=pot, fail=k1), _opts(saveF=saveF, pot=pot, fail=k2, fresh=rng.random() < 0.5),
                            _opts(saveF=saveF, pot=pot, fresh=rng.random() < 0.5)]
                    if saveF:
                        runs.append(_opts(owF=True, saveF=True, pot=pot, fresh=rng.random() < 0.5))
                    cases.append(dict(cfg, kind="hist", runs=runs))
        # a benchmark that grows: first run with one strategy, later runs add the others (master file is merged)
        if len(cfg["strategies"]) > 1 and not (cfg["cv"]["kind"] in _PERCALL and len(cfg["datasets"]) > 1):
            for saveF in (True, False):
                for fresh in (True, False):
                    for k in (None, 2, 3):
                        runs = [_opts(saveF=saveF, fail=None, ns=1), _opts(saveF=saveF, fail=k, fresh=fresh),
                                _opts(saveF=saveF, fresh=True), _opts(saveF=saveF, fresh=True, ns=1)]
                        cases.append(dict(cfg, kind="hist", runs=runs))
        # RAM: every failure point; nothing survives a new results object, nothing is skipped
        ram = dict(cfg, store="ram")
        total = _ncalls(ram, True)
        for k in range(1, total + 2):
            n += 1
            if tier == "quick" and (n + rng.randrange(1 << 30)) % 3 != 0:
                continue
            runs = [_opts(saveF=False, pot=True, fail=k), _opts(saveF=False, pot=True, fresh=False),
                    _opts(saveF=False, pot=False, fresh=True)]
            cases.append(dict(ram, kind="hist", runs=runs))
    return cases


def _na_names(rng, ncls):
    """class names of which at least one is spelled like a missing csv cell; the others plain or also NA-like"""
    k = rng.randrange(1, ncls + 1)
    names = rng.sample(_NA_LIKE, k) + rng.sample(_PLAIN, ncls - k)
    rng.shuffle(names)
    return names


_NAMES = ["s0", "s1", "knn", "rf", "a_b", "a", "m1", "Z"]
_DNAMES = ["d0", "d1", "gun", "b_c", "t_1", "c"]


def _random_case(rng):
    ncls = rng.choice([0, 2, 3])
    store = "hdd" if rng.random() < 0.75 else "ram"
    kind = rng.choice(["kfold", "kfold", "kfold-shuffle", "single", "single-shuffle", "presplit", "presplit-inner",
                       "percall", "percall", "kfold-unseeded", "single-unseeded"])
    nd = rng.choice([1, 1, 2, 2, 3]); ns = rng.choice([1, 2, 2, 3])
    if kind in _PERCALL:   # another split per (dataset, strategy): several of both
        nd = rng.choice([2, 2, 3]); ns = rng.choice([2, 2, 3])
    snames = rng.sample(_NAMES, ns)
    dnames = rng.sample(_DNAMES, nd)
    dss = []
    for nm in dnames:
        n = rng.randrange(5, 10)
        ncols = 13 if rng.random() < 0.1 else rng.randrange(2, 5)   # 13: dim_0..dim_11 sort as dim_0, dim_1, dim_10, ...
        dss.append(_dataset(rng, nm, n, ncols, ncls, presplit=kind.startswith("presplit")))
    if kind == "percall":
        cv = {"kind": "percall", "k": rng.choice([2, 3]), "step": rng.choice([1, 2, 3])}
    elif kind == "kfold-unseeded":
        cv = {"kind": "kfold-unseeded", "k": rng.choice([2, 3]), "rs": rng.randrange(100)}
    elif kind == "single-unseeded":
        cv = {"kind": "single-unseeded", "t": rng.choice([1, 2, 3]), "rs": rng.randrange(100)}
    elif kind.startswith("kfold"):
        loo = rng.random() < 0.2     # leave-one-out on the smallest dataset: parts of exactly one instance
        cv = {"kind": "kfold", "k": min(len(d["rows"]) for d in dss) if loo else rng.choice([2, 3]), "shuffle": kind.endswith("shuffle"), "rs": rng.randrange(100)}
    elif kind.startswith("single"):
        cv = {"kind": "single", "t": rng.choice([1, 2, 3]), "shuffle": kind.endswith("shuffle"), "rs": rng.randrange(100)}
    else:
        cv = {"kind": "presplit", "k": 2 if kind.endswith("inner") else None}
    c = {"kind": "hist", "store": store, "learner": ["cls", ncls] if ncls else ["reg"],
         "labels": rng.choice(["int", "int", "str", "nastr"]) if ncls else "int",
         "datasets": dss, "strategies": [{"name": nm, "p": rng.randrange(-3, 8)} for nm in snames], "cv": cv}
    if c["labels"] == "nastr":
        c["labnames"] = _na_names(rng, ncls)
    c = _apply_tdtype(c, _pick_tdtype(rng, ncls, c["labels"]))
    if ncls:
        pk = rng.choice([None, None, "last", "last", "decoupled"])
        if pk:
            c["proba"] = pk
    runs = []
    pot0 = rng.random() < 0.4
    saveF0 = rng.random() < 0.7 if store == "hdd" else rng.random() < 0.1
    for i in range(rng.choice([1, 2, 3, 3, 4, 5])):
        pot = pot0 if rng.random() < 0.8 else not pot0
        saveF = saveF0 if rng.random() < 0.85 else not saveF0
        owP = rng.random() < 0.15
        owF = rng.random() < (0.15 if saveF else 0.04)
        total = _ncalls(c, pot)
        fail = rng.randrange(1, total + 3) if rng.random() < 0.45 else None
        runs.append(_opts(owP=owP, owF=owF, saveF=saveF, pot=pot, fail=fail, fresh=(i == 0) or rng.random() < 0.6))
    if ns > 1 and rng.random() < 0.3 and kind not in _PERCALL:      # growing benchmark
        cur = 1
        for r in runs:
            r["ns"] = cur
            cur = min(ns, cur + rng.choice([0, 1, 1]))
    c["runs"] = runs
    return _real_names(rng, c, prob=0.5)


def _malformed(rng):
    cs = [{"kind": "init", "ntasks": 1, "ndatasets": 1, "names": ["a", "a"]},
          {"kind": "init", "ntasks": 1, "ndatasets": 1, "names": ["a", "b", "a"]},
          {"kind": "init", "ntasks": 1, "ndatasets": 1, "names": ["estimator"]},
          {"kind": "init", "ntasks": 1, "ndatasets": 1, "names": ["x", "name"]},
          {"kind": "init", "ntasks": 1, "ndatasets": 1, "names": ["a__b"]},
          {"kind": "init", "ntasks": 1, "ndatasets": 1, "names": ["a_b", "c"]},
          {"kind": "init", "ntasks": 2, "ndatasets": 1, "names": ["a"]},
          {"kind": "init", "ntasks": 1, "ndatasets": 2, "names": ["a", "b"]},
          {"kind": "init", "ntasks": 2, "ndatasets": 2, "names": ["a", "b"]},
          {"kind": "init", "ntasks": 0, "ndatasets": 0, "names": []},
          {"kind": "init", "ntasks": 1, "ndatasets": 1, "names": ["_", "__"]}]
    return cs


def gen_cases(tier, rng):
    cases = []
    cases += _exhaustive(rng, tier)
    for _ in range(200 if tier == "quick" else 2600):
        cases.append(_random_case(rng))
    cases += _malformed(rng)
    return cases


def is_exhaustive(tier):
    return tier == "thorough"


def shrink(c):
    if c["kind"] != "hist":
        return
    runs = c["runs"]
    if len(runs) > 1:
        yield dict(c, runs=runs[:-1])
        for i in range(len(runs) - 1):
            rs = runs[:i] + runs[i + 1:]
            rs[0] = dict(rs[0], fresh=True)
            yield dict(c, runs=rs)
    if len(c["strategies"]) > 1:
        for i in range(len(c["strategies"])):
            yield dict(c, strategies=c["strategies"][:i] + c["strategies"][i + 1:])
    if len(c["datasets"]) > 1:
        for i in range(len(c["datasets"])):
            yield dict(c, datasets=c["datasets"][:i] + c["datasets"][i + 1:])
    for i, r in enumerate(runs):
        if r["fail"] is not None and r["fail"] > 1:
            yield dict(c, runs=runs[:i] + [dict(r, fail=r["fail"] - 1)] + runs[i + 1:])
        for flag in ("owP", "owF", "pot"):
            if r[flag]:
                yield dict(c, runs=runs[:i] + [dict(r, **{flag: False})] + runs[i + 1:])
