"""C09 correspondence + oracle: composite forecasters mean exactly the composition of their parts
(sktime/forecasting/compose/_ensemble.py, _pipeline.py, _multiplexer.py, _stack.py,
forecasting/base/_meta.py, online_learning/_online_ensemble.py).

case = {"tree": node, "ops": [op, ...]}
  node = ["R", tag, a, b, c, d]                              recording leaf forecaster
       | ["E", agg, [[name, node], ...]]                     EnsembleForecaster (agg "online" = OnlineEnsembleForecaster)
       | ["O", alg "nnls"|"hedge", wtag, [[name, node], ...]]   OnlineEnsembleForecaster with a weighting algorithm (root only)
       | ["P", [[tag, k, m, upd, skip], ...], node]          TransformedTargetForecaster (recording transformers)
       | ["M", sel|None, [[name, node], ...]]                MultiplexForecaster
       | ["S", [[name, node], ...], [tag, p, q]]             StackingForecaster (recording meta-regressor)
  op   = ["fit", [[label, value], ...], fh|None, dt?, xdt?] | ["upd", [[label, value], ...], bool, dt?, xdt?] | ["pred", fh|None]
       | ["ups", [[label, value], ...], bool, fh|None, dt?]          update_predict_single(y_new, fh, update_params)
       | ["upm", [[label, value], ...], bool, cv|None, dt?]          update_predict(y, cv, update_params);
                                                                    cv = [kind "s"|"e", window_length, step_length, start_with_window, fh] | None (default splitter)
         dt  = dtype of the series as handed to the real code: "f8" (default) | "f4" | "i8" | "i4"  (integer-valued data for i*)
         xdt = None (default: no exogenous frame) | dtype of a 2-column exogenous frame on the same index
         dt / xdt are a harness-only dimension: the values are the same numbers, so the model line does not mention them;
         whatever dtype the series has, the parts must be handed exactly the same numbers.

The real composites are built over the recording estimators of harness/recorders_C09.py; the
observation is the output of every call (forecast labels+values / error kind) and, per call, the
ordered log of everything the recording leaves were handed.
"""
import itertools, re
from contextlib import contextmanager
from fractions import Fraction
import numpy as np, pandas as pd
from common import canon_err, show_rat, show_ints, show_bool, close

PROP = "C09"
LEAN_MODULE = "SkVerif.Props.C09"
OBLIGATIONS = [
    "SkVerif.C09.agg_mean_spec",
    "SkVerif.C09.agg_min_spec",
    "SkVerif.C09.agg_max_spec",
    "SkVerif.C09.agg_median_spec",
    "SkVerif.C09.agg_online_spec",
    "SkVerif.C09.ensemble_fit_members_fresh",
    "SkVerif.C09.ensemble_update_members",
    "SkVerif.C09.ensemble_predict_eq_aggregate",
    "SkVerif.C09.ensemble_members_independent",
    "SkVerif.C09.ensemble_eq_aggregate_of_members",
    "SkVerif.C09.pipeline_fit_eq_spec",
    "SkVerif.C09.pipeline_predict_eq_spec",
    "SkVerif.C09.pipeline_inner_sees_only_transformed",
    "SkVerif.C09.original_update_violated_invariant",
    "SkVerif.C09.multiplexer_selects_by_name",
    "SkVerif.C09.multiplexer_bisim_selected",
    "SkVerif.C09.multiplexer_passes_explicit_history_verbatim",
    "SkVerif.C09.stack_meta_trained_on_holdout_only_partial",
    "SkVerif.C09.stack_training_window_is_prefix",
    "SkVerif.C09.stack_members_refit_on_all",
    "SkVerif.C09.stack_predict_eq_regressor_of_members",
    "SkVerif.C09.stack_insample_horizon_leaks",
    "SkVerif.C09.combined_entry_points_are_fit_free",
    "SkVerif.C09.ensemble_setCutoff_members",
    "SkVerif.C09.member_receives_its_own_update_predict",
    "SkVerif.C09.online_predict_eq_weighted_sum",
]
TRUSTED = ["hand-written model SkVerif/Model/Compose.lean of the four composites and of the _SktimeForecaster bookkeeping they call",
           "harness/recorders_C09.py (recording leaves; their Lean twins recF/recT/recG are part of the model)",
           "SingleWindowSplitter is the C01 model (Model/Split.lean)"]
ASSUMPTIONS = ["the arithmetic of the online ensemble's weighting algorithms (NNLS, NormalHedge root finding) is a library black box: "
               "the weights the real algorithm holds after each of its updates are fed back to the model as data (tapeWeigher); theorems hold for every algorithm; "
               "online ensembles with an algorithm are exercised at the root of a composition only",
               "integer labels, relative integer horizons, no prediction intervals",
               "the dtype of the series (float64/float32/int64/int32) and the presence/dtype of an exogenous frame are varied on the real side only: "
               "the parts must be handed the same numbers whatever the dtype; what happens to the CONTENT of exogenous data is not modelled "
               "(recording leaves ignore it; StackingForecaster.fit rejects it)",
               "series handed to fit have strictly increasing contiguous labels (stacking holds out by position, members forecast by label)",
               "joblib Parallel(n_jobs=None) runs members sequentially in list order (log order)",
               "update_predict_single / update_predict are modelled as the histories of update / predict / _set_cutoff calls the base class makes "
               "(upsOps, upmOps; splitter windows from the C01 model); the composites' _set_cutoff poke of their members at the start of a "
               "non-empty update is absorbed by the member's own update (same cutoff) and not modelled separately",
               "member names are valid identifiers that do not clash with constructor arguments; only duplicate names are modelled as rejected",
               "OnlineEnsembleForecaster only without an ensemble algorithm (uniform weights)"]
RULE = ("fixed-order small scope: every composite kind x member shapes to depth 2 x 16 histories (predict, update then predict, update_predict_single, update_predict with explicit and default splitter) x 4 horizons, the dtype of the series "
        "(float64/float32/int64/int32, integer-valued data for integer dtypes) and of an optional exogenous frame rotating over the enumeration "
        "(quick: seed-rotated slice) "
        "+ random composition trees to depth 3 with random dyadic series of random dtype and histories of <= 6 calls "
        "+ malformed stream (duplicate names, unknown selection, bad aggfunc, calls before fit, empty / duplicate horizons, empty series, "
        "horizon longer than the series, stacking without / with a changed / with a non-positive horizon); distinct by driver line; "
        "non-trivial = composite root, no call failed, at least one forecast returned")
LEVEL_TEXT = ("Lean 4 theorems, for all member machines (arbitrary state types, so arbitrary nesting), all series, horizons and call histories, "
              "about an executable model of EnsembleForecaster / TransformedTargetForecaster / MultiplexForecaster / StackingForecaster; "
              "the model is tied to the code by a differential correspondence with recording inner estimators (outputs and the per-call log of "
              "everything the leaves were handed) over compositions to depth 3, after fit alone and after fit followed by updates, "
              "and the property text is evaluated as an oracle (reference composition of independently run real parts) on every real run.")
LEVEL_NOTE = ("Trusted: Lean kernel, axioms propext/Classical.choice/Quot.sound, the model's faithfulness as exercised by the correspondence, "
              "the recording leaves, harness + compat layer. Exogenous data, intervals, absolute/datetime horizons, n_jobs>1 not modelled.")
TECHNIQUE = "Lean 4 proof (induction over member lists and call histories, simulation) + differential correspondence with recording inner estimators"

AGGS = ["mean", "median", "min", "max", "online"]
# "Pf" = the model of TransformedTargetForecaster as coded in /repo (update transforms the batch step by step,
# /repo commit 8cf3d7f); "P" = the model of the ORIGINAL update (raw batch handed on).  C09_MODEL_ORIGINAL=1 is
# only for looking at the original behaviour in a scratch worktree.
import os as _os
# "Of" = OnlineEnsembleForecaster.update as coded in /repo (since d4b430a the algorithm learns from forecasts made before the
# cutoffs move); "O" = the behaviour between dabf16c and d4b430a (C09_ONLINE_ORIGINAL=1: only for scratch worktrees).
_ONLINE_TOKEN = "O" if _os.environ.get("C09_ONLINE_ORIGINAL") == "1" else "Of"
_PIPE_TOKEN = "P" if _os.environ.get("C09_MODEL_ORIGINAL") == "1" else "Pf"


def is_exhaustive(tier):
    return tier == "thorough"


# ----------------------------------------------------------------------------- building the real objects
_DT = {"f8": "float64", "f4": "float32", "i8": "int64", "i4": "int32"}


def _S(pairs, dt="f8"):
    return pd.Series(np.array([v for _, v in pairs], dtype="float64").astype(_DT[dt or "f8"]),
                     index=pd.Index(np.array([l for l, _ in pairs], dtype="int64")))


def _X(pairs, xdt):
    """exogenous frame on the same index (recorders ignore its content; its presence and dtype must not matter)"""
    if xdt is None or not pairs:   # (an empty batch goes without a frame)
        return None
    n = len(pairs)
    a = (np.arange(n, dtype="float64") * 3 % 7).astype(_DT[xdt])
    b = (np.arange(n, dtype="float64") + 1).astype(_DT[xdt])
    return pd.DataFrame({"x1": a, "x2": b}, index=pd.Index(np.array([l for l, _ in pairs], dtype="int64")))


def _dt(op):
    i = 4 if op[0] in ("ups", "upm") else 3
    return op[i] if len(op) > i and op[i] else "f8"


def _xdt(op):
    return op[4] if op[0] in ("fit", "upd") and len(op) > 4 else None


def _make_cv(cv):
    from sktime.forecasting.model_selection import SlidingWindowSplitter, ExpandingWindowSplitter
    if cv is None:
        return None
    kind, wl, step, sww, fh = cv
    if kind == "s":
        return SlidingWindowSplitter(fh=list(fh), window_length=wl, step_length=step, start_with_window=bool(sww))
    # (the expanding splitter calls its window length `initial_window`)
    return ExpandingWindowSplitter(fh=list(fh), initial_window=wl, step_length=step, start_with_window=bool(sww))


_DECOY = [[0, 99.0], [1, 98.0]]


def _prefit(est, kind):
    """Hand the composite an estimator that has ALREADY been fitted on other data (decoy series,
    decoy horizon): a composite must clone it, so nothing of this may show (fit events carry gen 0)."""
    with _capture():
        if kind == "F":
            est.fit(_S(_DECOY), fh=[7])
        elif kind == "T":
            est.fit(_S(_DECOY))
        else:
            est.fit(np.array([[9.0]]), np.array([9.0]))
    return est


def build_real(node, root=True):
    import recorders_C09 as R
    from sktime.forecasting.compose import EnsembleForecaster, TransformedTargetForecaster, MultiplexForecaster, StackingForecaster
    from sktime.forecasting.online_learning._online_ensemble import OnlineEnsembleForecaster
    k = node[0]
    if k == "R":
        f = R.RecForecaster(node[1], float(node[2]), float(node[3]), float(node[4]), float(node[5]))
        return f if root else _prefit(f, "F")
    if k == "E":
        ms = [(n, build_real(ch, False)) for n, ch in node[2]]
        if node[1] == "online":
            return OnlineEnsembleForecaster(ms)
        return EnsembleForecaster(ms, aggfunc=node[1])
    if k == "O":
        ms = [(n, build_real(ch, False)) for n, ch in node[3]]
        return OnlineEnsembleForecaster(ms, ensemble_algorithm=R.make_algorithm(node[1], len(ms), node[2]))
    if k == "P":
        steps = [("s%d" % i, build_tr(t)) for i, t in enumerate(node[1])]
        return TransformedTargetForecaster(steps + [("f", build_real(node[2], False))])
    if k == "M":
        return MultiplexForecaster([(n, build_real(ch, False)) for n, ch in node[2]], selected_forecaster=node[1])
    if k == "S":
        return StackingForecaster([(n, build_real(ch, False)) for n, ch in node[1]], final_regressor=build_reg(node[2]))
    raise ValueError(k)


def build_tr(t):
    import recorders_C09 as R
    tag, k, m, upd, skip = t
    cls = {(False, False): R.RecTransformer, (True, False): R.RecTransformerU,
           (False, True): R.RecTransformerSkip, (True, True): R.RecTransformerSkipU}[(bool(upd), bool(skip))]
    return _prefit(cls(tag, float(k), float(m)), "T")


def build_reg(g):
    import recorders_C09 as R
    return _prefit(R.RecRegressor(g[0], float(g[1]), float(g[2])), "G")


def fresh(node):
    """an independently usable copy of a part: what `clone` gives (unfitted, same parameters)"""
    from sklearn.base import clone
    return clone(build_real(node, False))


def _apply(obj, op):
    """one call on a real forecaster; returns None or the forecast"""
    if op[0] == "fit":
        obj.fit(_S(op[1], _dt(op)), X=_X(op[1], _xdt(op)), fh=None if op[2] is None else list(op[2]))
        return None
    if op[0] == "upd":
        obj.update(_S(op[1], _dt(op)), X=_X(op[1], _xdt(op)), update_params=bool(op[2]))
        return None
    if op[0] == "pred":
        return obj.predict(None if op[1] is None else list(op[1]))
    if op[0] == "ups":
        return obj.update_predict_single(_S(op[1], _dt(op)), fh=None if op[3] is None else list(op[3]), update_params=bool(op[2]))
    if op[0] == "upm":
        return obj.update_predict(_S(op[1], _dt(op)), cv=_make_cv(op[3]), update_params=bool(op[2]))
    raise ValueError(op)


def _canon_out(o):
    """None | [(label, value)] for a Series | ("frame", [(column label, [(label, value)])]) for a DataFrame (NaN cells dropped)"""
    import recorders_C09 as R
    if o is None:
        return None
    if isinstance(o, pd.DataFrame):
        cols = []
        for k in range(o.shape[1]):
            col = o.iloc[:, k].dropna()
            cols.append((int(o.columns[k]), R.ser(col)))
        return ("frame", cols)
    if isinstance(o, pd.Series):
        return R.ser(o)
    return o     # already canonical (reference compositions)


def _flat(o):
    """a forecast as one list of (label, value): the columns of a moving-cutoff frame one after the other"""
    if isinstance(o, tuple) and o and o[0] == "frame":
        return [p for _, col in o[1] for p in col]
    return o


@contextmanager
def _capture():
    """run with an empty recorder log; restores the previous log afterwards"""
    import recorders_C09 as R
    saved = list(R.LOG)
    R.reset()
    box = []
    try:
        yield box
    finally:
        box.extend(R.LOG)
        R.LOG[:] = saved


def observe(obj, ops):
    """run `ops` on the real object.  Returns (outs, logs, err): outs[j] = None | [(label, value)],
    logs[j] = events of call j, for the calls before the first failing one; err = (j, exception) | None"""
    import recorders_C09 as R
    outs, logs = [], []
    with _capture():
        for j, op in enumerate(ops):
            n0 = len(R.LOG)
            if isinstance(obj, R.RecForecaster):
                obj._gen = 0     # a bare leaf driven directly stands for "a fresh clone at every fit"
            try:
                o = _apply(obj, op)
            except Exception as e:
                return outs, logs, (j, e)
            outs.append(_canon_out(o))
            logs.append(list(R.LOG[n0:]))
    return outs, logs, None


# ----------------------------------------------------------------------------- canonical text
def _ser_str(s):
    return "-" if not s else ",".join("%d=%s" % (l, show_rat(float(v))) for l, v in s)


def _fh_str(fh):
    return "none" if fh is None else show_ints(fh)


def _ob(b):
    return "-" if b is None else show_bool(b)


def _rows_str(rows):
    return "-" if not rows else "_".join(("-" if not r else ",".join(show_rat(float(v)) for v in r)) for r in rows)


def _ev_str(e):
    last = ("g%d" % e[5]) if e[2] == "fit" else _ob(e[5])     # fit events: generation of the fitted object
    if e[0] == "F":
        return "F:%s:%s:%s:%s:%s" % (e[1], e[2], _ser_str(e[3]), _fh_str(e[4]), last)
    if e[0] == "T":
        return "T:%s:%s:%s:%s" % (e[1], e[2], _ser_str(e[3]), last)
    ys = e[4]
    return "G:%s:%s:%s:%s:%s" % (e[1], e[2], _rows_str(e[3]), "none" if ys is None else ("-" if not ys else ",".join(show_rat(float(v)) for v in ys)), last)


def _num(x):
    return show_rat(float(x))


_TAPES = {}    # canonical case text -> weights the real algorithm held after each of its updates (filled by run_real)


def _case_key(c):
    import json
    return json.dumps(c, sort_keys=True)


def _node_str(n, tape=None):
    k = n[0]
    if k == "O":
        tape = tape or []
        return "%s %d %s %d %s" % (_ONLINE_TOKEN, len(tape), " ".join(",".join(show_rat(float(w)) for w in ws) for ws in tape), len(n[3]),
                                  " ".join("%s %s" % (nm, _node_str(ch)) for nm, ch in n[3]))
    if k == "R":
        return "R %s %s %s %s %s" % (n[1], _num(n[2]), _num(n[3]), _num(n[4]), _num(n[5]))
    if k == "E":
        return "E %s %d %s" % (n[1] if n[1] in AGGS else "bad", len(n[2]), " ".join("%s %s" % (nm, _node_str(ch)) for nm, ch in n[2]))
    if k == "P":
        return "%s %d %s %s" % (_PIPE_TOKEN, len(n[1]), " ".join("T %s %s %s %s %s" % (t[0], _num(t[1]), _num(t[2]), show_bool(t[3]), show_bool(t[4])) for t in n[1]),
                               _node_str(n[2]))
    if k == "M":
        return "M %s %d %s" % ("none" if n[1] is None else n[1], len(n[2]), " ".join("%s %s" % (nm, _node_str(ch)) for nm, ch in n[2]))
    if k == "S":
        return "S %d %s G %s %s %s" % (len(n[1]), " ".join("%s %s" % (nm, _node_str(ch)) for nm, ch in n[1]), n[2][0], _num(n[2][1]), _num(n[2][2]))
    raise ValueError(k)


def _out_str(o):
    if o is None:
        return "ok"
    if isinstance(o, tuple) and o[0] == "frame":
        return "~".join("%d>%s" % (c, _ser_str(col)) for c, col in o[1])
    return _ser_str(o)


def _remembered_fh(tree, ops):
    """the horizon the root remembers after `ops` (all successful): last one given to fit / predict / update_predict*"""
    cur = None
    for o in ops:
        f = None
        if o[0] == "fit":
            f = o[2]
        elif o[0] == "pred":
            f = o[1]
        elif o[0] == "ups":
            f = o[3]
        elif o[0] == "upm" and o[3] is not None:
            f = o[3][4]
        if f is not None and not (tree[0] == "S" and cur is not None):
            cur = sorted(f)
    return cur


def _default_cv(tree, ops_before):
    """the splitter `update_predict(cv=None)` builds, spelled out (None: no horizon remembered -> the call fails)"""
    if tree[0] == "O" or (tree[0] == "E" and tree[1] == "online"):
        return ["s", 1, 1, True, [1]]
    f = _remembered_fh(tree, ops_before)
    return None if f is None else ["s", 10, 1, False, f]


def _explicit(tree, ops):
    """the same history with every default splitter spelled out (so that parts can be driven through the same call)"""
    out = []
    for j, o in enumerate(ops):
        if o[0] == "upm" and o[3] is None:
            cv = _default_cv(tree, ops[:j])
            out.append([o[0], o[1], o[2], cv] + list(o[4:]))
        else:
            out.append(o)
    return out


def _op_str(op, tree=None, before=()):
    if op[0] == "ups":
        return "ups %s %s %s" % (_ser_str(op[1]), show_bool(op[2]), _fh_str(op[3]))
    if op[0] == "upm":
        cv = op[3] if op[3] is not None else _default_cv(tree, list(before))
        if cv is None:
            return "upm %s %s s 10 1 F nofh" % (_ser_str(op[1]), show_bool(op[2]))
        return "upm %s %s %s %d %d %s %s" % (_ser_str(op[1]), show_bool(op[2]), cv[0], cv[1], cv[2], show_bool(cv[3]), show_ints(cv[4]))
    if op[0] == "fit":
        return "fit %s %s" % (_ser_str(op[1]), _fh_str(op[2]))
    if op[0] == "upd":
        return "upd %s %s" % (_ser_str(op[1]), show_bool(op[2]))
    return "pred %s" % _fh_str(op[1])


def _to_line_tree(c):
    ops = c["ops"]
    tape = None
    if c["tree"][0] == "O":
        if _case_key(c) not in _TAPES:
            _run_real_tree(c)
        tape = _TAPES[_case_key(c)]
        if tape is None:
            return None   # the real algorithm failed or produced non-finite weights: nothing to replay in the model
    return re.sub(r"\s+", " ", "C09 run %s | %s" % (_node_str(c["tree"], tape), " ".join(_op_str(o, c["tree"], ops[:j]) for j, o in enumerate(ops)))).strip()


def _run_real_tree(c):
    try:
        obj = build_real(c["tree"])
    except Exception as e:  # constructors do not validate; anything here is a harness problem
        return "E:construct:" + canon_err(e)
    import recorders_C09 as R
    del R.TAPE[:]
    outs, logs, err = observe(obj, c["ops"])
    if c["tree"][0] == "O":
        tape = [w for _, w in R.TAPE]
        ok = all(isinstance(w, list) and all(np.isfinite(x) for x in w) for w in tape)
        _TAPES[_case_key(c)] = tape if ok else None
    o = [_out_str(x) for x in outs]
    if err is not None:
        return ";".join(o + [canon_err(err[1])])
    return ";".join(o) + " # " + " @ ".join(("-" if not l else ";".join(_ev_str(e) for e in l)) for l in logs)


# ----------------------------------------------------------------------------- parsing the canonical text back
def _p_ser(s):
    if s == "-":
        return []
    out = []
    for it in s.split(","):
        l, v = it.split("=")
        out.append((int(l), Fraction(v)))
    return out


def _p_rats(s):
    return [] if s == "-" else [Fraction(x) for x in s.split(",")]


def _p_event(s):
    p = s.split(":")
    def last(x):
        return int(x[1:]) if x.startswith("g") else (None if x == "-" else x == "T")
    if p[0] == "F":
        return ("F", p[1], p[2], _p_ser(p[3]), None if p[4] == "none" else ([] if p[4] == "-" else [int(x) for x in p[4].split(",")]),
                last(p[5]))
    if p[0] == "T":
        return ("T", p[1], p[2], _p_ser(p[3]), None, last(p[4]))
    if p[0] == "G":
        rows = [] if p[3] == "-" else [_p_rats(r) for r in p[3].split("_")]
        return ("G", p[1], p[2], rows, None if p[4] == "none" else _p_rats(p[4]), last(p[5]))
    raise ValueError(s)


def parse_out(s):
    """-> (outs, logs|None): outs[j] = None (ok) | [(label, Fraction)] | 'E:...'"""
    if " # " in s:
        o, l = s.split(" # ", 1)
        logs = [([] if part == "-" else [_p_event(e) for e in part.split(";")]) for part in l.split(" @ ")]
    else:
        o, logs = s, None
    outs = []
    for tok in o.split(";"):
        if tok == "ok":
            outs.append(None)
        elif tok.startswith("E:"):
            outs.append(tok)
        elif ">" in tok:
            outs.append(("frame", [(int(col.split(">")[0]), _p_ser(col.split(">")[1])) for col in tok.split("~")]))
        else:
            outs.append(_p_ser(tok))
    return outs, logs


def _num_close(a, b):
    return close(float(a), Fraction(b))


def _ser_close(a, b):
    return len(a) == len(b) and all(x[0] == y[0] and _num_close(x[1], y[1]) for x, y in zip(a, b))


def _out_close(a, b):
    """two forecasts (series or moving-cutoff frames) agree, column labels included when both are frames"""
    fa, fb = isinstance(a, tuple), isinstance(b, tuple)
    if fa and fb and [c for c, _ in a[1]] != [c for c, _ in b[1]]:
        return False
    return _ser_close(_flat(a), _flat(b))


def _rows_close(a, b):
    return len(a) == len(b) and all(len(x) == len(y) and all(_num_close(u, v) for u, v in zip(x, y)) for x, y in zip(a, b))


def _ev_close(a, b):
    if a[0] != b[0] or a[1] != b[1] or a[2] != b[2]:
        return False
    if a[0] == "G":
        if not _rows_close(a[3], b[3]):
            return False
        if (a[4] is None) != (b[4] is None):
            return False
        if a[5] != b[5]:
            return False
        return a[4] is None or (len(a[4]) == len(b[4]) and all(_num_close(u, v) for u, v in zip(a[4], b[4])))
    return _ser_close(a[3], b[3]) and a[4] == b[4] and a[5] == b[5]


def _log_close(a, b):
    return len(a) == len(b) and all(_ev_close(x, y) for x, y in zip(a, b))


def compare(real, model):
    try:
        ro, rl = parse_out(real)
        mo, ml = parse_out(model)
    except Exception:
        return real == model
    if len(ro) != len(mo) or (rl is None) != (ml is None):
        return False
    for a, b in zip(ro, mo):
        if a is None or b is None or isinstance(a, str) or isinstance(b, str):
            if a != b:
                return False
        elif isinstance(a, tuple) != isinstance(b, tuple) or not _out_close(a, b):
            return False
    if rl is not None:
        if len(rl) != len(ml):
            return False
        return all(_log_close(x, y) for x, y in zip(rl, ml))
    return True


# ----------------------------------------------------------------------------- oracle (the property text on the real observation)
def _tags(node):
    """(kind, tag) of every recording leaf in the subtree"""
    k = node[0]
    if k == "R":
        return {("F", node[1])}
    if k == "O":
        return set().union(*[_tags(ch) for _, ch in node[3]]) if node[3] else set()
    if k in ("E", "M"):
        return set().union(*[_tags(ch) for _, ch in node[2]]) if node[2] else set()
    if k == "P":
        return {("T", t[0]) for t in node[1]} | _tags(node[2])
    if k == "S":
        return (set().union(*[_tags(ch) for _, ch in node[1]]) if node[1] else set()) | {("G", node[2][0])}
    raise ValueError(k)


def _only(log, tags):
    return [e for e in log if (e[0], e[1]) in tags]


def _fr(ev):
    """event with float payload -> Fractions (so that _ev_close can be used on both sides)"""
    return ev


def _depth(node):
    k = node[0]
    if k == "R":
        return 0
    if k == "O":
        return 1 + max([_depth(ch) for _, ch in node[3]] or [0])
    if k in ("E", "M"):
        return 1 + max([_depth(ch) for _, ch in node[2]] or [0])
    if k == "P":
        return 1 + _depth(node[2])
    return 1 + max([_depth(ch) for _, ch in node[1]] or [0])


def _np_agg(agg, cols):
    a = np.array(cols, dtype="float64")  # members x steps
    if agg == "mean" or agg == "online":
        return list(np.mean(a, axis=0))
    if agg == "median":
        return list(np.median(a, axis=0))
    if agg == "min":
        return list(np.min(a, axis=0))
    if agg == "max":
        return list(np.max(a, axis=0))
    raise ValueError(agg)


def _same_out(a, b):
    if a is None or b is None:
        return a is None and b is None
    return _out_close(a, b)


_SITE = {"fit": "fit", "upd": "update", "pred": "predict", "ups": "update_predict_single", "upm": "update_predict"}


def _oracle_ens(node, ops, outs, logs):
    fails = []
    agg, members = node[1], node[2]
    refs = [observe(fresh(ch), ops) for _, ch in members]
    n = len(outs)
    if any(len(r[0]) < n for r in refs):
        return [("EnsembleForecaster:member-fails-alone-where-ensemble-succeeds", "a member run on its own fails earlier than the ensemble")]
    if agg in AGGS:
        seen = set()
        for j in range(n):
            if outs[j] is None:
                continue
            # every entry point that returns a forecast: predict, update_predict_single, update_predict
            flats = [_flat(r[0][j]) for r in refs]
            cols = [[v for _, v in f] for f in flats]
            labs = [[l for l, _ in f] for f in flats]
            if any(l != labs[0] for l in labs):
                exp = None      # the independently run members do not even forecast the same labels
            else:
                exp = list(zip(labs[0], _np_agg(agg, cols)))
            if exp is None or not _ser_close(_flat(outs[j]), exp):
                key = "EnsembleForecaster.%s:not-%s-of-independently-fitted-members" % (_SITE[ops[j][0]], "weighted-mean" if agg == "online" else agg)
                if key not in seen:
                    seen.add(key)
                    fails.append((key, "call %d (%s): got %s, %s of members is %s" % (j, ops[j][0], _flat(outs[j]), agg, exp)))
    for (nm, ch), r in zip(members, refs):
        tg = _tags(ch)
        for j in range(n):
            if not _log_close(_only(logs[j], tg), r[1][j]):
                fails.append(("EnsembleForecaster.%s:member-not-handled-independently" % ops[j][0],
                              "call %d: member %s was handed %s, on its own it is handed %s" % (j, nm, _only(logs[j], tg), r[1][j])))
                return fails
    return fails


def _oracle_mux(node, ops, outs, logs):
    sel, members = node[1], node[2]
    chosen = [ch for nm, ch in members if nm == sel]
    if len(chosen) != 1:
        return []
    r_out, r_log, r_err = observe(fresh(chosen[0]), ops)
    n = len(outs)
    if len(r_out) < n:
        return [("MultiplexForecaster:selected-member-fails-alone", "the selected member on its own fails earlier than the multiplexer")]
    for j in range(n):
        if not _same_out(outs[j], r_out[j]):
            return [("MultiplexForecaster.%s:differs-from-selected-member" % ops[j][0], "call %d: got %s, selected member gives %s" % (j, outs[j], r_out[j]))]
        if not _log_close(logs[j], r_log[j]):
            return [("MultiplexForecaster.%s:members-handed-something-else" % ops[j][0],
                     "call %d: members were handed %s, the selected member alone is handed %s" % (j, logs[j], r_log[j]))]
    return []


class _SpecPipeline:
    """The property text, literally: fit each transformer in order (on the series transformed so far),
    fit the final forecaster on the fully transformed series, forecast = inverse transforms in
    reverse order of the final forecaster's forecast; the final forecaster is only ever fitted or
    updated with data in that same transformed representation."""

    def __init__(self, node):
        self.node = node

    def fit(self, y, X=None, fh=None):
        from sklearn.base import clone
        self.ts = [clone(build_tr(t)) for t in self.node[1]]
        self.f = fresh(self.node[2])
        z = y
        for t in self.ts:
            t.fit(z)
            z = t.transform(z)
        self.f.fit(z, X=X, fh=fh)

    def update(self, y, X=None, update_params=True):
        z = y
        for t in self.ts:
            if hasattr(t, "update"):
                t.update(z, update_params=update_params)
            z = t.transform(z)
        self.f.update(z, update_params=update_params)

    def update_predict_single(self, y, fh=None, X=None, update_params=True):
        # "update and make forecasts": the updated pipeline's forecast
        self.update(y, update_params=update_params)
        return self.predict(fh)

    def update_predict(self, y, cv=None, X=None, update_params=True):
        # "make and update predictions iteratively over the test set": the forecasting origin is moved to just before the
        # new data, every window the splitter yields is fed through update-then-predict, the origin is put back
        fh = [int(v) for v in cv.get_fh().to_pandas()]
        orig = self.f.cutoff
        preds = []
        self.f._set_cutoff(int(y.index[0]) - 1)
        try:
            for w, _ in cv.split(y):
                self.update(y.iloc[w], update_params=update_params)
                preds.append((int(self.f.cutoff), _canon_out(self.predict(fh))))
        finally:
            self.f._set_cutoff(orig)
        return ("frame", preds)

    def predict(self, fh=None):
        from sktime.utils import _has_tag
        p = self.f.predict(fh)
        for t in reversed(self.ts):
            if not _has_tag(t, "skip-inverse-transform"):
                p = t.inverse_transform(p)
        return p


def _oracle_pipe(node, ops, outs, logs):
    fails = []
    trs, inner = node[1], node[2]
    r_out, r_log, r_err = observe(_SpecPipeline(node), ops)
    n = len(outs)
    if len(r_out) < n:
        return [("TransformedTargetForecaster:parts-fail-where-pipeline-succeeds", "the spelled-out composition fails earlier than the pipeline")]
    ftags = _tags(inner)
    ttags = {("T", t[0]) for t in trs}
    tainted = None   # key of the first update that handed untransformed data (later forecasts are its consequences)
    seen = set()

    def fail(key, msg):
        if key not in seen:
            seen.add(key)
            fails.append((key, msg))

    for j in range(n):
        kind = ops[j][0]
        site = _SITE[kind]
        if kind != "pred":
            if kind == "fit":
                tainted = None   # everything is cloned and fitted afresh
            if not _log_close(_only(logs[j], ftags), _only(r_log[j], ftags)):
                key = "TransformedTargetForecaster.%s:final-forecaster-handed-untransformed-data" % site
                if kind != "fit" and not tainted:
                    tainted = key
                fail(key, "call %d: final forecaster was handed %s, the transformed representation is %s"
                     % (j, _only(logs[j], ftags), _only(r_log[j], ftags)))
            t_real, t_spec = _only(logs[j], ttags), _only(r_log[j], ttags)
            if kind != "fit":   # what each transformer's `update` was handed
                t_real, t_spec = [e for e in t_real if e[2] == "update"], [e for e in t_spec if e[2] == "update"]
            if not _log_close(t_real, t_spec):
                # the representation is defined by the transformers: each one works on the series transformed so far
                key = ("TransformedTargetForecaster.fit:transformers-not-fitted-in-order-on-transformed-series" if kind == "fit"
                       else "TransformedTargetForecaster.%s:transformers-handed-untransformed-data" % site)
                if kind != "fit" and not tainted:
                    tainted = key
                fail(key, "call %d: transformers were handed %s, expected %s" % (j, t_real, t_spec))
        if outs[j] is not None:
            inv = [e[1] for e in logs[j] if e[0] == "T" and e[2] == "inverse" and ("T", e[1]) in ttags]
            exp_inv = [e[1] for e in r_log[j] if e[0] == "T" and e[2] == "inverse" and ("T", e[1]) in ttags]
            if inv != exp_inv:
                fail("TransformedTargetForecaster.%s:inverse-transforms-not-in-reverse-order" % site,
                     "call %d: inverse transforms applied by %s, expected %s" % (j, inv, exp_inv))
            if not _out_close(_flat(outs[j]), _flat(r_out[j])):
                # after an update that handed raw data to the final forecaster its state differs from the
                # specified one; the wrong forecast is then a consequence of that (already reported) failure
                key = tainted or ("TransformedTargetForecaster.predict:not-inverse-chain-of-final-forecast" if kind == "pred"
                                  else "TransformedTargetForecaster.%s:not-the-composition-of-the-parts" % site)
                fail(key, "call %d: got %s, the composition of the parts gives %s" % (j, outs[j], r_out[j]))
    return fails


def _labels_seen(events):
    ls = []
    for e in events:
        if e[0] in ("F", "T") and e[2] in ("fit", "transform", "update"):
            ls.extend(l for l, _ in e[3])
    return ls


def _oracle_stack(node, ops, outs, logs):
    import recorders_C09 as R
    fails = []
    members, g = node[1], node[2]
    mtags = set().union(*[_tags(ch) for _, ch in members]) if members else set()
    n = len(outs)
    seen = set()

    def fail(key, msg):
        if key not in seen:
            seen.add(key)
            fails.append((key, msg))

    ref = None       # independently run members (refitted on all data, then updated)
    greg = None      # a fresh meta-regressor fitted on what the real one was handed
    fh = None
    for j in range(n):
        op = ops[j]
        if op[0] == "fit":
            y = [(int(l), float(v)) for l, v in op[1]]
            if op[2] is not None:
                fh = sorted(op[2])
            gi = [i for i, e in enumerate(logs[j]) if e[0] == "G" and e[1] == g[0] and e[2] == "fit"]
            if len(gi) != 1:
                fail("StackingForecaster.fit:meta-regressor-not-fitted-once", "call %d: %d fits of the meta-regressor" % (j, len(gi)))
                return fails
            gi = gi[0]
            pre, post = _only(logs[j][:gi], mtags), _only(logs[j][gi + 1:], mtags)
            rows, targets = logs[j][gi][3], logs[j][gi][4]
            seen_labels = _labels_seen(pre)
            if not seen_labels:
                fail("StackingForecaster.fit:members-not-fitted-before-meta-regressor", "call %d" % j)
                return fails
            c = max(seen_labels)
            window = [c + h for h in fh]
            ydict = dict(y)
            if any(l <= c for l in window):
                fail("StackingForecaster.fit:hold-out-window-seen-by-members",
                     "call %d: meta-regressor trained on forecasts for labels %s, members were fitted on data up to label %d" % (j, window, c))
            else:
                if max(window) != y[-1][0]:
                    fail("StackingForecaster.fit:hold-out-window-not-final", "call %d: window %s, series ends at %d" % (j, window, y[-1][0]))
                elif not (all(l in ydict for l in window) and len(targets) == len(window)
                          and all(_num_close(ydict[l], t) for l, t in zip(window, targets))):
                    fail("StackingForecaster.fit:meta-targets-not-the-held-out-values",
                         "call %d: targets %s, held-out values %s" % (j, targets, [ydict.get(l) for l in window]))
                # rows = forecasts of independently fitted members that saw only the data before the window
                y_tr = [(l, v) for l, v in y if l <= c]
                hold = [observe(fresh(ch), [["fit", y_tr, fh] + list(op[3:]), ["pred", None]]) for _, ch in members]
                if all(len(h[0]) == 2 for h in hold):
                    exp_rows = [list(r) for r in zip(*[[v for _, v in h[0][1]] for h in hold])]
                    if not _rows_close(rows, exp_rows):
                        fail("StackingForecaster.fit:meta-rows-not-member-forecasts-for-the-window",
                             "call %d: rows %s, member forecasts %s" % (j, rows, exp_rows))
                    exp_pre = [e for h in hold for e in h[1][0]] + [e for h in hold for e in h[1][1]]
                    if not _log_close(pre, exp_pre):
                        fail("StackingForecaster.fit:members-not-fitted-independently-on-training-window",
                             "call %d: members handed %s, expected %s" % (j, pre, exp_pre))
            # members refitted on all data
            ref = [fresh(ch) for _, ch in members]
            full = [observe(r, [["fit", y, fh] + list(op[3:])]) for r in ref]
            exp_post = [e for f in full for e in (f[1][0] if f[1] else [])]
            if not _log_close(post, exp_post):
                fail("StackingForecaster.fit:members-not-refitted-on-all-data", "call %d: after the meta-regressor members were handed %s, expected %s" % (j, post, exp_post))
            from sklearn.base import clone
            greg = clone(build_reg(g))
            with _capture():
                try:
                    greg.fit(np.array([[float(v) for v in r] for r in rows], dtype="float64").reshape(len(rows), -1),
                             np.array([float(v) for v in targets], dtype="float64"))
                except Exception:
                    greg = None
        elif ref is not None:
            exp_log = []
            # the members are driven through the same entry point (update / predict / update then predict / their own update_predict)
            if op[0] == "upd":
                sub = [op]
            elif op[0] == "pred":
                sub = [["pred", None]]
            elif op[0] == "ups":
                sub = [["upd", op[1], op[2], _dt(op)], ["pred", None]]
            else:
                sub = [op]
            res = [None] * len(ref)
            for so in sub:          # the stacker hands each step to all members in turn
                for i, r in enumerate(ref):
                    o, l, e = observe(r, [so])
                    if e is not None:
                        fail("StackingForecaster:member-fails-alone", "call %d" % j)
                        return fails
                    exp_log.extend(l[0])
                    res[i] = _flat(o[0])
            if op[0] == "upm" and len(members) > 1:
                exp_log = None    # per window: all members update, then all predict; interleaving is checked by the correspondence
            if exp_log is not None and not _log_close(_only(logs[j], mtags), exp_log):
                fail("StackingForecaster.%s:members-not-handled-independently" % {"upd": "update", "pred": "predict"}.get(op[0], _SITE[op[0]]),
                     "call %d: members handed %s, expected %s" % (j, _only(logs[j], mtags), exp_log))
            if outs[j] is not None and greg is not None:
                X = np.array([[v for _, v in p] for p in res], dtype="float64").T
                with _capture():
                    v = greg.predict(X)
                exp = list(zip([l for l, _ in res[0]], [float(x) for x in v]))
                if not _ser_close(_flat(outs[j]), exp):
                    fail("StackingForecaster.%s:not-meta-regressor-of-member-forecasts" % _SITE[op[0]], "call %d: got %s, expected %s" % (j, outs[j], exp))
    return fails


def _oracle_online(node, ops, outs, logs):
    """forecast = sum_i weight_i x (member i's forecast), for the weights the algorithm holds at that moment: the real
    ensemble is run again; right before each forecast its fitted members are asked for their forecasts and the
    algorithm's `weights` are read.  And: the algorithm learns from the members' forecasts for the labels of the new batch."""
    import recorders_C09 as R
    fails, seen = [], set()

    def fail(key, msg):
        if key not in seen:
            seen.add(key)
            fails.append((key, msg))

    members = node[3]
    obj = build_real(node)
    with _capture():
        for j, op in enumerate(ops[:len(outs)]):
            cut_before = obj.cutoff
            if op[0] in ("pred", "ups"):
                if op[0] == "ups":
                    obj.update(_S(op[1], _dt(op)), update_params=bool(op[2]))
                fh = op[1] if op[0] == "pred" else op[3]
                if fh is None:
                    fh = [int(v) for v in obj.fh.to_relative(obj.cutoff).to_pandas()]
                ms = [R.ser(f.predict(list(fh))) for f in obj.forecasters_]
                w = [float(x) for x in obj.ensemble_algorithm.weights]
                exp = [(ms[0][i][0], sum(wk * m[i][1] for wk, m in zip(w, ms))) for i in range(len(ms[0]))]
                obj.predict(list(fh))
                if not _ser_close(_flat(outs[j]), exp):
                    fail("OnlineEnsembleForecaster.%s:not-the-weighted-sum-of-member-forecasts" % _SITE[op[0]],
                         "call %d: got %s, weights %s x member forecasts %s = %s" % (j, outs[j], w, ms, exp))
            else:
                _apply(obj, op)
            if op[0] in ("upd", "ups") and op[1]:
                batch = [l for l, _ in op[1]]
                if cut_before is None or batch != list(range(int(cut_before) + 1, int(cut_before) + 1 + len(batch))):
                    continue    # only for batches that continue the series right after the cutoff
                for nm, ch in members:
                    if ch[0] != "R":
                        continue
                    asked = [e for e in logs[j] if e[0] == "F" and e[1] == ch[1] and e[2] == "predict"]
                    if asked and [l for l, _ in asked[0][3]] != batch:
                        fail("OnlineEnsembleForecaster.update:weights-learned-from-member-forecasts-for-other-labels",
                             "call %d: the algorithm is shown member %s's forecasts for labels %s together with the observations at labels %s"
                             % (j, nm, [l for l, _ in asked[0][3]], batch))
    return fails


def _oracle_node(node, ops, outs, logs):
    k = node[0]
    if k == "O":
        return _oracle_online(node, ops, outs, logs)
    if k == "E":
        return _oracle_ens(node, ops, outs, logs)
    if k == "M":
        return _oracle_mux(node, ops, outs, logs)
    if k == "P":
        return _oracle_pipe(node, ops, outs, logs)
    if k == "S":
        return _oracle_stack(node, ops, outs, logs)
    return []


def _children(node):
    k = node[0]
    if k == "O":
        return [ch for _, ch in node[3]]
    if k in ("E", "M"):
        return [ch for _, ch in node[2]]
    if k == "P":
        return [node[2]]
    if k == "S":
        return [ch for _, ch in node[1]]
    return []


def _real_obs(node, ops):
    """(outs, logs) of the real object over the calls before the first failing one, as Fractions-free floats"""
    outs, logs, err = observe(build_real(node), ops)
    return outs, logs


def _oracle_tree(c, real_out):
    if real_out.startswith("E:construct"):
        return []
    outs, logs = parse_out(real_out)
    ops = _explicit(c["tree"], c["ops"])
    if logs is None:
        # a call failed: evaluate the property on the successful prefix (re-observed to get its log)
        k = len(outs) - 1
        ops = ops[:k]
        if not ops:
            return []
        o2, l2 = _real_obs(c["tree"], ops)
        if len(o2) != k:
            return []
        outs, logs = o2, l2
    def safe(nd, ops_, o_, l_):
        # the reference composition is built from real parts; if it cannot even be evaluated on an observation
        # (ragged member forecasts, ...) the real composite did not behave like a composition of its parts
        try:
            return list(_oracle_node(nd, ops_, o_, l_))
        except Exception as e:
            return [("%s:observation-not-a-composition-of-the-parts" % {"E": "EnsembleForecaster", "P": "TransformedTargetForecaster",
                     "M": "MultiplexForecaster", "S": "StackingForecaster", "O": "OnlineEnsembleForecaster"}.get(nd[0], "leaf"), "%s: %s" % (type(e).__name__, e))]
    fails = safe(c["tree"], ops, outs, logs)
    # every composite inside the tree is itself a composite of its parts: check each on the same history
    todo = list(_children(c["tree"]))
    while todo:
        nd = todo.pop()
        if nd[0] == "R":
            continue
        o2, l2 = _real_obs(nd, ops)
        if o2:
            fails.extend(safe(nd, ops[:len(o2)], o2, l2))
        todo.extend(_children(nd))
    out, seen = [], set()
    for k_, m in fails:
        if k_ not in seen:
            seen.add(k_)
            out.append((k_, m[:600]))
    return out


def _nontrivial_tree(c, real_out):
    if c["tree"][0] == "R" or " # " not in real_out:
        return False
    outs, _ = parse_out(real_out)
    return any(isinstance(o, list) and o for o in outs)


def _features_tree(c, real_out):
    f = ["root=" + c["tree"][0], "depth=%d" % _depth(c["tree"]), "calls=%d" % len(c["ops"])]
    if any(o[0] == "upd" for o in c["ops"]):
        f.append("with-update")
    if sum(1 for o in c["ops"] if o[0] == "fit") > 1:
        f.append("refit")
    if " # " not in real_out:
        f.append("err=" + real_out.split(";")[-1])
    if c["tree"][0] == "E":
        f.append("agg=" + str(c["tree"][1]))
    if c["tree"][0] == "O":
        f.append("online-algorithm=" + c["tree"][1])
        tape = _TAPES.get(_case_key(c))
        if tape is None:
            f.append("online-algorithm-failed-or-nonfinite(not sent to the model)")
        elif any(abs(sum(w) - 1.0) > 1e-6 for w in tape):
            f.append("online-weights-not-summing-to-1")
    for o in c["ops"]:
        if o[0] == "ups":
            f.append("entry=update_predict_single")
        elif o[0] == "upm":
            f.append("entry=update_predict" + ("(default splitter)" if o[3] is None else "(%s)" % ("sliding" if o[3][0] == "s" else "expanding")))
    f = sorted(set(f), key=f.index)
    dts = sorted({_dt(o) for o in c["ops"] if o[0] in ("fit", "upd", "ups", "upm")})
    f.append("y-dtype=" + "+".join(dts))
    if any(_xdt(o) for o in c["ops"] if o[0] in ("fit", "upd")):
        f.append("with-X")
    return f


# ----------------------------------------------------------------------------- generators
class _Tagger:
    def __init__(self):
        self.n = 0

    def __call__(self, prefix):
        self.n += 1
        return "%s%d" % (prefix, self.n)


_COEF = [0.0, 1.0, -1.0, 0.5, 2.0]
_KS = [2.0, -1.0, 0.5, 4.0, -2.0, 1.0]
_MS = [0.0, 1.0, -1.0, 0.5]


def _leaf(rng, tg):
    a, b, c, d = rng.choice(_COEF), rng.choice(_COEF), rng.choice(_COEF), rng.choice(_COEF)
    if a == 0 and b == 0:
        a = 1.0
    return ["R", tg("f"), a, b, c, d]


def _tr(rng, tg):
    return [tg("t"), rng.choice(_KS), rng.choice(_MS), rng.random() < 0.6, rng.random() < 0.25]


def _tree(rng, depth, tg, allow_stack=True):
    if depth == 0:
        return _leaf(rng, tg)
    kind = rng.choice(["E", "E", "P", "P", "M", "S"] if allow_stack else ["E", "P", "M"])
    def child():
        return _tree(rng, rng.choice([0, depth - 1]) if depth > 1 else 0, tg, allow_stack)
    def members(kmin=1):
        k = rng.randint(kmin, 3)
        ms = [[tg("m"), child()] for _ in range(k)]
        if depth > 1:  # at least one member of full depth
            ms[rng.randrange(k)][1] = _tree(rng, depth - 1, tg, allow_stack)
        return ms
    if kind == "E":
        return ["E", rng.choice(AGGS[:4] * 2 + ["online"]), members()]
    if kind == "P":
        return ["P", [_tr(rng, tg) for _ in range(rng.randint(0, 3))], _tree(rng, depth - 1, tg, allow_stack)]
    if kind == "M":
        ms = members()
        return ["M", rng.choice(ms)[0], ms]
    return ["S", members(), [tg("g"), rng.choice([1.0, 2.0, -1.0, 0.5]), rng.choice([1.0, 0.0, 0.5, -1.0])]]


def _retag(node, tg=None):
    """fresh unique tags for every recording leaf, in tree order"""
    tg = tg or _Tagger()
    k = node[0]
    if k == "R":
        return ["R", tg("f")] + list(node[2:])
    if k == "O":
        return ["O", node[1], tg("w"), [[nm, _retag(ch, tg)] for nm, ch in node[3]]]
    if k in ("E", "M"):
        return [k, node[1], [[nm, _retag(ch, tg)] for nm, ch in node[2]]]
    if k == "P":
        trs = [[tg("t")] + list(t[1:]) for t in node[1]]
        return ["P", trs, _retag(node[2], tg)]
    ms = [[nm, _retag(ch, tg)] for nm, ch in node[1]]
    return ["S", ms, [tg("g")] + list(node[2][1:])]


_DTS = ["f8", "i8", "f4", "i4"]


def _with_dtypes(case, dt, dtu=None, xdt=None):
    """the same case with the series handed over as dtype `dt` (update batches: `dtu`) and, unless the tree contains a
    StackingForecaster (its fit rejects exogenous data), a 2-column exogenous frame of dtype `xdt`.
    Integer dtypes get integer-valued data."""
    dtu = dtu or dt
    ints = dt.startswith("i") or dtu.startswith("i")
    if _has_stack(case["tree"]):
        xdt = None
    ops = []
    for o in case["ops"]:
        if o[0] in ("fit", "upd"):
            pairs = [[l, float(round(v)) if ints else v] for l, v in o[1]]
            ops.append([o[0], pairs, o[2], dt if o[0] == "fit" else dtu, xdt])
        elif o[0] in ("ups", "upm"):
            pairs = [[l, float(round(v)) if ints else v] for l, v in o[1]]
            ops.append([o[0], pairs, o[2], o[3], dtu])
        else:
            ops.append(o)
    return {"tree": case["tree"], "ops": ops}


def _has_stack(node):
    return node[0] == "S" or any(_has_stack(ch) for ch in _children(node))


def _vals(rng, n):
    return [rng.randrange(-32, 65) / rng.choice([1, 1, 2, 4]) for _ in range(n)]


def _series(rng, start, n):
    return [[start + i, v] for i, v in enumerate(_vals(rng, n))]


def _history(rng, need_fh_at_fit):
    n = rng.randint(3, 9)
    origin = rng.randint(-3, 20)
    fhs = [[1], [1, 2], [2], [1, 3], [2, 3], [1, 2, 3], [3, 1]]
    fh = rng.choice(fhs)
    fit_fh = fh if (need_fh_at_fit or rng.random() < 0.6) else None
    ops = [["fit", _series(rng, origin, n), fit_fh]]
    last = origin + n - 1
    have_fh = fit_fh is not None
    cur_fh = sorted(fit_fh) if fit_fh is not None else None

    def batch(k=None):
        q = rng.random()
        start = last + 1 if q < 0.7 else (last - 1 if q < 0.8 else (last + 2 if q < 0.9 else last + 1))
        if k is None:
            k = 0 if 0.9 <= q < 0.93 else rng.randint(1, 3)
        return start, k

    for _ in range(rng.randint(0, 5)):
        r = rng.random()
        if r < 0.35:
            if have_fh and rng.random() < 0.6:
                ops.append(["pred", None])
            else:
                f2 = fh if need_fh_at_fit else rng.choice(fhs)
                ops.append(["pred", f2])
                have_fh, cur_fh = True, sorted(f2)
        elif r < 0.65:
            start, k = batch()
            ops.append(["upd", _series(rng, start, k), rng.random() < 0.65])
            if k:
                last = start + k - 1
        elif r < 0.78:
            # update_predict_single
            start, k = batch(rng.randint(1, 3))
            if have_fh and rng.random() < 0.6:
                f2 = None
            else:
                f2 = fh if need_fh_at_fit else rng.choice(fhs)
                have_fh, cur_fh = True, sorted(f2)
            ops.append(["ups", _series(rng, start, k), rng.random() < 0.65, f2])
            last = start + k - 1
        elif r < 0.93:
            # update_predict: explicit sliding / expanding splitter, or the default one
            up = rng.random() < 0.65
            if have_fh and rng.random() < 0.2:
                k = 10 + max(cur_fh) + rng.randint(0, 2) if rng.random() < 0.9 else rng.randint(2, 6)
                ops.append(["upm", _series(rng, last + 1, k), up, None])
            else:
                f2 = fh if need_fh_at_fit else rng.choice(fhs)
                wl, step = rng.randint(1, 3), rng.randint(1, 2)
                k = wl + max(f2) + rng.randint(0, 3) if rng.random() < 0.9 else rng.randint(1, wl + max(f2) - 1)
                ops.append(["upm", _series(rng, last + 1 if rng.random() < 0.85 else last, k), up,
                            [rng.choice("se"), wl, step, rng.random() < 0.5, f2]])
                have_fh, cur_fh = True, sorted(f2)
            # the cutoff is put back afterwards; the data stay remembered
        else:
            n2 = rng.randint(3, 7)
            o2 = rng.randint(-3, 20)
            ops.append(["fit", _series(rng, o2, n2), fit_fh if fit_fh is not None else (fh if have_fh else None)])
            last = o2 + n2 - 1
    if not any(o[0] in ("pred", "ups", "upm") for o in ops):
        ops.append(["pred", None if have_fh else fh])
    return ops


_Y6 = [[5, 1.0], [6, 2.0], [7, 4.0], [8, 8.0], [9, 16.0], [10, 32.0]]
_Y5 = [[0, 3.0], [1, -1.5], [2, 0.25], [3, 7.0], [4, 2.0]]
_U6 = [[11, 3.0], [12, 5.0], [13, 7.0], [14, 2.0], [15, 6.0], [16, 9.0]]
_U14 = [[11 + i, float((7 * i) % 11 + 1)] for i in range(14)]
_Y7 = [[0, 3.0], [1, 5.0], [2, 4.0], [3, 8.0], [4, 9.0], [5, 7.0], [6, 12.0]]


def _small_scope():
    """fixed-order enumeration: composite kinds x member shapes (depth <= 2) x histories x horizons"""
    L = lambda tag, a=1.0, b=0.0, c=0.0, d=1.0: ["R", tag, a, b, c, d]
    la, lb, lc = L("fa"), L("fb", 0.0, 1.0, 0.0, 2.0), L("fc", 0.5, 0.0, 1.0, -1.0)
    T1, T2, T3 = ["ta", 2.0, 1.0, True, False], ["tb", 4.0, 0.0, False, False], ["tc", -1.0, 0.5, True, True]
    G = ["g", 1.0, 1.0]
    pipe1 = ["P", [T1], la]
    pipe2 = ["P", [T1, T2], lb]
    ens2 = ["E", "mean", [["x", la], ["y", lb]]]
    trees = []
    for agg in AGGS:
        trees.append(["E", agg, [["a", la], ["b", lb], ["c", lc]]])
        trees.append(["E", agg, [["a", la], ["b", lb]]])
    trees.append(["E", "mean", [["a", la]]])
    trees.append(["E", "median", [["a", ["P", [["td", 2.0, 0.0, True, False]], L("fd")]], ["b", lb], ["c", lc], ["d", L("fe", 2.0)]]])
    for trs in ([], [T1], [T2], [T3], [T1, T2], [T2, T1], [T1, T3], [T3, T2, T1]):
        trees.append(["P", trs, la])
    trees.append(["P", [T1], ["E", "max", [["a", L("fd")], ["b", lb]]]])
    trees.append(["P", [T2], ["P", [T1], la]])
    trees.append(["P", [T1], ["M", "b", [["a", L("fd")], ["b", lb]]]])
    trees.append(["M", "a", [["a", la], ["b", lb]]])
    trees.append(["M", "b", [["a", la], ["b", lb]]])
    trees.append(["M", "c", [["a", la], ["b", lb], ["c", pipe1]]])
    trees.append(["M", "b", [["a", la], ["b", ["E", "min", [["x", L("fd")], ["y", lb]]]]]])
    trees.append(["S", [["a", la]], G])
    trees.append(["S", [["a", la], ["b", lb]], G])
    trees.append(["S", [["a", la], ["b", lb], ["c", lc]], ["g", 2.0, -1.0]])
    trees.append(["S", [["a", pipe1], ["b", lb]], G])
    trees.append(["S", [["a", ["E", "mean", [["x", L("fd")], ["y", lc]]]], ["b", lb]], G])
    trees.append(["E", "mean", [["a", ["S", [["x", L("fd")], ["y", lc]], G]], ["b", lb]]])
    trees.append(["E", "max", [["a", pipe2], ["b", ens2]]])
    # members whose forecasts are not whole numbers even on integer data ("mean"-like: sum/4, half the last value, drift 1/2)
    lm, lh = L("fm", 0.0, 0.25, 0.0, 0.5), L("fh", 0.5, 0.0, 0.0, 0.5)
    trees.append(["S", [["a", lm], ["b", lh]], G])
    trees.append(["S", [["a", lm], ["b", ["P", [["te", 0.5, 0.5, True, False]], lh]]], ["g", 0.5, 1.0]])
    trees.append(["E", "mean", [["a", lm], ["b", lh], ["c", la]]])
    trees.append(["P", [["te", 0.5, 0.5, True, False]], lm])
    trees.append(["M", "b", [["a", la], ["b", lm]]])
    # the online ensemble with each weighting algorithm (None is the "online" aggfunc above)
    for alg in ("nnls", "hedge"):
        trees.append(["O", alg, "w", [["a", la], ["b", lb]]])
        trees.append(["O", alg, "w", [["a", la], ["b", lb], ["c", lc]]])
        trees.append(["O", alg, "w", [["a", lm], ["b", lh], ["c", la]]])
        trees.append(["O", alg, "w", [["a", pipe1], ["b", lb]]])
    u1, u2, u3 = [[11, 64.0], [12, 128.0]], [[13, -3.0]], [[10, 5.0], [11, 6.0]]
    hists = []
    for fh in ([1], [1, 2], [2, 3], [1, 3]):
        hists += [
            [["fit", _Y6, fh], ["pred", None]],
            [["fit", _Y6, fh], ["upd", u1, True], ["pred", None]],
            [["fit", _Y6, fh], ["upd", u1, False], ["pred", None]],
            [["fit", _Y6, fh], ["pred", None], ["upd", u1, True], ["pred", None], ["upd", u2, True], ["pred", fh]],
            [["fit", _Y6, fh], ["upd", u3, True], ["pred", None]],
            [["fit", _Y5, fh], ["upd", [], True], ["pred", fh]],
            [["fit", _Y6, fh], ["upd", u1, True], ["fit", _Y5, fh], ["pred", None]],
            [["fit", _Y6, None], ["pred", fh]],
            [["fit", _Y6, None], ["pred", fh], ["upd", u1, True], ["pred", None]],
            [["fit", _Y7, fh], ["pred", None], ["upd", [[7, 13.0], [8, 11.0]], True], ["pred", None]],
            # the combined entry points: update_predict_single, update_predict (explicit sliding / expanding splitter, default splitter)
            [["fit", _Y6, fh], ["ups", u1, True, None]],
            [["fit", _Y6, fh], ["ups", u1, False, fh], ["pred", None]],
            [["fit", _Y6, fh], ["upm", _U6, True, ["s", 2, 1, False, fh]], ["pred", None]],
            [["fit", _Y6, fh], ["upm", _U6, False, ["e", 1, 2, True, fh]]],
            [["fit", _Y6, fh], ["upm", _U14, True, None], ["pred", None]],
            [["fit", _Y6, None], ["pred", fh], ["upm", _U14, True, None]],
        ]
    cases = [{"tree": _retag(t), "ops": h} for t in trees for h in hists]
    # dtype of the series / of the exogenous frame rotates over the enumeration (fixed order)
    out = []
    for i, c in enumerate(cases):
        dt = _DTS[i % 4]
        dtu = _DTS[(i // 4) % 4] if i % 5 == 0 else dt
        xdt = [None, "f8", None, "i8", None, "f4"][i % 6]
        out.append(_with_dtypes(c, dt, dtu, xdt))
    return out


def _malformed(rng):
    L = lambda tag, a=1.0, b=0.0, c=0.0, d=1.0: ["R", tag, a, b, c, d]
    la, lb = L("fa"), L("fb", 0.0, 1.0, 0.0, 2.0)
    G = ["g", 1.0, 1.0]
    T1 = ["ta", 2.0, 1.0, True, False]
    trees = {
        "E": ["E", "mean", [["a", la], ["b", lb]]],
        "P": ["P", [T1], la],
        "M": ["M", "a", [["a", la], ["b", lb]]],
        "S": ["S", [["a", la], ["b", lb]], G],
        "R": la,
    }
    fit = ["fit", _Y6, [1, 2]]
    cases = []
    for k, t in trees.items():
        cases += [
            {"tree": t, "ops": [["pred", [1]]]},
            {"tree": t, "ops": [["upd", _Y6, True]]},
            {"tree": t, "ops": [["fit", [], [1]]]},
            {"tree": t, "ops": [["fit", _Y6, [1, 1]]]},
            {"tree": t, "ops": [["fit", _Y6, []]]},
            {"tree": t, "ops": [["fit", _Y6, None], ["pred", None]]},
            {"tree": t, "ops": [fit, ["pred", [2, 2]]]},
            {"tree": t, "ops": [fit, ["pred", [3]], ["pred", None]]},
            {"tree": t, "ops": [["fit", _Y6, None], ["upd", [[11, 1.0]], True], ["fit", _Y5, None]]},
            {"tree": t, "ops": [["fit", _Y6, [7]], ["pred", None]]},
            {"tree": t, "ops": [["fit", _Y6, [6]], ["pred", None]]},
            {"tree": t, "ops": [["fit", _Y6, [5]], ["pred", None]]},
            {"tree": t, "ops": [["fit", _Y6, [0]], ["pred", None]]},
            {"tree": t, "ops": [["fit", _Y6, [-1, 2]], ["pred", None]]},
            {"tree": t, "ops": [["fit", _Y6, [-2, -1]], ["pred", None]]},
            {"tree": t, "ops": [["fit", _Y6, [-9, 1]], ["pred", None]]},
            {"tree": t, "ops": [["ups", _Y6, True, [1]]]},
            {"tree": t, "ops": [["upm", _U6, True, ["s", 2, 1, False, [1]]]]},
            {"tree": t, "ops": [fit, ["upm", [], True, ["s", 2, 1, False, [1, 2]]]]},
            {"tree": t, "ops": [["fit", _Y6, None], ["upm", _U14, True, None]]},
            {"tree": t, "ops": [fit, ["upm", _U6[:3], True, ["s", 2, 1, False, [1, 2]]]]},
            {"tree": t, "ops": [fit, ["upm", _U6, True, None]]},
            {"tree": t, "ops": [fit, ["ups", _U6[:2], True, [2, 2]]]},
            {"tree": t, "ops": [fit, ["ups", _U6[:2], True, None], ["upm", _U6[2:], True, ["e", 1, 1, True, [3]]], ["pred", None]]},
        ]
    cases += [
        {"tree": ["E", "mean", [["a", la], ["a", lb]]], "ops": [fit]},
        {"tree": ["E", "mean", []], "ops": [fit]},
        {"tree": ["E", "sum", [["a", la], ["b", lb]]], "ops": [fit, ["pred", None]]},
        {"tree": ["E", "online", [["a", la], ["a", lb]]], "ops": [fit]},
        {"tree": ["M", "z", [["a", la], ["b", lb]]], "ops": [fit]},
        {"tree": ["M", None, [["a", la], ["b", lb]]], "ops": [fit]},
        {"tree": ["M", "a", [["a", la], ["a", lb]]], "ops": [fit]},
        {"tree": ["M", "a", []], "ops": [fit]},
        {"tree": ["S", [["a", la], ["a", lb]], G], "ops": [fit]},
        {"tree": ["S", [], G], "ops": [fit]},
        {"tree": ["S", [["a", la]], G], "ops": [fit, ["pred", [1]]]},
        {"tree": ["S", [["a", la]], G], "ops": [fit, ["pred", [2, 1]], ["fit", _Y5, [1, 2]], ["fit", _Y5, [1]]]},
        {"tree": ["E", "mean", [["a", ["S", [["x", la]], G]], ["b", lb]]], "ops": [["fit", _Y6, None], ["pred", [1]]]},
        {"tree": ["E", "mean", [["a", ["S", [["x", la]], G]], ["b", lb]]], "ops": [fit, ["pred", [1]]]},
        {"tree": ["P", [T1], ["S", [["x", la]], G]], "ops": [["fit", _Y6, None]]},
        {"tree": ["M", "a", [["a", ["S", [["x", la]], G]], ["b", lb]]], "ops": [fit, ["pred", [3]]]},
    ]
    return [{"tree": _retag(c["tree"]), "ops": c["ops"]} for c in cases]


def gen_cases(tier, rng):
    cases = []
    small = _small_scope()
    if tier == "thorough":
        cases += small
    else:
        k = 7
        off = rng.randrange(k)
        cases += small[off::k]
    cases += _malformed(rng)
    nrand = 6000 if tier == "thorough" else 450
    for i in range(nrand):
        tg = _Tagger()
        depth = rng.choice([1, 1, 2, 2, 2, 3, 3])
        t = _tree(rng, depth, tg)
        if rng.random() < 0.12:
            # an online ensemble with a weighting algorithm at the root
            k = rng.randint(2, 3)
            t = ["O", rng.choice(["nnls", "hedge"]), tg("w"), [[tg("m"), _tree(rng, rng.choice([0, 0, max(depth - 1, 0)]), tg)] for _ in range(k)]]
        ops = _history(rng, _has_stack(t))
        dt = rng.choice(["f8", "f8", "i8", "f4", "i4"])
        dtu = rng.choice(_DTS) if rng.random() < 0.15 else dt
        xdt = rng.choice(_DTS) if rng.random() < 0.35 else None
        cases.append(_with_dtypes({"tree": t, "ops": ops}, dt, dtu, xdt))
    cases += _muxpi_cases(tier, rng)
    return cases


def _shrink_tree(c):
    t, ops = c["tree"], c["ops"]
    # fewer calls
    for i in range(len(ops) - 1, 0, -1):
        yield {"tree": t, "ops": ops[:i] + ops[i + 1:]}
    # a child in place of the root
    for ch in _children(t):
        if ch[0] != "R":
            yield {"tree": ch, "ops": ops}
    # fewer members / transformers
    k = t[0]
    if k in ("E", "M") and len(t[2]) > 1:
        for i in range(len(t[2])):
            ms = t[2][:i] + t[2][i + 1:]
            if k == "M" and t[1] not in [m[0] for m in ms]:
                continue
            yield {"tree": [k, t[1], ms], "ops": ops}
    if k == "S" and len(t[1]) > 1:
        for i in range(len(t[1])):
            yield {"tree": ["S", t[1][:i] + t[1][i + 1:], t[2]], "ops": ops}
    if k == "P" and t[1]:
        for i in range(len(t[1])):
            yield {"tree": ["P", t[1][:i] + t[1][i + 1:], t[2]], "ops": ops}
    # replace composite children by a leaf
    if k in ("E", "M"):
        for i, (nm, ch) in enumerate(t[2]):
            if ch[0] != "R":
                ms = [list(m) for m in t[2]]
                ms[i][1] = ["R", "z%d" % i, 1.0, 0.0, 0.0, 1.0]
                yield {"tree": [k, t[1], ms], "ops": ops}
    if k == "P" and t[2][0] != "R":
        yield {"tree": ["P", t[1], ["R", "z0", 1.0, 0.0, 0.0, 1.0]], "ops": ops}
    # shorter series
    for i, op in enumerate(ops):
        if op[0] in ("fit", "upd") and len(op[1]) > 1:
            o2 = list(ops)
            o2[i] = [op[0], op[1][:-1], op[2]] + list(op[3:])
            yield {"tree": t, "ops": o2}


# ----------------------------------------------------------------------------- prediction intervals through the multiplexer
# "A multiplexer behaves exactly like its selected member" also for predict(return_pred_int=True, alpha=...): the
# multiplexer hands both arguments on.  Real code only (to_line = None): the member-level semantics of the two arguments
# are modelled in lean/SkVerif/Model/PredInt.lean and checked by C10; here the multiplexer around an exact interval probe
# (harness/probes.py, built on /repo's real base classes) is compared, call by call, with that probe on its own.
def _muxpi_cases(tier, rng):
    import predint as PI
    out = []
    for c in PI.gen_cases(tier, rng):
        if c["core"].startswith("probe") and c["mode"] == "o":
            # after an update_predict that ran, a non-window forecaster (the multiplexer) holds the splitter's horizon,
            # a window forecaster keeps its own (documented observation, DESIGN 11.4): ask explicitly from there on
            ops, ran = [], False
            for op in c["ops"]:
                op = list(op)
                if ran and op[0] == "predi" and op[1] is None:
                    op[1] = ["r", [1, 2]]
                if ran and op[0] == "upsi" and op[2] is None:
                    op[2] = ["r", [1, 2]]
                if op[0] == "upi" and not op[4]:
                    ran = True
                ops.append(op)
            out.append({"kind": "muxpi", "w": int(c["core"].split(":")[1]), "ops": ops, "pos": len(out) % 3})
    return out


def _muxpi_build(c, bare):
    from sktime.forecasting.naive import NaiveForecaster
    from sktime.forecasting.trend import PolynomialTrendForecaster
    from sktime.forecasting.compose import MultiplexForecaster
    from probes import IntervalProbe
    if bare:
        return IntervalProbe(window_length=c["w"])
    ms = [("n", NaiveForecaster(strategy="mean")), ("t", PolynomialTrendForecaster())]
    ms.insert(c.get("pos", 0) % 3, ("sel", IntervalProbe(window_length=c["w"])))
    return MultiplexForecaster(ms, selected_forecaster="sel")


def _muxpi_run(c):
    import warnings
    import predint as PI
    import fcmachine as M
    warnings.filterwarnings("ignore")
    sides = []
    for bare in (False, True):
        f = _muxpi_build(c, bare)
        toks = []
        for op in c["ops"]:
            r = PI.apply_op(f, op)
            cut = getattr(f, "cutoff", None)
            toks.append(r + "{%s,%s}" % (show_bool(bool(f.is_fitted)), "none" if cut is None else str(int(cut))))
        sides.append(" ".join(toks))
    return sides[0] + " || " + sides[1]


def _muxpi_oracle(c, out):
    import predint as PI
    mux, bare = [x.split(" ") for x in out.split(" || ")]
    stored = c["ops"][0][2] is not None      # a horizon given at fit reaches the members
    for j, (a, b) in enumerate(zip(mux, bare)):
        op = c["ops"][j]
        if a != b:
            if op[0] == "upsi" and op[3] and not stored and op[2] is not None and a.startswith("E:value") and not b.startswith("E:"):
                # the horizon is first given to the single-step call and the update refits: the multiplexer stores the
                # horizon on itself only, so its member's refit finds none (a genuine difference, recorded as a finding)
                return [("MultiplexForecaster.upsi:refuses-horizon-first-given-to-refitting-single-step",
                         "call %d %s: multiplexer gave %s, the selected member on its own gives %s" % (j, PI.op_token(op), a, b))]
            return [("MultiplexForecaster.%s:interval-call-differs-from-selected-member" % c["ops"][j][0],
                     "call %d %s: multiplexer gave %s, the selected member on its own gives %s" % (j, PI.op_token(c["ops"][j]), a, b))]
    return []


def to_line(c):
    return None if c.get("kind") == "muxpi" else _to_line_tree(c)


def run_real(c):
    return _muxpi_run(c) if c.get("kind") == "muxpi" else _run_real_tree(c)


def oracle(c, real_out):
    return _muxpi_oracle(c, real_out) if c.get("kind") == "muxpi" else _oracle_tree(c, real_out)


def nontrivial(c, real_out):
    return ("+I" in real_out) if c.get("kind") == "muxpi" else _nontrivial_tree(c, real_out)


def features(c, real_out):
    if c.get("kind") == "muxpi":
        return ["root=M-intervals"] + ["op=" + o[0] for o in c["ops"]]
    return _features_tree(c, real_out)


def shrink(c):
    if c.get("kind") == "muxpi":
        ops = c["ops"]
        for i in range(len(ops) - 1, 0, -1):
            yield dict(c, ops=ops[:i] + ops[i + 1:])
        return
    yield from _shrink_tree(c)
