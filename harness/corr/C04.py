"""C04 correspondence + oracle: scikit-learn protocol (parameters, clone, fitted state).

Two kinds of cases.

kind = "table"   one per estimator class of the package.  At check time the translator
    (harness/extract/classtable.py) regenerates the class table from $SKTIME_REPO's source, the table is
    compiled against SkVerif.Model.Params in /verif/.gen/<pid>/ and every class's `Summary` is
    (pass 1) evaluated and (pass 2) re-checked by the kernel (`decide +kernel`).  The driver line carries
    that kernel-checked summary; the MODEL output is what the summary predicts (`S/M/?` per constructor
    parameter, `NF/?` per apply-type method, `K/?` per parameter across fit); the REAL output is what
    the running class does (constructor probed with sentinels, every apply-type method before fit and
    on a clone of the fitted estimator, get_params before/after fit).  `?` (no static prediction) and
    `skip` (cannot run here) match anything; everything else must match exactly.

kind = "tree"    a history of get_params/set_params/clone/fit/apply on a random composition
    (depth <= 3) of real estimators; the same history runs on the Lean model (`getVal/setVal/cloneVal`).

The oracle is the property text on the real observation (plus, for classes that cannot run, on the
kernel-checked summary).
"""
import os, sys, json, re, time, shutil, subprocess, inspect, importlib, types, copy, itertools, threading
import numpy as np, pandas as pd
from common import canon_err

VERIF = os.path.dirname(os.path.dirname(os.path.dirname(os.path.abspath(__file__))))
LEAN = os.path.join(VERIF, "lean")
sys.path.insert(0, os.path.join(VERIF, "harness", "extract"))
import classtable as ct

PROP = "C04"
LEAN_MODULE = "SkVerif.Props.C04"
APPLY = ct.APPLY_METHODS
