"""C04 correspondence + oracle: scikit-learn protocol (parameters, clone, fitted state).

Two kinds of cases.

kind = "table"   one per estimator class of the package.  At check time the translator
    (harness/extract/classtable.py) regenerates the class table from $SKTIME_REPO's source, the table is
    compiled against SkVerif.Model.Params in /verif/.gen/<pid>/ and every class's `Summary` is
    (pass 1) evaluated and (pass 2) re-checked by the kernel (`decide +kernel`).  The driver line carries
    that kernel-checked summary; the MODEL output is what the summary predicts (`S/M/?` per constructor
    parameter, `NF/?` per apply-type method, `K/?` per parameter across fit); the REAL output is what
    the running class does (constructor probed with sentinels, every apply-type method before fit and
    on a clone of the fitted estimator, get_params before/after fit).  `?` (no static prediction) and
    `skip` (cannot run here) match anything; everything else must match exactly.

kind = "tree"    a history of get_params/set_params/clone/fit/apply on a random composition
    (depth <= 3) of real estimators; the same history runs on the Lean model (`getVal/setVal/cloneVal`).

The oracle is the property text on the real observation (plus, for classes that cannot run, on the
kernel-checked summary).
"""
import os, sys, json, re, time, shutil, subprocess, inspect, importlib, types, copy, itertools, threading
import numpy as np, pandas as pd
from common import canon_err

VERIF = os.path.dirname(os.path.dirname(os.path.dirname(os.path.abspath(__file__))))
LEAN = os.path.join(VERIF, "lean")
sys.path.insert(0, os.path.join(VERIF, "harness", "extract"))
import classtable as ct

PROP = "C04"
LEAN_MODULE = "SkVerif.Props.C04"
APPLY = ct.APPLY_METHODS
import recorders_C04 as R

OBLIGATIONS = [
    # Part A: any class table (regenerated each run)
    "SkVerif.C04.ctorOK_unfold",
    "SkVerif.C04.wf_getParams_eq_args",
    "SkVerif.C04.ctor_missing_param_absent",
    "SkVerif.C04.fresh_not_fitted",
    "SkVerif.C04.guarded_method_unfitted_raises_NotFitted",
    "SkVerif.C04.summary_guarded_raises_NotFitted",
    "SkVerif.C04.fit_frame",
    # Part B: any parameter tree
    "SkVerif.C04.getParams_shallow_returns_params",
    "SkVerif.C04.getParams_deep_has_params",
    "SkVerif.C04.nested_get_reads_component",
    "SkVerif.C04.nested_get_reads_named_component",
    "SkVerif.C04.component_readable_by_name",
    "SkVerif.C04.wf_setParams_getParams_id",
    "SkVerif.C04.wf_setParams_getParams_id_deep",
    "SkVerif.C04.wf_setParams_getParams_id_meta",
    "SkVerif.C04.setParams_bare_writes_only_that_param",
    "SkVerif.C04.setParams_unknown_rejected",
    "SkVerif.C04.setParams_unknown_rejected_meta",
    "SkVerif.C04.nested_set_writes_component",
    "SkVerif.C04.nested_set_writes_named_component",
    "SkVerif.C04.replace_component_by_name",
    "SkVerif.C04.replace_component_leaves_others",
    "SkVerif.C04.setParams_order_list_then_component",
    "SkVerif.C04.setParams_order_bare_then_nested",
    "SkVerif.C04.wf_clone_params_eq",
    "SkVerif.C04.clone_unfitted",
    "SkVerif.C04.clone_same_keys",
    "SkVerif.C04.checkNames_rejects",
    "SkVerif.C04.checkNames_accepts",
    "SkVerif.C04.fit_returns_self_sets_fitted",
    "SkVerif.C04.apply_unfitted_raises",
]
TRUSTED = [
    "harness/extract/classtable.py (AST translator: source -> ClassTable/GuardTable/FitWrites); cross-checked per importable class against the running class (parameters, MRO, get_params implementation, observed constructor / guard / fit behaviour)",
    "classes outside the package (scikit-learn bases) are leaves: their constructors are ASSUMED to store keyword arguments under their own names (leading positional names from the 0.24 signatures)",
    "hand-written model SkVerif/Model/Params.lean of sklearn BaseEstimator.get_params/set_params/clone and sktime _HeterogenousMetaEstimator (exercised by the tree histories)",
    "Python's object model abstracted to an attribute store; __setattr__/__getattr__ overrides and properties shadowing parameters are flagged (hooks) and make a class not well-formed",
]
ASSUMPTIONS = [
    "expressions in constructors are side-effect free except for the listed statement forms",
    "inputs given to apply-type methods are valid (validation of the arguments before the fitted-state check is not an error)",
    "no two parameters of one object alias the same mutable estimator",
    "13 classes cannot be imported here (soft dependencies): constructor contract, guards and fit writes are decided statically only; classes needing the two unbuilt extension modules are imported over placeholder modules and never fitted",
]
RULE = ("one table case per estimator class of the package (all, every run; unfitted calls also for every boolean / option "
        "parameter off its default, constructed, via set_params and on a clone of the fitted variant); tree cases = fixed-order exhaustive scope "
        "(every key of every depth-2 composition of the composite classes, quick: seed-rotated slice) + random compositions to depth 3 "
        "with random histories of get/set/clone/apply + malformed keys; members of named component lists are estimators or "
        "the placeholder strings 'drop' / 'passthrough' / None (exhaustive scope: a placeholder before, between and after the "
        "estimators), and every member of a (name, estimator, column) list is given a column that is a function of its name. distinct by driver line; non-trivial = class observed "
        "dynamically (table) / at least one successful set_params or clone (tree)")
LEVEL_TEXT = ("proof: 31 Lean theorems (no sorry; axioms propext, Quot.sound) over ANY class table and ANY parameter tree: "
              "constructor contract => get_params returns the arguments and never raises; missing parameter => absent; fresh "
              "estimator unfitted; guarded method on unfitted raises NotFittedError for every oracle; fit frame; sklearn/sktime "
              "get_params/set_params (shallow and deep round trip at every depth, nested read/write of exactly one component, "
              "component replacement that leaves every other member - estimator or placeholder - and its position alone, rejection of unknown names, ordering), clone (equal parameters, nothing fitted), _check_names. "
              "Tie to the code: the class table (160 classes: constructor bodies through the MRO, fitted-state guards of 7 apply-type "
              "methods, parameters written by fit) is regenerated from the source by an AST translator on every run and each class "
              "summary is re-established by the kernel (decide +kernel); for the 147 importable classes the summary's predictions are "
              "compared with the running class, and histories of get/set/clone on random compositions to depth 3 are compared with "
              "the Lean model.")
LEVEL_NOTE = ("decided by the regenerated tables: constructor contract, guards and fit writes of all 160 classes (13 of them only "
              "statically). observed by correspondence only: get_params/set_params/clone behaviour of the meta-estimators, "
              "is_fitted after fit, fit returning self. modelled, not verified: constructors of scikit-learn base classes "
              "(assumed to store keywords under their names), expressions inside constructors (uninterpreted), which of several "
              "simultaneous set_params errors is reported. 144 known findings (findings/C04.md).")
TECHNIQUE = ("Lean 4: abstract interpretation of constructor traces proved sound against a concrete attribute-store semantics; "
             "inlining stack machine for method effects with a guard scan proved sound for all oracles; mutual-recursive parameter "
             "trees with fuel-indexed set_params; decide +kernel on tables regenerated by a Python AST translator; differential "
             "testing (sentinel probing of constructors, unfitted / cloned-after-fit calls, random set_params histories).")

FIT_ATTR, FIT_NAME = "_is_fitted", "fit"

# ------------------------------------------------------------------------------------------------
#  table: generate, evaluate (pass 1), kernel-check (pass 2)
# ------------------------------------------------------------------------------------------------
_TABLE = None


def _fail_harness(msg):
    print("HARNESS-ERROR: " + msg, flush=True)
    sys.stdout.flush()
    os._exit(2)


def _lean(path, timeout=900):
    return subprocess.run(["lake", "env", "lean", path], cwd=LEAN, capture_output=True, text=True, timeout=timeout)


def _summary_term(s):
    f = dict(t.split("=", 1) for t in s.split(" "))
    nl = lambda x: "[" + ("" if x == "-" else x) + "]"
    ps = {"S": ".stored", "M": ".missing", "U": ".unknown"}
    gs = {"A": ".absent", "G": ".guarded", "U": ".unguarded"}

    def impl(x):
        if x in ("p", "x", "c"):
            return {"p": ".plain", "x": ".abstr", "c": ".custom"}[x]
        _, a, b = x.split("/")
        return "(.viaMeta %s %s)" % (a, b)
    b = lambda x: "true" if x == "T" else "false"
    return ("{ params := %s, ctor := [%s], mayRaise := %s, validates := %s, varargs := %s, freshUnfitted := %s, getImpl := %s, "
            "setImpl := %s, guards := [%s], fitWrites := %s, fitUnknown := %s, fitSetsFitted := %s, "
            "fitAbstract := %s, hooks := %s }" % (
                nl(f["params"]), ", ".join(ps[x] for x in f["ctor"].split(",") if x != "-"), b(f["raise"]),
                b(f["validates"]), b(f["varargs"]), b(f["fresh"]), impl(f["get"]), impl(f["set"]),
                ", ".join(gs[x] for x in f["guards"].split(",") if x != "-"), nl(f["fitw"]), b(f["fitu"]),
                b(f["fitset"]), b(f["fitabs"]), b(f["hooks"])))


def build_table():
    """Translate the current source, compile the table, evaluate and kernel-check every class summary."""
    global _TABLE
    if _TABLE is not None:
        return _TABLE
    t0 = time.time()
    data = ct.extract()
    txt, I = ct.to_lean(data)
    txt = txt.replace("import SkVerif.Model.Params", "import SkVerif.Model.Params\nimport SkVerif.Drv.C04")
    ests = data["estimators"]
    ids = {k: I(k) for k in ests}
    am = [I(m) for m in APPLY]
    fa, fn = I(FIT_ATTR), I(FIT_NAME)
    call = "summarize tbl %d %d %s" % (fa, fn, am)
    gen = os.path.join(VERIF, ".gen", "%d-c04" % os.getpid())
    os.makedirs(gen, exist_ok=True)
    try:
        p1 = os.path.join(gen, "Pass1.lean")
        with open(p1, "w") as fh:
            fh.write(txt)
            fh.write("\n#eval (%s : List Nat).forM (fun c => IO.println (s!\"S {c} \" ++ SkVerif.Drv.C04.showSummary (%s c)))\n" % (
                sorted(ids.values()), call))
            fh.write("end SkVerif.Gen\n")
        r = _lean(p1)
        sums = {}
        for l in r.stdout.splitlines():
            if l.startswith("S "):
                _, cid, rest = l.split(" ", 2)
                sums[int(cid)] = rest
        if r.returncode != 0 or len(sums) != len(ids):
            _fail_harness("generated class table does not compile / evaluate:\n" + (r.stdout + r.stderr)[-3000:])
        # pass 2: the kernel re-checks every summary (decide +kernel), in parallel chunks
        nchunk = 8
        order = sorted(ids.items(), key=lambda kv: kv[1])
        chunks = [order[i::nchunk] for i in range(nchunk)]
        results = [None] * nchunk

        def work(j):
            pj = os.path.join(gen, "Pass2_%d.lean" % j)
            thm_line = {}
            with open(pj, "w") as fh:
                fh.write(txt)
                nlines = txt.count("\n") + 1
                for key, cid in chunks[j]:
                    fh.write("\ntheorem s_%d : %s %d = %s := by decide +kernel" % (cid, call, cid, _summary_term(sums[cid])))
                    nlines += 1
                    thm_line[nlines] = key
                fh.write("\nend SkVerif.Gen\n")
            results[j] = (_lean(pj), thm_line)
        ths = [threading.Thread(target=work, args=(j,)) for j in range(nchunk)]
        for th in ths:
            th.start()
        for th in ths:
            th.join()
        kernel = {k: True for k in ests}
        klog = []
        for (res, thm_line) in results:
            if res.returncode != 0:
                hit = False
                for m in re.finditer(r"Pass2_\d+\.lean:(\d+):\d+: error", res.stdout + res.stderr):
                    ln = int(m.group(1))
                    if ln in thm_line:
                        kernel[thm_line[ln]] = False
                        hit = True
                klog.append((res.stdout + res.stderr)[-1500:])
                if not hit:
                    _fail_harness("kernel pass failed outside a class obligation:\n" + klog[-1])
    finally:
        shutil.rmtree(gen, ignore_errors=True)
        try:
            os.rmdir(os.path.join(VERIF, ".gen"))
        except OSError:
            pass
    names = {n: i for i, n in enumerate(I.names)}
    _TABLE = {"data": data, "names": names, "idnames": list(I.names), "ids": ids,
              "summary": {k: sums[ids[k]] for k in ests}, "kernel": kernel, "klog": klog,
              "wall": round(time.time() - t0, 1)}
    print("C04 table: %d estimator classes translated, %d summaries kernel-checked (%d refused) in %.1fs" % (
        len(ests), len(ests), sum(1 for v in kernel.values() if not v), _TABLE["wall"]), flush=True)
    return _TABLE


def _sfields(s):
    return dict(t.split("=", 1) for t in s.split(" "))


def _lst(x):
    return [] if x in ("-", "") else x.split(",")


def static_of(key):
    """kernel-checked summary of a class as a dict with names instead of ids"""
    T = build_table()
    f = _sfields(T["summary"][key])
    nm = T["idnames"]
    params = [nm[int(i)] for i in _lst(f["params"])]
    return {"params": params, "ctor": dict(zip(params, _lst(f["ctor"]))), "raise": f["raise"] == "T",
            "validates": f["validates"] == "T",
            "varargs": f["varargs"] == "T", "fresh": f["fresh"] == "T", "get": f["get"], "set": f["set"],
            "guards": dict(zip(APPLY, _lst(f["guards"]))), "fitw": [nm[int(i)] for i in _lst(f["fitw"])],
            "fitu": f["fitu"] == "T", "fitset": f["fitset"] == "T", "fitabs": f["fitabs"] == "T",
            "hooks": f["hooks"] == "T"}


def owner_of(key, method):
    """class of the MRO that defines the method (per the table)"""
    cl = build_table()["data"]["classes"]
    for k in cl[key]["mro"]:
        if k in cl and method in cl[k]["methods"]:
            return cl[k]["name"]
    return "external"


# ------------------------------------------------------------------------------------------------
#  table cases: real side
# ------------------------------------------------------------------------------------------------
_PROBE_CACHE = {}


def probe(key, tier="quick"):
    if key in _PROBE_CACHE:
        return _PROBE_CACHE[key]
    c = build_table()["data"]["classes"][key]
    o = R.probe_class(c["module"], c["name"], key, None, do_fit=True, budget_s=15.0 if tier == "quick" else 60.0)
    _PROBE_CACHE[key] = o
    return o


def real_table(case):
    T = build_table()
    key = case["cls"]
    if key not in T["summary"]:
        return "gone"
    o = probe(key)
    if o["import"] != "ok":
        return "skip " + o["import"].split(":", 1)[1].replace(" ", "_")[:60]
    names = T["names"]
    ids = [str(names.get(p, "?" + p)) for p in o["params"]]
    g = o["get"]
    if g.startswith("m:"):
        g = "m/%s" % names.get(g[2:], "?" + g[2:])
    parts = ["params=" + (",".join(ids) or "-"),
             "ctor=" + (",".join(o["ctor"]) or "-"),
             "extra=" + o["extra"], "fresh=" + o["fresh"], "get=" + g,
             "rt=" + o["rt"].replace(" ", "_"), "cl=" + o["cl"].replace(" ", "_"), "unk=" + o["unk"],
             "guards=" + ",".join(o["guards"]),
             "fit=" + ("skip" if o["fit"] is None else (",".join(o["fit"]) or "-")),
             "ret=" + o["ret"], "fitted=" + o["fitted"],
             "touch=" + (",".join(t.replace(" ", "_").replace(",", ";") for t in (o.get("touch") or [])) or "-")]
    return " ".join(parts)


def _compat_tok(model, real):
    if model == "?" or real == "skip":
        return True
    if model == "-" or real == "-":
        return True          # method provided by / hidden from outside the package
    if model == "M":
        return "M" in real   # never stored: whenever construction succeeds the attribute is missing
    return model == real


def compare_table(real, model):
    if real.startswith("skip") or real == "gone":
        return True
    r, m = _sfields(real), _sfields(model)
    if r["params"] != m["params"]:
        return False
    for fld in ("ctor", "guards", "fit"):
        rl, ml = _lst(r[fld]), _lst(m[fld])
        if rl == ["skip"]:
            continue
        if len(rl) != len(ml) or not all(_compat_tok(a, b) for a, b in zip(ml, rl)):
            return False
    if not _compat_tok(m["fresh"], r["fresh"]):
        return False
    mg, rg = m["get"], r["get"]
    if mg.startswith("m/"):
        mg = "/".join(mg.split("/")[:2])
    if mg != "c" and rg != "c" and mg != rg:
        return False
    return True


def _fixture_classes(cname):
    """sktime classes of the estimators the fixture puts into the default instance of `cname`"""
    out = set()

    def walk(v, depth=0):
        if depth > 4:
            return
        if hasattr(v, "get_params") and not isinstance(v, type):
            out.add(type(v).__name__)
            try:
                for x in v.get_params(deep=False).values():
                    walk(x, depth + 1)
            except Exception:
                pass
        elif isinstance(v, (list, tuple)):
            for x in v:
                walk(x, depth + 1)
    try:
        for v in R.fixture_params(cname).values():
            walk(v)
    except Exception:
        pass
    return out


def _ctor_broken(key):
    """the constructor contract of this class already fails (static or observed)"""
    T = build_table()
    if key not in T["summary"]:
        return False
    st = static_of(key)
    if any(v != "S" for v in st["ctor"].values()):
        return True
    o = _PROBE_CACHE.get(key)
    return bool(o and o.get("ctor") and any(t not in ("S", "skip") for t in o["ctor"]))


def oracle_table(case, real):
    """The property text, on what the running class did; for classes that cannot run, on the kernel-checked table."""
    T = build_table()
    key = case["cls"]
    if real == "gone":
        return []
    st = static_of(key)
    cname = T["data"]["classes"][key]["name"]
    fails = []
    if not T["kernel"].get(key, True):
        fails.append(("harness:kernel-refused-summary:" + cname, "the kernel did not confirm the evaluated summary of %s" % key))
    dyn = not real.startswith("skip")
    r = _sfields(real) if dyn else {}
    abstract_proto = st["get"] == "x" or st["set"] == "x"
    # --- constructor contract
    dyn_ctor = dict(zip(st["params"], _lst(r["ctor"]))) if dyn and _lst(r.get("ctor", "")) != ["skip"] else {}
    any_param_fail = False
    o = _PROBE_CACHE.get(key) or {}
    unconstructible = dyn and bool(st["params"]) and all("R" in dyn_ctor.get(p, "") for p in st["params"]) and \
        "construction failed" in (o.get("fitdiag") or "")
    if unconstructible:
        any_param_fail = True
        fails.append(("%s:not-constructible" % cname,
                      "%s(...) raises for every argument tried (%s)" % (cname, o.get("fitdiag"))))
    missing = [p for p in st["params"] if st["ctor"].get(p) == "M" or "M" in dyn_ctor.get(p, "")]
    for p in ([] if unconstructible else st["params"]):
        s_tok = st["ctor"].get(p, "U")
        d_tok = dyn_ctor.get(p, "skip")
        bad_dyn = d_tok not in ("S", "skip")
        bad_st = s_tok != "S"
        if bad_dyn or bad_st:
            any_param_fail = True
            kinds = {"C": "get_params returns a different object than was passed",
                     "D": "the default value comes back changed",
                     "N": "an equal-valued form of a valid value (numpy scalar / tuple-list / 0-d array) is not stored as passed",
                     "Q": "the constructor rejects an equal-valued form of a valid value",
                     "L": "set_params accepts an equal-valued form but the estimator can then not be cloned",
                     "M": "the argument is not stored under its own name (get_params raises AttributeError)",
                     "R": "the constructor raises for some values (it inspects / transforms the argument)"}
            what = {"skip": "not observable here", "S": "stored for the probed values"}.get(
                d_tok, "; ".join(kinds[k] for k in d_tok if k in kinds))
            note = ((_PROBE_CACHE.get(key) or {}).get("ctor_notes") or {}).get(p)
            if note:
                what += " [" + note + "]"
            fails.append(("%s:ctor:%s:%s-%s" % (cname, p, s_tok, d_tok),
                          "constructor parameter %s.%s: table says %s, observed %s (%s)" % (
                              cname, p, {"S": "stored", "M": "never stored", "U": "not provably stored"}[s_tok], d_tok, what)))
    if st["validates"] and not any_param_fail:
        fails.append(("%s:ctor-validates" % cname, "the constructor of %s can raise (validation / computation in __init__)" % cname))
    if st["varargs"] or r.get("extra") == "A":
        fails.append(("%s:ctor-varargs" % cname, "%s.__init__ accepts arguments (*args/**kwargs) that get_params cannot return" % cname))
    if st["hooks"]:
        fails.append(("%s:attr-hooks" % cname, "%s overrides attribute access" % cname))
    # --- fresh / cloned estimator is unfitted
    if dyn:
        if r["fresh"] not in ("F", "skip"):
            fails.append(("%s:fresh-is_fitted:%s" % (cname, r["fresh"]), "fresh %s reports is_fitted = %s" % (cname, r["fresh"])))
    elif not st["fresh"]:
        fails.append(("%s:fresh-is_fitted:static" % cname, "constructor of %s does not set _is_fitted = False (table)" % cname))
    # --- get/set/clone protocol on the default instance
    broken_parts = sorted(k for k in _fixture_classes(cname) if k != cname and _ctor_broken(k))
    if dyn and not abstract_proto and not broken_parts:
        if missing:
            pass      # get_params itself fails: already reported as <cls>:ctor:<param>
        elif r["rt"] not in ("ok", "skip"):
            fails.append(("%s:set_params-roundtrip:%s" % (cname, r["rt"]), "set_params(**get_params()) on %s: %s" % (cname, r["rt"])))
        if not missing and r["cl"] not in ("ok", "skip"):
            fails.append(("%s:clone:%s" % (cname, r["cl"]), "clone(%s): %s" % (cname, r["cl"])))
        if not missing and r["unk"] not in ("E:value", "skip"):
            fails.append(("%s:unknown-param:%s" % (cname, r["unk"]), "set_params(unknown name) on %s: %s" % (cname, r["unk"])))
    # --- fitted-state guards
    gl = _lst(r["guards"]) if dyn else ["skip"] * len(APPLY)
    for m, tok in zip(APPLY, gl):
        s_tok = st["guards"].get(m, "A")
        if tok in ("NF", "-"):
            continue
        if tok == "skip":
            if s_tok == "U" and not st["fitabs"] and not dyn:
                fails.append(("%s.%s:unfitted:static" % (cname, m),
                              "%s.%s (static only; defined in %s): no fitted-state check before first use of fitted state" % (
                                  cname, m, owner_of(key, m))))
            continue
        fails.append(("%s.%s:unfitted:%s" % (cname, m, tok),
                      "%s.%s (defined in %s) on an unfitted / freshly cloned estimator: %s instead of NotFittedError" % (
                          cname, m, owner_of(key, m), tok)))
    # --- fit
    ft = _lst(r["fit"]) if dyn else ["skip"]
    dyn_fit = dict(zip(st["params"], ft)) if ft != ["skip"] else {}
    for p in st["params"]:
        d_tok = dyn_fit.get(p, "skip")
        if d_tok in ("W", "Wm") or (p in st["fitw"] and not st["fitabs"]):
            fails.append(("%s:fit-writes:%s:%s-%s" % (cname, p, "T" if p in st["fitw"] else "-", d_tok),
                          "fit of %s assigns constructor parameter %s (table: %s, observed: %s)" % (
                              cname, p, "assigned" if p in st["fitw"] else "-", d_tok)))
    if dyn:
        for t in _lst(r.get("touch", "-")):
            meth, _, where = t.partition(":")
            fails.append(("%s:%s-touches-given-object:%s" % (cname, meth, where),
                          "%s.%s changes the state of an object passed to the constructor: %s" % (cname, meth, where)))
        if r["ret"] not in ("self", "skip"):
            fails.append(("%s:fit-returns:%s" % (cname, r["ret"]), "%s.fit returned %s" % (cname, r["ret"])))
        if r["fitted"] not in ("T", "skip"):
            fails.append(("%s:fit-is_fitted:%s" % (cname, r["fitted"]), "after fit %s.is_fitted = %s" % (cname, r["fitted"])))
    # --- translator cross-check: MRO
    o = _PROBE_CACHE.get(key)
    if dyn and o and o.get("mro"):
        cl = T["data"]["classes"]
        tm = [cl[k]["name"] for k in cl[key]["mro"] if k in cl and not cl[k]["external"]]
        if tm != o["mro"]:
            fails.append(("translator:mro:" + cname, "MRO in table %r, running class %r" % (tm, o["mro"])))
    return fails


# ------------------------------------------------------------------------------------------------
#  tree cases: random compositions and histories
# ------------------------------------------------------------------------------------------------
# (table key, kind) ; kind: leaf | plain composite (estimator-valued parameters) | meta (named components)
EXTERNAL_CLASSES = {"LinearRegression": ("sklearn.linear_model",)}
POOL = {
    "NaiveForecaster": {"est": []},
    "PolynomialTrendForecaster": {"est": ["regressor"]},
    "ExponentialSmoothing": {"est": []},
    "ThetaForecaster": {"est": []},
    "BoxCoxTransformer": {"est": []},
    "LogTransformer": {"est": []},
    "Imputer": {"est": []},
    "HampelFilter": {"est": []},
    "TimeSeriesForestClassifier": {"est": []},
    "LinearRegression": {"est": []},
    "Detrender": {"est": ["forecaster"]},
    "OptionalPassthrough": {"est": ["transformer"]},
    "TabularToSeriesAdaptor": {"est": ["transformer"]},
    "RecursiveTabularRegressionForecaster": {"est": ["estimator"]},
    "DirectTimeSeriesRegressionForecaster": {"est": ["estimator"]},
    "ForecastingGridSearchCV": {"est": ["forecaster"]},
    "ForecastingRandomizedSearchCV": {"est": ["forecaster"]},
    "FittedParamExtractor": {"est": ["forecaster"]},
    "SeriesToSeriesRowTransformer": {"est": ["transformer"]},
    "TransformedTargetForecaster": {"est": [], "named": "steps"},
    "EnsembleForecaster": {"est": [], "named": "forecasters"},
    "StackingForecaster": {"est": ["final_regressor"], "named": "forecasters"},
    "MultiplexForecaster": {"est": [], "named": "forecasters"},
    "OnlineEnsembleForecaster": {"est": [], "named": "forecasters"},
    "ColumnEnsembleClassifier": {"est": [], "named": "estimators", "triples": True, "pin": {"remainder": "drop"}},
    # scikit-learn's own _BaseComposition protocol (no sktime `_check_names`)
    "FeatureUnion": {"est": [], "named": "transformer_list", "checknames": False},
}
COMP_NAMES = ["a", "b", "c", "f1", "t"]
# placeholder members: the strings the package's / scikit-learn's meta-estimators accept in place of an estimator
PLACEHOLDERS = {900: "drop", 901: "passthrough"}
COMP_ATOMS = [900, 900, 901, 0, 3]


def _col_of(name):
    """the column a named member of a (name, estimator, column) list is given by the harness: a function of the
    NAME, so that at any point of any history a member standing on another member's column is visible"""
    return COMP_NAMES.index(name) if name in COMP_NAMES else 5 + sum(map(ord, name)) % 3


def pool_classes():
    """classes usable in compositions: constructor statically well-formed (kernel-checked) and importable"""
    T = build_table()
    out = {}
    for key, spec in POOL.items():
        if key in EXTERNAL_CLASSES:
            xc = getattr(importlib.import_module(EXTERNAL_CLASSES[key][0]), key)
            out[key] = dict(spec, params=sorted(xc._get_param_names()), impl="p")
            continue
        if key not in T["summary"]:
            continue
        st = static_of(key)
        pinned = set(spec.get("pin", {}))
        if st["raise"] or st["hooks"] or any(st["ctor"][p] != "S" for p in st["params"] if p not in pinned):
            continue
        c = T["data"]["classes"][key]
        cls, err = R.load_class(c["module"], c["name"])
        if cls is None:
            continue
        impl = st["get"]
        if impl.startswith("m/"):
            _, a, b = impl.split("/")
            impl = "m/%s/%s" % (T["idnames"][int(a)], T["idnames"][int(b)])
        if st["set"] != st["get"] or impl in ("x", "c"):
            continue
        out[key] = dict(spec, params=st["params"], impl=impl)
    return out


class Gen:
    """random abstract trees;  node = ["a", id] | ["e", id, cls, {param: node}] | ["n", [[name, node], ...]]"""

    def __init__(self, rng, pool):
        self.rng, self.pool, self.next_id = rng, pool, 1
        self.leaves = [k for k, v in pool.items() if not v["est"] and "named" not in v]
        self.comps = [k for k, v in pool.items() if v["est"] or "named" in v]
        self.roots = [k for k in pool if k not in EXTERNAL_CLASSES]

    def atom(self):
        return ["a", self.rng.choice([0, 0, 1, 2, 3, 4, 5, 6, 7])]

    def comp_atom(self):
        """a member of a named component list that is not an estimator: mostly the placeholder strings"""
        return ["a", self.rng.choice(COMP_ATOMS)]

    def est(self, depth, cls=None):
        rng = self.rng
        if cls is None:
            cls = rng.choice(self.leaves) if depth <= 1 or (rng.random() < 0.3 and self.leaves) else rng.choice(self.comps or self.leaves)
        spec = self.pool[cls]
        nid = self.next_id
        self.next_id += 1
        ps = {}
        for p in spec["params"]:
            if p in spec.get("pin", {}):
                ps[p] = ["a", 900]
            elif p == spec.get("named"):
                n = rng.choice([1, 2, 2, 3])
                names = rng.sample(COMP_NAMES, n) if rng.random() < 0.92 else [rng.choice(COMP_NAMES) for _ in range(n)]
                ps[p] = ["n", [[nm, self.est(depth - 1) if rng.random() < 0.82 else self.comp_atom()] for nm in names]]
            elif p in spec["est"]:
                ps[p] = self.est(depth - 1) if rng.random() < 0.8 else self.atom()
            else:
                ps[p] = self.atom()
        return ["e", nid, cls, ps]


def show_tree(node, pool):
    if node[0] == "a":
        return "a%d" % node[1]
    if node[0] == "n":
        return "n[" + ",".join("%s=%s" % (k, show_tree(v, pool)) for k, v in node[1]) + "]"
    _, nid, cls, ps = node[:4]
    fitted = "T" if (len(node) > 4 and node[4]) else "F"
    return "e%d:%s:%s:%s(" % (nid, cls, pool[cls]["impl"], fitted) + ",".join(
        "%s=%s" % (k, show_tree(ps[k], pool)) for k in sorted(ps)) + ")"


def keys_of(node, pool, prefix=()):
    """all (path, node, kind, owner class, parameter name) addressable by set_params on this estimator node
    (parameters, named components, nested); parameters the harness pins are left out"""
    out = []
    if node[0] != "e":
        return out
    spec = pool[node[2]]
    for p, v in node[3].items():
        if p in spec.get("pin", {}):
            continue
        out.append((prefix + (p,), v, "param", node[2], p))
        if v[0] == "e":
            out.extend(keys_of(v, pool, prefix + (p,)))
        if v[0] == "n" and p == spec.get("named"):
            for nm, cv in v[1]:
                out.append((prefix + (nm,), cv, "comp", node[2], nm))
                if cv[0] == "e":
                    out.extend(keys_of(cv, pool, prefix + (nm,)))
    return out


def rand_value(rng, gen, pool, cls, param, kind="param"):
    """a value of the right shape for a parameter: the parameter holding the named components always gets a
    list of (name, estimator) pairs (the model does not cover get_params on a meta-estimator whose component
    list is not a list: the real code raises TypeError there)"""
    spec = pool[cls]
    if kind == "param" and param == spec.get("named"):
        n = rng.choice([1, 2, 3])
        return ["n", [[nm, gen.est(1) if rng.random() < 0.85 else gen.comp_atom()] for nm in rng.sample(COMP_NAMES, n)]]
    if kind == "comp":
        return gen.est(rng.choice([1, 1, 2])) if rng.random() < 0.8 else gen.comp_atom()
    if param in spec["est"]:
        return gen.est(rng.choice([1, 1, 2])) if rng.random() < 0.8 else gen.atom()
    return gen.atom() if rng.random() < 0.85 else gen.est(1)


def gen_ops(rng, gen, tree, pool, n_ops, allow_bad=True):
    """a history; set values refer to fresh sub-trees.  Ops that are meant to fail come last."""
    ops = []
    root_spec = pool[tree[2]]
    for _ in range(n_ops):
        r = rng.random()
        if r < 0.22:
            ops.append("get:" + rng.choice("TTF"))
        elif r < 0.72:
            ks = keys_of(tree, pool)
            if not ks:
                continue
            kvs = []
            for _ in range(rng.choice([1, 1, 1, 2, 2, 3])):
                path, node, kind, ocls, pname = rng.choice(ks)
                if any(p == "__".join(path) for p, _ in kvs):
                    continue
                kvs.append(("__".join(path), rand_value(rng, gen, pool, ocls, pname, kind)))
            # order-sensitive extras: a nested key under a value that is being replaced in the same call
            if kvs and rng.random() < 0.35:
                k0, v0 = kvs[0]
                if v0[0] == "e":
                    cand = [p for p in pool[v0[2]]["params"] if p not in pool[v0[2]].get("pin", {})]
                    if cand:
                        p2 = rng.choice(cand)
                        kvs.append((k0 + "__" + p2, rand_value(rng, gen, pool, v0[2], p2)))
                elif v0[0] == "n" and v0[1]:
                    nm = rng.choice(v0[1])[0]
                    pre = k0.rsplit("__", 1)[0] + "__" if "__" in k0 else ""
                    kvs.append((pre + nm, gen.est(1)))
            if kvs:
                rng.shuffle(kvs)
                ops.append("set:" + "|".join("%s=%s" % (k, show_tree(v, pool)) for k, v in kvs))
        elif r < 0.84:
            ops.append("clone")
        elif r < 0.9:
            ops.append("fitted")
        elif r < 0.95 and "named" in root_spec and root_spec.get("checknames", True):
            names = rng.choice([["a", "b"], ["a", "a"], ["x__y"], [root_spec["named"]], ["n_jobs", "z"], [], ["q"]])
            ops.append("checknames:" + (",".join(names) or "-"))
        else:
            ops.append("apply")
    if allow_bad and rng.random() < 0.35:
        ks = keys_of(tree, pool)
        kind = rng.choice(["unknown", "nested-unknown", "nested-on-atom", "deep-unknown"])
        if kind == "unknown" or not ks:
            ops.append("set:zz_unknown=a1")
        elif kind == "nested-unknown":
            ests = [k for k in ks if k[1][0] == "e"]
            if ests:
                ops.append("set:%s__zz_unknown=a1" % "__".join(rng.choice(ests)[0]))
        elif kind == "nested-on-atom":
            atoms = [k for k in ks if k[1][0] == "a" and len(k[0]) == 1]
            if atoms:
                ops.append("set:%s__x=a1" % "__".join(rng.choice(atoms)[0]))
        else:
            ops.append("set:zz__deep__key=a1")
    return ops


# ---- real side ---------------------------------------------------------------------------------
ATOM_BASE = 1000


def atom_value(i):
    if i == 0:
        return None
    if i in PLACEHOLDERS:
        return PLACEHOLDERS[i]
    return ATOM_BASE + i


class World:
    """real objects built from an abstract tree, with the identity map real object -> node id"""

    def __init__(self, pool):
        self.pool = pool
        self.ids = {}
        self.keep = []
        self.classes = {}
        self.lists = []          # every component list handed to a constructor / set_params: (list, its content then)

    def cls(self, key):
        if key not in self.classes:
            if key in EXTERNAL_CLASSES:
                m = importlib.import_module(EXTERNAL_CLASSES[key][0])
                self.classes[key] = getattr(m, key)
            else:
                c = build_table()["data"]["classes"][key]
                self.classes[key] = R.load_class(c["module"], c["name"])[0]
        return self.classes[key]

    def build(self, node, triples=False):
        if node[0] == "a":
            return atom_value(node[1])
        if node[0] == "n":
            if triples:
                lst = [(nm, self.build(v), _col_of(nm)) for nm, v in node[1]]
            else:
                lst = [(nm, self.build(v)) for nm, v in node[1]]
            self.lists.append((lst, self.ref(lst)))
            return lst
        _, nid, key, ps = node[:4]
        spec = self.pool[key]
        kw = {p: self.build(v, triples=bool(spec.get("triples")) and p == spec.get("named")) for p, v in ps.items()}
        obj = self.cls(key)(**kw)
        self.ids[id(obj)] = nid
        self.keep.append(obj)
        return obj

    def ref(self, v):
        if v is None:
            return "a0"
        if isinstance(v, str) and v in PLACEHOLDERS.values():
            return "a%d" % [k for k, x in PLACEHOLDERS.items() if x == v][0]
        if isinstance(v, (int, np.integer)) and not isinstance(v, bool) and v >= ATOM_BASE:
            return "a%d" % (int(v) - ATOM_BASE)
        if hasattr(v, "get_params") and not isinstance(v, type):
            return "e%s" % self.ids.get(id(v), "?")
        if isinstance(v, (list, tuple)) and all(isinstance(t, tuple) and len(t) in (2, 3) and isinstance(t[0], str) for t in v):
            parts = []
            for t in v:
                x = t[1]
                if hasattr(x, "get_params") and not isinstance(x, type):
                    parts.append("%s:e%s" % (t[0], self.ids.get(id(x), "?")))
                elif isinstance(x, (list, tuple)):
                    parts.append("%s:n" % t[0])
                else:
                    parts.append("%s:%s" % (t[0], self.ref(x)))
            return "n[" + ",".join(parts) + "]"
        return "a?"

    def key_of(self, obj):
        n = type(obj).__name__
        return n

    def show(self, v):
        """abstract a real value back into tree syntax"""
        if hasattr(v, "get_params") and not isinstance(v, type):
            key = self.key_of(v)
            spec = self.pool.get(key)
            if spec is None:
                return "e?:%s" % key
            try:
                fitted = bool(v.is_fitted) if hasattr(type(v), "is_fitted") else False
            except Exception:
                fitted = False
            items = []
            for p in sorted(type(v)._get_param_names()):
                try:
                    items.append("%s=%s" % (p, self.show(getattr(v, p))))
                except AttributeError:
                    items.append("%s=missing" % p)
            return "e%s:%s:%s:%s(%s)" % (self.ids.get(id(v), "?"), key, spec["impl"], "T" if fitted else "F", ",".join(items))
        if isinstance(v, (list, tuple)) and all(isinstance(t, tuple) and len(t) in (2, 3) and isinstance(t[0], str) for t in v) and (
                len(v) > 0 or isinstance(v, list)):
            return "n[" + ",".join("%s=%s" % (t[0], self.show(t[1])) for t in v) + "]"
        return self.ref(v)

    def adopt_clone(self, orig, new):
        """give the nodes of a clone the ids of the nodes they were cloned from"""
        if hasattr(orig, "get_params") and hasattr(new, "get_params") and type(orig) is type(new):
            if id(orig) in self.ids:
                self.ids[id(new)] = self.ids[id(orig)]
                self.keep.append(new)
            try:
                po, pn = orig.get_params(deep=False), new.get_params(deep=False)
            except Exception:
                return
            for k in po:
                if k in pn:
                    self.adopt_clone(po[k], pn[k])
        elif isinstance(orig, (list, tuple)) and isinstance(new, (list, tuple)) and len(orig) == len(new):
            for a, b in zip(orig, new):
                self.adopt_clone(a, b)


def parse_tree(s):
    """tree syntax -> node (same grammar as the Lean driver)"""
    pos = 0

    def ident():
        nonlocal pos
        j = pos
        while j < len(s) and (s[j].isalnum() or s[j] in "_.@"):
            j += 1
        out = s[pos:j]
        pos = j
        return out

    def items(close):
        nonlocal pos
        out = []
        while s[pos] != close:
            if s[pos] == ",":
                pos += 1
            k = ident()
            assert s[pos] == "=", (s, pos)
            pos += 1
            out.append([k, val()])
        pos += 1
        return out

    def val():
        nonlocal pos
        if s.startswith("n[", pos):
            pos += 2
            return ["n", items("]")]
        if s[pos] == "a":
            pos += 1
            return ["a", int(ident())]
        assert s[pos] == "e", (s, pos)
        pos += 1
        nid = int(ident())
        pos += 1
        cls = ident()
        pos += 1
        j = s.index(":", pos)
        pos = j + 1
        fitted = s[pos] == "T"
        pos += 2
        ps = dict(items(")"))
        return ["e", nid, cls, ps, fitted]
    v = val()
    assert pos == len(s), (s, pos)
    return v


def first_guarded_method(obj, key):
    """an apply-type method of the root whose guard the table proves (model: `applyGuarded`)"""
    if key in EXTERNAL_CLASSES:
        return None
    st = static_of(key)
    for m in APPLY:
        if st["guards"].get(m) == "G" and R._has_method(obj, m):
            return m
    return None


def real_tree(case):
    pool = pool_classes()
    try:
        tree = parse_tree(case["tree"])
    except Exception:
        return "bad-tree"
    for key in _classes_in(tree):
        if key not in pool:
            return "skip:class-not-in-pool:" + key
    W = World(pool)
    try:
        obj = W.build(tree)
    except BaseException as e:
        return "E:construct:" + canon_err(e)
    outs = []
    D = R.data()
    from sklearn.base import clone
    import warnings
    # ---- aliasing clauses around set_params (the caller's objects are not the estimator's to rewrite)
    alias = None
    if any(o.startswith("set:") for o in case["ops"]):
        try:
            snap = dict(obj.get_params(deep=False))                 # (i) what a caller saves before modifying
            snap_refs = {k: W.ref(v) for k, v in snap.items()}
            twin = type(obj)(**snap)                                # (iii) a second composite from the same objects
            # (its own parameters only: component OBJECTS are shared by construction and may be reconfigured)
            twin_refs = {k: W.ref(v) for k, v in twin.get_params(deep=False).items()}
            alias = (snap, snap_refs, twin, twin_refs, obj)
        except BaseException:
            alias = None
    moved = _triples_verdict(W, obj, "construct")
    for op in case["ops"]:
        name, _, arg = op.partition(":")
        try:
            with warnings.catch_warnings():
                warnings.simplefilter("ignore")
                if name == "get":
                    d = obj.get_params(deep=(arg == "T"))
                    outs.append(",".join("%s=%s" % (k, W.ref(d[k])) for k in sorted(d)) or "-")
                elif name == "set":
                    kw = {}
                    nodes = {}
                    for kv in ([] if arg == "-" else arg.split("|")):
                        k, _, vs = kv.partition("=")
                        nodes[k] = parse_tree(vs)
                    for k, node in nodes.items():
                        kw[k] = W.build(node, triples=_is_triples_key(obj, k, pool, nodes))
                    try:
                        r = obj.set_params(**kw)
                        outs.append("ok " + W.show(obj) + ("" if r is obj else " returned-other"))
                        moved = moved or _triples_verdict(W, obj, op)
                    except BaseException as e:
                        tok = _tree_err(e)
                        if len(nodes) > 1 and tok in ("E:value", "E:attr"):
                            # several keys may be wrong at once; Python reports the first in dict order, the
                            # model the first in parameter order: only the rejection itself is compared
                            tok = "E:rejected"
                        outs.append(tok)
                        break        # the object is now half-updated: the history ends here (see Drv/C04.lean runSeq)
                elif name == "clone":
                    c = clone(obj)
                    W.adopt_clone(obj, c)
                    obj = c
                    outs.append(W.show(obj))
                    moved = moved or _triples_verdict(W, obj, op)
                elif name == "fit":
                    fam = R.family(type(obj))
                    a, k = R.fit_args(fam, type(obj).__name__, D)
                    r = obj.fit(*a, **k)
                    outs.append(W.show(obj) + ("" if r is obj else " returned-other"))
                elif name == "fitted":
                    outs.append("T" if obj.is_fitted else "F")
                elif name == "apply":
                    m = first_guarded_method(obj, type(obj).__name__)
                    if m is None:
                        outs.append("E:notfitted" if not _safe_fitted(obj) else "ok")   # nothing to call: vacuous
                    else:
                        a, k = R.call_args(R.family(type(obj)), m, D)
                        try:
                            getattr(obj, m)(*a, **k)
                            outs.append("ok")
                        except BaseException as e:
                            outs.append("E:notfitted" if R._is_notfitted(e) else ("ok" if _safe_fitted(obj) else _tree_err(e)))
                elif name == "checknames":
                    names = [] if arg == "-" else arg.split(",")
                    try:
                        obj._check_names(names)
                        outs.append("ok")
                    except BaseException as e:
                        outs.append(_tree_err(e))
                else:
                    return "bad-op"
        except BaseException as e:
            if isinstance(e, (KeyboardInterrupt, SystemExit)):
                raise
            outs.append("E:op-%s:%s" % (name, canon_err(e)))
    if alias is not None:
        outs.extend(_alias_verdict(W, alias))
    outs.extend(moved)
    return " ; ".join(outs)


def _triples_verdict(W, obj, op):
    """[] while every member of every (name, estimator, column) list in the composition stands on the column it was
    given under its name (`_col_of`), else one `TRIPLES:column-moved:<name>@<col>:after-<op>` entry.  The harness
    gives columns by name at construction and in every whole-list value, so replacing a member by name, a nested
    write, a clone or anything else the property allows leaves this true."""
    bad = []

    def walk(v, d):
        if d > 8 or bad:
            return
        if hasattr(v, "get_params") and not isinstance(v, type):
            spec = W.pool.get(type(v).__name__, {})
            try:
                names = type(v)._get_param_names()
            except Exception:
                return
            for p in names:
                x = getattr(v, p, None)
                if spec.get("triples") and p == spec.get("named") and isinstance(x, (list, tuple)):
                    for t in x:
                        if isinstance(t, tuple) and len(t) == 3 and isinstance(t[0], str):
                            if t[2] != _col_of(t[0]) and not bad:
                                bad.append("TRIPLES:column-moved:%s@%s:after-%s" % (t[0], t[2], op.split(":")[0]))
                            walk(t[1], d + 1)
                else:
                    walk(x, d + 1)
        elif isinstance(v, (list, tuple)):
            for x in v:
                walk(x, d + 1)
    try:
        walk(obj, 0)
    except BaseException as e:
        if isinstance(e, (KeyboardInterrupt, SystemExit)):
            raise
    return bad


def _alias_verdict(W, alias):
    """[] when nothing the caller holds was rewritten by set_params, else one `ALIAS:<kind>:<where>` entry"""
    snap, snap_refs, twin, twin_refs, obj0 = alias
    bad = []
    try:
        for k, v in snap.items():                                   # (i) the saved snapshot still says what it said
            if W.ref(v) != snap_refs[k]:
                bad.append("ALIAS:snapshot-rewritten:%s" % k)
                break
        if not bad:
            for lst, r0 in W.lists:                                 # (ii) the lists the caller passed in
                if W.ref(lst) != r0:
                    bad.append("ALIAS:caller-list-rewritten:%s" % r0.replace(" ", ""))
                    break
        if not bad:
            now = {k: W.ref(v) for k, v in twin.get_params(deep=False).items()}
            if now != twin_refs:                                    # (iii) the other composite built from the same objects
                diff = sorted(set(now) ^ set(twin_refs)) or sorted(k for k in now if now[k] != twin_refs.get(k))
                bad.append("ALIAS:second-composite-changed:%s" % ",".join(diff[:3]))
        if not bad:
            obj0.set_params(**snap)                                 # (i) save / modify / restore gives the original back
            back = {k: W.ref(v) for k, v in obj0.get_params(deep=False).items()}
            if back != snap_refs:
                diff = sorted(k for k in back if back[k] != snap_refs.get(k))
                bad.append("ALIAS:restore-differs:%s" % ",".join(diff[:3]))
    except BaseException as e:
        bad.append("ALIAS:check-raised:%s" % canon_err(e))
    return bad


def _safe_fitted(obj):
    try:
        return bool(obj.is_fitted)
    except Exception:
        return False


def _tree_err(e):
    if R._is_notfitted(e):
        return "E:notfitted"
    return {"ValueError": "E:value", "AttributeError": "E:attr", "TypeError": "E:type"}.get(type(e).__name__, canon_err(e))


def _node_child(node, name, pool):
    if node[0] != "e":
        return None
    if name in node[3]:
        return node[3][name]
    nm = pool.get(node[2], {}).get("named")
    if nm and nm in node[3] and node[3][nm][0] == "n":
        for k, v in reversed(node[3][nm][1]):
            if k == name:
                return v
    return None


def _is_triples_key(obj, key, pool, nodes=None):
    """a whole-list value for ColumnEnsembleClassifier.estimators needs (name, est, col) triples; the owner of
    the key may itself be a value installed by the same call"""
    parts = key.split("__")
    nodes = nodes or {}
    for i in range(len(parts) - 1, 0, -1):
        pre = "__".join(parts[:i])
        if pre in nodes:
            # duplicate component names: the replacement goes to the FIRST item of that name, a nested key to the
            # LAST one (dict semantics), so the value installed by this call is not the receiver
            try:
                parent = obj
                for p_ in parts[:i - 1]:
                    parent = parent.get_params(deep=True)[p_]
                nm_ = pool.get(type(parent).__name__, {}).get("named")
                names_ = [t[0] for t in (getattr(parent, nm_) or [])] if nm_ else []
                if names_.count(parts[i - 1]) > 1:
                    continue
            except Exception:
                pass
            cur = nodes[pre]
            for p in parts[i:-1]:
                cur = _node_child(cur, p, pool) if cur is not None else None
            if cur is None or cur[0] != "e":
                return False
            spec = pool.get(cur[2], {})
            return bool(spec.get("triples")) and parts[-1] == spec.get("named")
    cur = obj
    for p in parts[:-1]:
        try:
            d = cur.get_params(deep=True)
            cur = d[p]
        except Exception:
            return False
    spec = pool.get(type(cur).__name__, {})
    return bool(spec.get("triples")) and parts[-1] == spec.get("named")


def _classes_in(node):
    if node[0] == "e":
        yield node[2]
        for v in node[3].values():
            yield from _classes_in(v)
    elif node[0] == "n":
        for _, v in node[1]:
            yield from _classes_in(v)


def spec_get_keys(node, pool):
    """get_params(deep=True) of an abstract tree, written from the property text: every parameter under its own
    name, `component__param` for every parameter of a component (a parameter value that is an estimator, or a
    named component of a meta-estimator), components themselves under their names; later entries win."""
    out = {}
    if node[0] != "e":
        return out
    spec = pool.get(node[2], {})

    def ref(v):
        if v[0] == "a":
            return "a%d" % v[1]
        if v[0] == "e":
            return "e%d" % v[1]
        return "n[" + ",".join("%s:%s" % (k, "n" if x[0] == "n" else ref(x)) for k, x in v[1]) + "]"
    for p in sorted(node[3]):
        v = node[3][p]
        if v[0] == "e":
            for k, r in spec_get_keys(v, pool).items():
                out[p + "__" + k] = r
        out[p] = ref(v)
    nm = spec.get("named")
    if nm and nm in node[3] and node[3][nm][0] == "n":
        for k, v in node[3][nm][1]:
            out[k] = ref(v)
        for k, v in node[3][nm][1]:
            if v[0] == "e":
                for k2, r in spec_get_keys(v, pool).items():
                    out[k + "__" + k2] = r
    return out


def _spec_set(node, pool, path, new):
    """the property text for one key: `a__b__c = v` replaces parameter (or named component) `c` of the component
    reached through `a`, `b`, and nothing else.  In place; False when the situation is outside the text
    (duplicate component names, a name that is both parameter and component)."""
    if node[0] != "e":
        return False
    spec = pool.get(node[2], {})
    nm = spec.get("named")
    items = node[3][nm][1] if nm and nm in node[3] and node[3][nm][0] == "n" else []
    names = [k for k, _ in items]
    if len(set(names)) != len(names) or set(names) & set(node[3]):
        return False
    head = path[0]
    if len(path) == 1:
        if head in node[3]:
            node[3][head] = new
            return True
        for it in items:
            if it[0] == head:
                it[1] = new
                return True
        return False
    if head in node[3]:
        return _spec_set(node[3][head], pool, path[1:], new)
    for it in items:
        if it[0] == head:
            return _spec_set(it[1], pool, path[1:], new)
    return False


def _get_dict(out):
    """the `get` output `k=ref,k=ref,...` as a dict (a list reference `n[a:e1,b:e2]` contains commas itself)"""
    d, depth, cur = {}, 0, ""
    for ch in ("" if out == "-" else out) + ",":
        if ch == "," and depth == 0:
            if cur:
                k, _, v = cur.partition("=")
                d[k] = v
            cur = ""
            continue
        depth += (ch == "[") - (ch == "]")
        cur += ch
    return d


def oracle_tree(case, real):
    """Property clauses that can be read off a single history without the model."""
    fails = []
    if real.startswith("skip") or real in ("bad-tree", "bad-op"):
        return fails
    root = case["tree"].split("(")[0].split(":")[1] if case["tree"].startswith("e") else "?"
    if real.startswith("E:construct"):
        fails.append(("%s:tree-construct" % root, "constructing the composition failed: " + real))
        return fails
    outs = real.split(" ; ")
    cur_tree = case["tree"]
    for o_ in outs:
        if o_.startswith("ALIAS:"):
            kind = o_.split(":")[1]
            fails.append(("%s:alias:%s" % (root, kind),
                          "set_params on %s rewrote an object the caller holds (%s): history %s" % (root, o_, " ".join(case["ops"])[:300])))
        if o_.startswith("TRIPLES:"):
            # "whole components can be replaced by name" / "writes the component's parameter" / "clone reproduces an
            # estimator with equal parameters": the OTHER members of the list parameter stay what they were
            _, kind, where, after = o_.split(":")
            fails.append(("%s:member-%s:%s" % (root, kind, after),
                          "a member of a (name, estimator, column) list of %s stands on another column than it was given "
                          "(%s) %s: tree %s history %s" % (root, where, after, case["tree"][:400], " ".join(case["ops"])[:300])))
    # nested form reads the component's parameter: get_params(deep=True) of the untouched composition
    if case["ops"] and case["ops"][0] == "get:T" and outs and not outs[0].startswith("E:"):
        try:
            pool = pool_classes()
            want = spec_get_keys(parse_tree(case["tree"]), pool)
            got = _get_dict(outs[0])
            if got != want:
                diff = sorted(set(got) ^ set(want)) or sorted(k for k in got if got[k] != want.get(k))
                fails.append(("%s:get_params-deep" % root, "get_params(deep=True) of %s: keys/values differ from the nested-form "
                              "specification at %s" % (root, ",".join(diff[:5]))))
        except Exception:
            pass
    # nested form writes the component's parameter and only it: one valid key, then get_params
    if len(case["ops"]) >= 2 and case["ops"][0].startswith("set:") and "|" not in case["ops"][0] and case["ops"][1] == "get:T" \
            and len(outs) >= 2 and outs[0].startswith("ok") and not outs[1].startswith("E:"):
        try:
            pool = pool_classes()
            k, _, vs = case["ops"][0][4:].partition("=")
            tree = parse_tree(case["tree"])
            if k in spec_get_keys(tree, pool) and _spec_set(tree, pool, k.split("__"), parse_tree(vs)):
                want = spec_get_keys(tree, pool)
                got = _get_dict(outs[1])
                if got != want:
                    diff = sorted(set(got) ^ set(want)) or sorted(x for x in got if got[x] != want.get(x))
                    fails.append(("%s:nested-set" % root, "set_params(%s=...) on %s changed / missed: %s" % (k, root, ",".join(diff[:5]))))
        except Exception:
            pass
    # "component__param reads and writes the component's parameter and whole components can be replaced by name",
    # both in ONE call: after set_params(name=new, name__p=v) the value under `name` is `new` and new.p == v
    for op, out in zip(case["ops"], outs):
        if not (op.startswith("set:") and "|" in op and out.startswith("ok ")):
            continue
        try:
            pool = pool_classes()
            kvs = dict(kv.split("=", 1) for kv in op[4:].split("|"))
            after = parse_tree(out[3:].split(" ")[0])
            parsed = {k: parse_tree(vs) for k, vs in kvs.items()}
            for k, vs in kvs.items():
                newv = parsed[k]
                if newv[0] != "e":
                    continue
                # a whole component list or an enclosing component set in the same call is another situation
                if any(k3 != k and (parsed[k3][0] == "n" or k.startswith(k3 + "__")) for k3 in kvs):
                    continue
                for k2, vs2 in kvs.items():
                    if not (k2.startswith(k + "__") and "__" not in k2[len(k) + 2:]):
                        continue
                    v2 = parse_tree(vs2)
                    cur, okpath = after, True
                    for part in k.split("__"):
                        if cur[0] == "e":
                            nm = pool.get(cur[2], {}).get("named")
                            names = [x for x, _ in cur[3][nm][1]] if nm and nm in cur[3] and cur[3][nm][0] == "n" else []
                            if names.count(part) > 1 or (part in names and part in cur[3]):
                                okpath = False          # duplicate / clashing names: outside the text
                        cur = _node_child(cur, part, pool) if cur is not None else None
                        if cur is None:
                            okpath = False
                        if not okpath:
                            break
                    if not okpath:
                        continue
                    p2 = k2[len(k) + 2:]
                    got_id = cur[1] if cur[0] == "e" else None
                    got_val = _node_child(cur, p2, pool) if cur[0] == "e" else None
                    want = ("a%d" % v2[1]) if v2[0] == "a" else ("e%d" % v2[1] if v2[0] == "e" else None)
                    gv = None if got_val is None else ("a%d" % got_val[1] if got_val[0] == "a" else "e%s" % got_val[1] if got_val[0] == "e" else "n")
                    if got_id != newv[1]:
                        fails.append(("%s:replace-then-nested:component" % root,
                                      "set_params(%s=<e%d>, %s=...) on %s: get_params()[%r] is e%s, not the new component" % (
                                          k, newv[1], k2, root, k, got_id)))
                    elif want is not None and gv != want:
                        fails.append(("%s:replace-then-nested:param" % root,
                                      "set_params(%s=<new %s>, %s=%s) on %s in one call: afterwards get_params()[%r] is %s "
                                      "(the nested value did not reach the new component)" % (k, newv[2], k2, want, root, k2, gv)))
        except Exception:
            pass
    for op, out in zip(case["ops"], outs):
        name, _, arg = op.partition(":")
        if out.startswith("E:op-"):
            fails.append(("%s:%s-raised" % (root, name), "%s on %s raised %s" % (op[:80], root, out)))
            continue
        if name == "set":
            keys = [kv.split("=", 1)[0] for kv in arg.split("|")]
            unknown = [k for k in keys if k.split("__")[0].startswith("zz")]
            if unknown and out not in ("E:value", "E:rejected"):
                fails.append(("%s:unknown-param" % root, "set_params(%s) on %s was not rejected with ValueError: %s" % (unknown[0], root, out[:60])))
            if " returned-other" in out:
                fails.append(("%s:set_params-returns" % root, "set_params did not return self"))
        if name == "clone":
            if ":T(" in out:
                fails.append(("%s:clone-fitted" % root, "a clone contains a fitted estimator: " + out[:120]))
        if name == "apply" and out not in ("E:notfitted", "ok"):
            fails.append(("%s:apply-unfitted" % root, "guarded method on %s: %s" % (root, out)))
    return fails


# ------------------------------------------------------------------------------------------------
#  runner interface
# ------------------------------------------------------------------------------------------------
def to_line(case):
    if case["kind"] == "table":
        T = build_table()
        if case["cls"] not in T["summary"]:
            return None
        return "C04 table %d %s" % (T["ids"][case["cls"]], T["summary"][case["cls"]])
    if case["kind"] == "tree":
        return "C04 seq %s %s" % (case["tree"], " ".join(case["ops"]))
    return None


def run_real(case):
    if case["kind"] == "table":
        return real_table(case)
    out = real_tree(case)
    R._guard_globals()
    return out


def compare(real, model):
    if model.startswith("params="):
        return compare_table(real, model)
    if real.startswith("skip"):
        return True
    if real == model:
        return True
    ro, mo = real.split(" ; "), model.split(" ; ")
    return len(ro) == len(mo) and all(a == b or (a == "E:rejected" and b in ("E:value", "E:attr")) for a, b in zip(ro, mo))


def oracle(case, real):
    if case["kind"] == "table":
        return oracle_table(case, real)
    return oracle_tree(case, real)


def nontrivial(case, real):
    if case["kind"] == "table":
        return not real.startswith("skip") and real != "gone"
    return " ; " in real or real.startswith("ok") or "=" in real


def features(case, real):
    if case["kind"] == "table":
        if real.startswith("skip"):
            return ["table:static-only"]
        if real == "gone":
            return ["table:gone"]
        f = ["table:dynamic"]
        r = _sfields(real)
        st = static_of(case["cls"])
        for tok in _lst(r["ctor"]):
            f.append("ctor:" + tok)
        for m, tok in zip(APPLY, _lst(r["guards"])):
            if tok != "-":
                f.append("guard:%s" % (tok if tok in ("NF", "skip") else "other"))
                if tok == "NF" and st["guards"].get(m) != "G":
                    f.append("guard:observed-NF-but-not-proved")
        if r["fit"] != "skip":
            f.append("fit:ran")
        nv = (_PROBE_CACHE.get(case["cls"]) or {}).get("nvariants", 0)
        if nv:
            f.extend(["unfitted-calls:parameter-variant"] * nv)
        for p in st["params"]:
            if st["ctor"][p] != "S":
                f.append("ctor-static:" + st["ctor"][p])
        return f
    f = ["tree:ops=%d" % len(case["ops"]), "tree:root=" + (case["tree"].split(":")[1] if ":" in case["tree"] else "?"),
         "tree:depth=%d" % case.get("depth", 0)]
    for op, out in zip(case["ops"], real.split(" ; ")):
        f.append("op:%s:%s" % (op.split(":")[0], "err" if out.startswith("E:") else "ok"))
    return f


def is_exhaustive(tier):
    return tier == "thorough"


def exhaustive_scope(pool):
    """fixed order: every composite class with two fixed leaf components; for every key of get_params(deep=True)
    one set_params of that key followed by get_params."""
    cases = []
    leaves = [k for k in ("NaiveForecaster", "BoxCoxTransformer", "LinearRegression") if k in pool]
    if not leaves:
        return cases
    for key in sorted(pool):
        spec = pool[key]
        if not spec["est"] and "named" not in spec:
            continue
        for variant in range(len(leaves)):
            g = Gen(_FixedRng(), pool)
            nid = [100]

            def leaf(i):
                lk = leaves[(variant + i) % len(leaves)]
                nid[0] += 1
                return ["e", nid[0], lk, {p: ["a", (j + i) % 7 + 1] for j, p in enumerate(pool[lk]["params"])}]
            ps = {}
            for j, p in enumerate(spec["params"]):
                if p in spec.get("pin", {}):
                    ps[p] = ["a", 900]
                elif p == spec.get("named"):
                    ps[p] = ["n", [["a", leaf(0)], ["b", leaf(1)]]]
                elif p in spec["est"]:
                    ps[p] = leaf(2)
                else:
                    ps[p] = ["a", j % 7 + 1]
            tree = ["e", 100, key, ps]
            trees = [tree]
            if "named" in spec:
                # the same composition with a placeholder member ('drop' / 'passthrough' / None) before, between
                # and after the estimators: every key again (also the placeholder's own name)
                items = [list(it) for it in ps[spec["named"]][1]]
                items.insert(variant % 3, ["t", ["a", [900, 901, 0][variant % 3]]])
                trees.append(["e", 100, key, dict(ps, **{spec["named"]: ["n", items]})])
            for tree in trees:
                ts = show_tree(tree, pool)
                if tree is not trees[0]:
                    cases.append({"kind": "tree", "tree": ts, "ops": ["get:T", "clone", "get:T"], "depth": 2})
                for path, node, kind, _ocls, _pn in keys_of(tree, pool):
                    k = "__".join(path)
                    if node[0] == "n":
                        val = "n[c=%s]" % show_tree(leaf(3), pool)
                    elif node[0] == "e" or kind == "comp":
                        val = show_tree(leaf(4), pool)
                    else:
                        val = "a7"
                    cases.append({"kind": "tree", "tree": ts, "ops": ["set:%s=%s" % (k, val), "get:T"], "depth": 2})
                    if node[0] == "e":
                        cases.append({"kind": "tree", "tree": ts, "ops": ["set:%s=a0" % k, "get:T", "clone"], "depth": 2})
                        if kind == "comp":
                            cases.append({"kind": "tree", "tree": ts, "ops": ["set:%s=a900" % k, "get:T", "clone"], "depth": 2})
    return cases


class _FixedRng:
    def random(self):
        return 0.5

    def choice(self, l):
        return l[0]

    def sample(self, l, n):
        return l[:n]


def gen_cases(tier, rng):
    T = build_table()
    cases = [{"kind": "table", "cls": k} for k in T["data"]["estimators"]]
    pool = pool_classes()
    ex = exhaustive_scope(pool)
    if tier == "quick":
        off = rng.randrange(8)
        ex = [c for i, c in enumerate(ex) if i % 8 == off]
    cases.extend(ex)
    n = 500 if tier == "quick" else 80000
    for i in range(n):
        g = Gen(rng, pool)
        depth = rng.choice([1, 2, 2, 3, 3])
        tree = g.est(depth, cls=rng.choice(g.comps) if g.comps and rng.random() < 0.85 else rng.choice(g.roots))
        g.next_id = 500
        ops = gen_ops(rng, g, tree, pool, rng.choice([2, 3, 4, 5, 6]))
        if ops:
            cases.append({"kind": "tree", "tree": show_tree(tree, pool), "ops": ops, "depth": depth})
    return cases


def shrink(case):
    if case["kind"] != "tree":
        return
    ops = case["ops"]
    for i in range(len(ops)):
        yield dict(case, ops=ops[:i] + ops[i + 1:])
    for i, op in enumerate(ops):
        if op.startswith("set:") and "|" in op:
            kvs = op[4:].split("|")
            for j in range(len(kvs)):
                yield dict(case, ops=ops[:i] + ["set:" + "|".join(kvs[:j] + kvs[j + 1:])] + ops[i + 1:])
