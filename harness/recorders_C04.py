"""Dynamic observation of one estimator class of /repo for C04 (used by corr/C04.py).

probe_class(info) -> dict of observation tokens (see corr/C04.py for the vocabulary)

Fixtures: tiny series / panel data and, for classes with required constructor arguments, a valid
configuration (adapted from sktime/tests/_config.py, which cannot be imported here because it needs
hcrystalball).  Nothing in /repo is modified.
"""
import sys, os, inspect, importlib, types, warnings, time, copy, threading
import numpy as np, pandas as pd
from common import canon_err

APPLY = ["predict", "predict_proba", "transform", "inverse_transform", "update", "update_predict", "score"]

# ---- compiled extension modules of sktime that are not built in this sandbox: placeholder modules so
# that the classes can at least be imported / constructed (their fit cannot run).
_STUBBED = ["sktime.distances.elastic_cython", "sktime.classification.shapelet_based.mrseql.mrseql"]


class _StubModule(types.ModuleType):
    def __getattr__(self, name):
        if name.startswith("__"):
            raise AttributeError(name)

        def _missing(*a, **k):
            raise ImportError("compiled extension not built in this sandbox: %s.%s" % (self.__name__, name))
        _missing.__name__ = name
        return _missing


def _pprint_legacy(params, offset=0, printer=repr):
    """sklearn.base._pprint of scikit-learn 0.24 (a function; skcompat binds the name to a module)"""
    items = sorted(params.items())
    return ", ".join("%s=%s" % (k, printer(v)) for k, v in items)


def install_stubs():
    import math
    try:
        import sktime.forecasting.model_selection._split as _sp
        if isinstance(getattr(_sp, "_pprint", None), types.ModuleType):
            _sp._pprint = _pprint_legacy
    except BaseException:
        pass
    if not hasattr(np, "math"):
        np.math = math          # removed in numpy 2 (sktime 0.6.0 calls np.math.* in the proximity forest)
    for m in _STUBBED:
        if m not in sys.modules:
            try:
                importlib.import_module(m)
            except BaseException:
                sys.modules[m] = _StubModule(m)


def uses_stub(cls):
    """the defining module of the class (or of a base) imported names from a placeholder module"""
    for c in cls.__mro__:
        m = sys.modules.get(c.__module__)
        if m is None or not (c.__module__ or "").startswith("sktime"):
            continue
        for v in vars(m).values():
            if isinstance(v, _StubModule) or getattr(v, "__qualname__", "").startswith("_StubModule.__getattr__"):
                return True
    return False


def _unabstract(cls):
    """sklearn >= 1.4 made `BaseForest._set_oob_score_and_attributes` abstract; sktime 0.6.0's composable
    forests (written against 0.24) do not define it and could not be instantiated at all."""
    name = "_set_oob_score_and_attributes"
    for c in cls.__mro__:
        if (c.__module__ or "").startswith("sktime") and name in getattr(c, "__abstractmethods__", ()):
            if name not in c.__dict__ and not any(name in b.__dict__ for b in c.__mro__ if (b.__module__ or "").startswith("sktime")):
                setattr(c, name, lambda self, X, y, scoring_function=None: None)
            c.__abstractmethods__ = frozenset(x for x in c.__abstractmethods__ if x != name)


# observations that are artefacts of the compatibility layer, not of /repo (each with its reason)
COMPAT_ARTEFACTS = {
    ("ComposableTimeSeriesForestClassifier", "ctor", "estimator"):
        "skcompat aliases sklearn's removed `base_estimator` to `estimator`, which this class uses for its own parameter",
    ("ComposableTimeSeriesForestRegressor", "ctor", "estimator"):
        "skcompat aliases sklearn's removed `base_estimator` to `estimator`, which this class uses for its own parameter",
}


def load_class(module, name):
    install_stubs()
    try:
        with warnings.catch_warnings():
            warnings.simplefilter("ignore")
            m = importlib.import_module(module)
        cls = getattr(m, name)
        if isinstance(cls, type):
            _unabstract(cls)
        return cls, None
    except BaseException as e:       # soft dependency missing etc.
        return None, "%s: %s" % (type(e).__name__, str(e)[:80])


# ---------------------------------------------------------------------------------- data
def series(n=24, start=0, seed=1):
    rng = np.random.RandomState(seed)
    v = 10.0 + 0.5 * np.arange(start, start + n) + rng.rand(n)
    return pd.Series(v, index=pd.RangeIndex(start, start + n))


def panel(n=12, length=16, seed=2):
    rng = np.random.RandomState(seed)
    rows = []
    for i in range(n):
        base = np.sin(np.arange(length) / (2.0 + (i % 2))) + (i % 2) * 1.5
        rows.append(pd.Series(base + 0.1 * rng.rand(length)))
    X = pd.DataFrame({"dim_0": rows})
    y = np.array([str(i % 2) for i in range(n)])
    return X, y


def family(cls):
    names = {c.__name__ for c in cls.__mro__}
    if "BaseForecaster" in names:
        return "forecaster"
    if "BaseClassifier" in names:
        return "classifier"
    if "BaseRegressor" in names:
        return "regressor"
    if "_SeriesToSeriesTransformer" in names or "_SeriesToPrimitivesTransformer" in names:
        return "series"
    if "_PanelToPanelTransformer" in names or "_PanelToTabularTransformer" in names or "BaseTransformer" in names:
        return "panel"
    return "other"


ABSTRACT = {"BaseEstimator", "BaseForecaster", "BaseClassifier", "BaseRegressor", "BaseTransformer",
            "_SktimeForecaster", "_BaseWindowForecaster", "_HeterogenousMetaEstimator",
            "_HeterogenousEnsembleForecaster", "BaseGridSearch", "_Reducer", "_DirectReducer",
            "_RecursiveReducer", "_DirRecReducer", "_MultioutputReducer", "_StatsModelsAdapter",
            "_SeriesToSeriesTransformer", "_SeriesToPrimitivesTransformer", "_PanelToPanelTransformer",
            "_PanelToTabularTransformer", "BaseColumnEnsembleClassifier", "_RowTransformer",
            "BaseStrategy", "BaseSupervisedLearningStrategy", "BaseTimeSeriesForest"}


def fixture_params(name):
    """valid constructor arguments for running `fit` (fresh objects on every call)"""
    from sklearn.linear_model import LinearRegression
    from sklearn.pipeline import make_pipeline
    from sklearn.preprocessing import StandardScaler, FunctionTransformer
    from sklearn.tree import DecisionTreeClassifier
    P = {}

    def naive(**k):
        from sktime.forecasting.naive import NaiveForecaster
        return NaiveForecaster(**k)

    def tsr():
        from sktime.transformations.panel.reduce import Tabularizer
        return make_pipeline(Tabularizer(), LinearRegression())

    def tsfc():
        from sktime.classification.interval_based import TimeSeriesForestClassifier
        return TimeSeriesForestClassifier(n_estimators=2)

    if name in ("EnsembleForecaster", "OnlineEnsembleForecaster"):
        P = {"forecasters": [("f1", naive()), ("f2", naive(strategy="mean"))]}
    elif name == "StackingForecaster":
        P = {"forecasters": [("f1", naive()), ("f2", naive(strategy="mean"))], "final_regressor": LinearRegression()}
    elif name == "MultiplexForecaster":
        P = {"forecasters": [("f1", naive()), ("f2", naive(strategy="mean"))], "selected_forecaster": "f1"}
    elif name == "TransformedTargetForecaster":
        from sktime.transformations.series.detrend import Detrender
        P = {"steps": [("t", Detrender()), ("f", naive())]}
    elif name.endswith("TabularRegressionForecaster"):
        P = {"estimator": LinearRegression(), "window_length": 3}
    elif name.endswith("TimeSeriesRegressionForecaster"):
        P = {"estimator": tsr(), "window_length": 3}
    elif name in ("ForecastingGridSearchCV", "ForecastingRandomizedSearchCV"):
        from sktime.forecasting.model_selection import SingleWindowSplitter
        P = {"forecaster": naive(strategy="mean"), "cv": SingleWindowSplitter(fh=1), "refit": True}
        P["param_grid" if name == "ForecastingGridSearchCV" else "param_distributions"] = {"window_length": [2, 5]}
        if name == "ForecastingRandomizedSearchCV":
            P["n_iter"] = 2
    elif name == "TabularToSeriesAdaptor":
        P = {"transformer": StandardScaler()}
    elif name == "ColumnEnsembleClassifier":
        P = {"estimators": [("c1", tsfc(), 0), ("c2", tsfc(), 0)]}
    elif name == "FittedParamExtractor":
        from sktime.forecasting.exp_smoothing import ExponentialSmoothing
        P = {"forecaster": ExponentialSmoothing(), "param_names": ["initial_level"]}
    elif name == "SeriesToPrimitivesRowTransformer":
        P = {"transformer": FunctionTransformer(np.mean, kw_args={"axis": 0}, check_inverse=False),
             "check_transformer": False}
    elif name == "SeriesToSeriesRowTransformer":
        P = {"transformer": StandardScaler(), "check_transformer": False}
    elif name == "ColumnTransformer":
        from sktime.transformations.panel.compose import SeriesToSeriesRowTransformer
        P = {"transformers": [("t1", SeriesToSeriesRowTransformer(StandardScaler(), check_transformer=False), [0])]}
    elif name == "FeatureUnion":
        from sktime.transformations.panel.compose import SeriesToSeriesRowTransformer
        P = {"transformer_list": [("t1", SeriesToSeriesRowTransformer(StandardScaler(), check_transformer=False)),
                                  ("t2", SeriesToSeriesRowTransformer(StandardScaler(), check_transformer=False))]}
    elif name == "ShapeletTransformClassifier":
        P = {"n_estimators": 2, "time_contract_in_mins": 0.01}
    elif name == "ContractedShapeletTransform":
        P = {"time_contract_in_mins": 0.01}
    elif name in ("ShapeletTransform", "_RandomEnumerationShapeletTransform"):
        P = {"max_shapelets_to_store_per_class": 1, "min_shapelet_length": 3, "max_shapelet_length": 4}
    elif name == "TSInterpolator":
        P = {"length": 10}
    elif name == "RandomIntervalSpectralForest":
        P = {"n_estimators": 2, "acf_lag": 5, "min_interval": 5}
    elif name == "SFA":
        P = {"return_pandas_data_series": True, "window_size": 8, "word_length": 4}
    elif name in ("ContractableBOSS",):
        P = {"n_parameter_samples": 4, "max_ensemble_size": 2}
    elif name == "TemporalDictionaryEnsemble":
        P = {"n_parameter_samples": 4, "max_ensemble_size": 2, "randomly_selected_params": 3}
    elif name == "BOSSEnsemble":
        P = {"max_ensemble_size": 2}
    elif name in ("TimeSeriesForestClassifier", "TimeSeriesForestRegressor", "SupervisedTimeSeriesForest",
                  "ComposableTimeSeriesForestClassifier", "ComposableTimeSeriesForestRegressor"):
        P = {"n_estimators": 2}
    elif name in ("PartialAutoCorrelationTransformer", "AutoCorrelationTransformer"):
        P = {"n_lags": 1}
    elif name == "Imputer":
        P = {"method": "mean"}
    elif name == "HampelFilter":
        P = {"window_length": 3}
    elif name == "OptionalPassthrough":
        from sktime.transformations.series.boxcox import BoxCoxTransformer
        P = {"transformer": BoxCoxTransformer(), "passthrough": False}
    elif name == "Detrender":
        P = {}
    elif name == "MUSE":
        P = {"window_inc": 4}
    elif name == "WEASEL":
        P = {"window_inc": 4}
    elif name == "Rocket":
        P = {"num_kernels": 20}
    elif name == "IntervalSegmenter":
        P = {"intervals": 2}
    elif name == "_HeterogenousEnsembleForecaster":
        P = {"forecasters": [("f1", naive()), ("f2", naive(strategy="mean"))]}
    elif name == "RandomIntervalFeatureExtractor":
        P = {"n_intervals": 2}
    elif name.endswith("MetricFunctionWrapper"):
        P = {"func": np.mean}
    elif name in ("TSCStrategy", "TSRStrategy"):
        P = {"estimator": tsfc()}
    return P


def fixture_variants(name):
    """further valid configurations whose `fit` must also leave every parameter alone (option combinations
    that take other paths through fit); the first element is always fixture_params(name)"""
    out = [fixture_params(name)]
    if name in ("ForecastingGridSearchCV", "ForecastingRandomizedSearchCV"):
        from sktime.forecasting.naive import NaiveForecaster
        from sktime.forecasting.model_selection import SlidingWindowSplitter
        gridkey = "param_grid" if name == "ForecastingGridSearchCV" else "param_distributions"
        for refit in (True, False):
            # the data trend upwards: `drift` beats the configured `mean`, so the winner differs from the
            # candidate the wrapped forecaster was constructed with
            P = {"forecaster": NaiveForecaster(strategy="mean"),
                 "cv": SlidingWindowSplitter(fh=[1, 2], initial_window=12, start_with_window=True),
                 gridkey: {"strategy": ["mean", "drift"]}, "refit": refit}
            if name == "ForecastingRandomizedSearchCV":
                P["n_iter"] = 2
                P["random_state"] = 0
            out.append(P)
    return out


def option_values(cls, pname, default):
    """other values a constructor parameter can take, read from the class itself: the opposite of a boolean
    default; for a string default the string literals the package's classes in the MRO compare the parameter with
    (`self.p == "x"`, `p in ("x", "y")`, `self.p != "x"`)."""
    import ast, textwrap
    if isinstance(default, bool):
        return [not default]
    if not isinstance(default, str):
        return []
    vals = []
    for c in cls.__mro__:
        if not (c.__module__ or "").startswith("sktime"):
            continue
        try:
            tree = ast.parse(textwrap.dedent(inspect.getsource(c)))
        except Exception:
            continue
        for n in ast.walk(tree):
            if not isinstance(n, ast.Compare):
                continue
            sides = [n.left] + list(n.comparators)
            is_p = lambda x: (isinstance(x, ast.Attribute) and x.attr == pname and isinstance(x.value, ast.Name)
                              and x.value.id == "self") or (isinstance(x, ast.Name) and x.id == pname)
            if not any(is_p(x) for x in sides):
                continue
            for x in sides:
                for y in ([x] if isinstance(x, ast.Constant) else list(getattr(x, "elts", []))):
                    if isinstance(y, ast.Constant) and isinstance(y.value, str) and y.value != default and y.value not in vals:
                        vals.append(y.value)
    return vals[:4]


def param_variants(cls, params, fx):
    """[(label, constructor kwargs)]: every boolean / option parameter moved off its default, one at a time"""
    out = []
    for p in params:
        if p.default is p.empty or p.name in fx:
            base = fx.get(p.name, None)
            if not isinstance(base, bool):
                continue
            alts = [not base]
        else:
            alts = option_values(cls, p.name, p.default)
        for a in alts:
            out.append(("%s=%s" % (p.name, str(a).replace(" ", "_").replace(",", ";")), dict(fx, **{p.name: a}), p.name, a))
    return out


def call_args(fam, method, D):
    """(args, kwargs) of a valid call of an apply-type method"""
    if fam == "forecaster":
        return {"predict": ((), {"fh": [1, 2]}),
                "update": ((D["y_new"],), {}),
                "update_predict": ((D["y_new"],), {}),
                "score": ((D["y_new"].iloc[:2],), {"fh": [1, 2]}),
                "transform": ((D["y"],), {}),
                "inverse_transform": ((D["y"],), {}),
                "predict_proba": ((), {"fh": [1, 2]})}[method]
    if fam in ("classifier", "regressor"):
        return {"predict": ((D["X"],), {}), "predict_proba": ((D["X"],), {}),
                "score": ((D["X"], D["yc"] if fam == "classifier" else D["yr"]), {}),
                "transform": ((D["X"],), {}), "inverse_transform": ((D["X"],), {}),
                "update": ((D["X"], D["yc"]), {}), "update_predict": ((D["X"],), {})}[method]
    if fam == "series":
        return {"transform": ((D["y"],), {}), "inverse_transform": ((D["y"],), {}),
                "update": ((D["y_new"],), {}), "predict": ((D["y"],), {}), "predict_proba": ((D["y"],), {}),
                "update_predict": ((D["y_new"],), {}), "score": ((D["y"],), {})}[method]
    return {"transform": ((D["X"],), {}), "inverse_transform": ((D["X"],), {}),
            "update": ((D["X"],), {}), "predict": ((D["X"],), {}), "predict_proba": ((D["X"],), {}),
            "update_predict": ((D["X"],), {}), "score": ((D["X"], D["yc"]), {})}[method]


def fit_args(fam, name, D):
    if fam == "forecaster":
        return (D["y"],), {"fh": [1, 2]}
    if fam == "classifier":
        return (D["X"], D["yc"]), {}
    if fam == "regressor":
        return (D["X"], D["yr"]), {}
    if fam == "series":
        return (D["y"],), {}
    return (D["X"], D["yc"]), {}


_DATA = None


def data():
    global _DATA
    if _DATA is None:
        X, yc = panel()
        _DATA = {"y": series(24), "y_new": series(4, start=24, seed=3), "X": X, "yc": yc,
                 "yr": np.arange(len(yc), dtype=float)}
    return _DATA


class _Timeout(BaseException):
    pass


class time_limit:
    """SIGALRM based limit for one fit / call (main thread only)"""
    def __init__(self, seconds):
        self.seconds = seconds

    def __enter__(self):
        import signal
        self.ok = threading.current_thread() is threading.main_thread() and self.seconds > 0
        if self.ok:
            def handler(signum, frame):
                raise _Timeout()
            self.old = signal.signal(signal.SIGALRM, handler)
            signal.setitimer(signal.ITIMER_REAL, self.seconds)
        return self

    def __exit__(self, *exc):
        import signal
        if self.ok:
            signal.setitimer(signal.ITIMER_REAL, 0)
            signal.signal(signal.SIGALRM, self.old)
        return False


SKIP_FIT = {"HIVECOTEV1": "default configuration trains four ensembles (hours)"}


class Sentinel:
    """an argument no constructor has any business looking into"""
    def __init__(self, tag):
        self.tag = tag

    def __repr__(self):
        return "<sentinel %s>" % self.tag


def _sentinel_function(*args, **kwargs):
    """a callable argument no constructor has any business calling"""
    raise AssertionError("sentinel called")


def equal_forms(v):
    """the same value in the other forms users pass it in"""
    if isinstance(v, bool):
        return [np.bool_(v)]
    if isinstance(v, int):
        return [np.int64(v), np.array(v)]
    if isinstance(v, float):
        return [np.float64(v), np.array(v)] if v == v else [np.float64(v)]
    if isinstance(v, str):
        return [np.str_(v)]
    if isinstance(v, list) and all(isinstance(x, (int, float, str, bool, type(None))) for x in v):
        return [tuple(v)]
    if isinstance(v, tuple) and all(isinstance(x, (int, float, str, bool, type(None))) for x in v):
        return [list(v)]
    return []


def _same_value(a, b):
    try:
        if type(a) is not type(b):
            return False
        r = (a == b) | ((a != a) & (b != b)) if isinstance(a, (float, np.floating, np.ndarray)) else a == b
        return bool(np.all(r))
    except Exception:
        return False


def _clone_routes(cls, required, pname, w):
    """[(route, what went wrong)] for: set_params(p=w) then clone; the same through a nested name; and configured
    from a numpy grid the way a tuner does (clone, set_params(**candidate), clone)"""
    from sklearn.base import clone
    from sklearn.model_selection import ParameterGrid
    bad = []

    expect = {"v": w}

    def attempt(route, make, key):
        try:
            with warnings.catch_warnings():
                warnings.simplefilter("ignore")
                expect["v"] = w
                est = make()
                c = clone(est)
                got = c.get_params(deep=True)[key]
            if not _same_value(got, expect["v"]):
                bad.append((route, "clone holds %r (%s)" % (got, type(got).__name__)))
        except BaseException as e:
            if isinstance(e, (KeyboardInterrupt, SystemExit)):
                raise
            bad.append((route, "clone raises %s" % canon_err(e)))

    def direct():
        e = cls(**required)
        e.set_params(**{pname: w})
        return e

    def nested():
        from sktime.transformations.series.compose import OptionalPassthrough
        h = OptionalPassthrough(transformer=cls(**required))
        h.set_params(**{"transformer__" + pname: w})
        return h

    def grid():
        from sktime.forecasting.compose import TransformedTargetForecaster
        h = TransformedTargetForecaster(steps=[("s", cls(**required))])
        cand = list(ParameterGrid({"s__" + pname: np.array([w]) if np.ndim(w) == 0 and not isinstance(w, (str, np.str_)) else [w]}))[0]
        expect["v"] = cand["s__" + pname]          # what the grid hands out (a numpy scalar for numbers)
        return clone(h).set_params(**cand)
    try:
        cls(**required).set_params(**{pname: w})
    except BaseException:
        return bad                       # set_params itself refuses: nothing to clone
    attempt("set_params+clone", direct, pname)
    if not bad:
        attempt("nested set_params+clone", nested, "transformer__" + pname)
    if not bad:
        attempt("numpy grid candidate+clone", grid, "s__" + pname)
    return bad


def _is_notfitted(e):
    return any(c.__name__ == "NotFittedError" for c in type(e).__mro__)


def _outcome(f, limit=10.0):
    try:
        with warnings.catch_warnings():
            warnings.simplefilter("ignore")
            with time_limit(limit):
                f()
        return "ok"
    except _Timeout:
        return "skip"
    except BaseException as e:
        if isinstance(e, (KeyboardInterrupt, SystemExit)):
            raise
        return "NF" if _is_notfitted(e) else canon_err(e)


def _same(a, b):
    """the value get_params returns is the one that was stored: identity, or equal plain data"""
    if a is b:
        return True
    try:
        if type(a) is type(b) and isinstance(a, (int, float, str, bool, tuple, type(None))):
            return a == b
    except Exception:
        pass
    return False


def _equiv(a, b, identity_leaves, depth=0):
    """a and b are the same parameter value: containers elementwise; estimators by class and parameters
    (or by identity when `identity_leaves`); everything else by identity or plain equality"""
    if a is b:
        return True
    if depth > 6:
        return True
    if isinstance(a, Sentinel) and isinstance(b, Sentinel):
        return a.tag == b.tag and not identity_leaves
    if type(a) is not type(b):
        return False
    if isinstance(a, (list, tuple)):
        return len(a) == len(b) and all(_equiv(x, y, identity_leaves, depth + 1) for x, y in zip(a, b))
    if isinstance(a, dict):
        return set(a) == set(b) and all(_equiv(a[k], b[k], identity_leaves, depth + 1) for k in a)
    if hasattr(a, "get_params") and not isinstance(a, type):
        if identity_leaves:
            return False
        try:
            ga, gb = a.get_params(deep=False), b.get_params(deep=False)
        except Exception:
            return False
        return set(ga) == set(gb) and all(_equiv(ga[k], gb[k], identity_leaves, depth + 1) for k in ga)
    if isinstance(a, np.ndarray):
        return a.shape == b.shape and bool(np.all((a == b) | ((a != a) & (b != b)))) if a.dtype.kind == "f" else a.shape == b.shape and bool(np.all(a == b))
    if isinstance(a, float) and a != a:
        return b != b
    if isinstance(a, (int, float, str, bool, type(None), bytes)):
        return a == b
    if identity_leaves:
        return False
    try:
        if bool(a == b):
            return True
    except Exception:
        pass
    return repr(a) == repr(b) or type(a).__module__.startswith(("sktime", "sklearn", "numpy", "pandas"))


def _digest(v, depth=0):
    """value of an instance attribute: by value for scalars / arrays / pandas objects / small containers,
    by identity and class for everything else"""
    if isinstance(v, float):
        return repr(v)
    if isinstance(v, (int, str, bool, bytes, type(None), np.generic)):
        return (type(v).__name__, repr(v))
    if isinstance(v, np.ndarray):
        try:
            return ("nd", v.shape, str(v.dtype), hash(v.tobytes()) if v.dtype != object else len(v))
        except Exception:
            return ("nd", v.shape)
    if isinstance(v, (pd.Series, pd.DataFrame, pd.Index)):
        try:
            return (type(v).__name__, v.shape, int(pd.util.hash_pandas_object(v, index=True).sum()) if not isinstance(v, pd.Index)
                    else int(pd.util.hash_pandas_object(v).sum()))
        except Exception:
            return (type(v).__name__, getattr(v, "shape", None), id(v))
    if depth < 3 and isinstance(v, (list, tuple)) and len(v) <= 50:
        return (type(v).__name__, tuple(_digest(x, depth + 1) for x in v))
    if depth < 3 and isinstance(v, dict) and len(v) <= 50:
        return ("dict", tuple(sorted((str(k), _digest(x, depth + 1)) for k, x in v.items())))
    return ("obj", type(v).__name__, id(v))


def _given_objects(params, depth=0, prefix=""):
    """[(path, estimator)] : every estimator object reachable from the constructor arguments"""
    out = []
    if depth > 4:
        return out

    def walk(v, path, d):
        if d > 6:
            return
        if hasattr(v, "get_params") and not isinstance(v, type):
            out.append((path, v))
            try:
                for k, x in v.get_params(deep=False).items():
                    walk(x, path + "/" + k, d + 1)
            except Exception:
                pass
        elif isinstance(v, (list, tuple)):
            for i, x in enumerate(v):
                nm = x[0] if isinstance(x, tuple) and x and isinstance(x[0], str) else str(i)
                if isinstance(x, tuple):
                    for y in x[1:]:
                        walk(y, path + "/" + nm, d + 1)
                else:
                    walk(x, path + "/" + nm, d + 1)
    for k, v in params.items():
        walk(v, k, 0)
    return out


def given_state(params):
    """{(path, attr): digest} of the instance state (vars(): private and fitted attributes) of every estimator
    object the user passed in, at any depth"""
    st = {}
    for path, obj in _given_objects(params):
        try:
            pnames = set(obj.get_params(deep=False))
        except Exception:
            pnames = set()
        try:
            items = list(vars(obj).items())
        except TypeError:
            continue
        for a, v in items:
            if a in pnames:
                continue                      # parameters are compared by the parameter snapshot
            st[(path, a)] = _digest(v)
    return st


def touched(st0, st1):
    out = []
    for key in sorted(set(st0) | set(st1)):
        if st0.get(key, "<absent>") != st1.get(key, "<absent>"):
            out.append("%s.%s" % (key[0].split("/")[0] if "/" not in key[0] else key[0].replace("/", ">"), key[1]))
    return out


def _snapshot(v, depth=0):
    """structural snapshot of a parameter value (to notice in-place mutation across fit)"""
    if depth > 4:
        return "..."
    if hasattr(v, "get_params") and not isinstance(v, type):
        # an estimator: its class, its identity, and (recursively) every parameter it holds
        try:
            return (type(v).__name__, id(v),
                    tuple(sorted((k, _snapshot(x, depth + 1)) for k, x in v.get_params(deep=False).items())))
        except Exception:
            return (type(v).__name__, id(v), "?")
    if isinstance(v, (list, tuple)):
        return tuple(_snapshot(x, depth + 1) for x in v)
    if isinstance(v, dict):
        return tuple(sorted((str(k), _snapshot(x, depth + 1)) for k, x in v.items()))
    if isinstance(v, np.ndarray):
        return ("nd", v.shape, v.tobytes()[:64])
    if isinstance(v, float):
        return repr(v)
    if isinstance(v, (int, str, bool, type(None))):
        return v
    return ("obj", type(v).__name__, id(v))


def get_impl_token(cls):
    """which get_params implementation the running class resolves to"""
    import sklearn.base
    f = cls.get_params
    if f is sklearn.base.BaseEstimator.get_params:
        return "p"
    code = getattr(f, "__code__", None)
    if code is None:
        return "c"
    if "_get_params" in code.co_names:
        strs = [c for c in code.co_consts if isinstance(c, str) and c.isidentifier() and c != code.co_consts[0]]
        strs = [c for c in code.co_consts if isinstance(c, str) and c.isidentifier() and len(c) < 40]
        for s in strs:
            if hasattr(cls, s) or s in inspect.signature(cls.__init__).parameters:
                return "m:" + s
        return "m:?"
    if "NotImplementedError" in code.co_names:
        return "x"
    return "c"


_SK_CHECK_ARRAY_CODE = None


def _guard_globals():
    """KNeighborsTimeSeriesClassifier.fit/predict swap `sklearn.utils.validation.check_array.__code__`
    and restore it only on the success path; when they raise (here: because of the newer sklearn) the
    whole process is left with a patched sklearn.  Undo that between observations."""
    global _SK_CHECK_ARRAY_CODE
    import sklearn.utils.validation as V
    f = getattr(V.check_array, "__wrapped__", V.check_array)
    if _SK_CHECK_ARRAY_CODE is None:
        _SK_CHECK_ARRAY_CODE = f.__code__
        return False
    if f.__code__ is not _SK_CHECK_ARRAY_CODE:
        f.__code__ = _SK_CHECK_ARRAY_CODE
        return True
    return False


def probe_class(module, name, key, table_params, do_fit=True, budget_s=20.0):
    _guard_globals()
    try:
        obs = _probe_class(module, name, key, table_params, do_fit, budget_s)
    finally:
        polluted = _guard_globals()
    if polluted:
        obs["fitdiag"] = (obs.get("fitdiag") or "") + " [left sklearn.check_array patched]"
    return obs


def _probe_class(module, name, key, table_params, do_fit=True, budget_s=20.0):
    """Observe one class.  Returns dict of tokens; "skip" where nothing could be observed."""
    obs = {"import": "ok", "params": None, "ctor": None, "extra": "skip", "fresh": "skip", "get": "skip",
           "rt": "skip", "cl": "skip", "unk": "skip", "guards": ["skip"] * len(APPLY), "fit": None,
           "ret": "skip", "fitted": "skip", "mro": None, "fitdiag": ""}
    cls, err = load_class(module, name)
    if cls is None:
        obs["import"] = "skip:" + err
        return obs
    obs["mro"] = [c.__name__ for c in cls.__mro__ if (c.__module__ or "").startswith("sktime")]
    try:
        sig = inspect.signature(cls.__init__)
    except (TypeError, ValueError):
        obs["import"] = "skip:no-signature"
        return obs
    params = [p for p in sig.parameters.values() if p.name != "self" and p.kind not in (p.VAR_KEYWORD, p.VAR_POSITIONAL)]
    obs["params"] = [p.name for p in params]
    required = {p.name: Sentinel("req-" + p.name) for p in params if p.default is p.empty}
    fam = family(cls)
    try:
        fx = fixture_params(name)
    except BaseException:
        fx = {}
    required = {k: fx.get(k, v) for k, v in required.items()}
    # ---- constructor contract, probed with values no constructor should look into
    ctor = []
    for p in params:
        if inspect.isabstract(cls):
            ctor.append("skip")          # abstract by declaration (abc): cannot be instantiated at all
            continue
        worst = "S"
        seen_kinds = set()
        weird = [Sentinel(p.name), None, 0, "zz", -1, _sentinel_function]
        for w in weird:
            kw = dict(required)
            kw[p.name] = w
            try:
                with warnings.catch_warnings():
                    warnings.simplefilter("ignore")
                    obj = cls(**kw)
            except BaseException as e:
                if isinstance(e, (KeyboardInterrupt, SystemExit)):
                    raise
                st = "R"
            else:
                try:
                    got = getattr(obj, p.name)
                    st = "S" if got is w else "C"
                except AttributeError:
                    st = "M"
            seen_kinds.add(st)
            if "SCRM".index(st) > "SCRM".index(worst):
                worst = st
        if p.default is not p.empty:
            # the default itself must come back unchanged
            try:
                try:
                    with warnings.catch_warnings():
                        warnings.simplefilter("ignore")
                        obj = cls(**required)
                except BaseException as e:
                    if isinstance(e, (KeyboardInterrupt, SystemExit)):
                        raise
                    raise _Timeout()          # cannot construct the default instance: nothing to read
                got = getattr(obj, p.name)
                if not (got is p.default or _equiv(got, p.default, True)):
                    worst = "C" if worst == "S" else worst
                    seen_kinds.add("D")          # the default itself comes back changed
            except AttributeError:
                worst = "M"
                seen_kinds.add("M")
            except BaseException:
                pass
        # equal-valued alternative forms of a valid value (numpy scalars for builtins, tuple <-> list, 0-d arrays):
        # N = get_params does not return the object passed; Q = the constructor rejects the form;
        # L = set_params(p=form) is accepted but the estimator can then not be cloned (directly, as a nested
        #     `name__p`, or configured the way a tuner does from a numpy grid)
        valid = required.get(p.name, p.default) if (p.default is not p.empty or p.name in required) else None
        alt_notes = []
        for w in equal_forms(valid):
            try:
                with warnings.catch_warnings():
                    warnings.simplefilter("ignore")
                    obj = cls(**dict(required, **{p.name: w}))
                    got = getattr(obj, p.name)
                if got is not w:
                    seen_kinds.add("N")
                    alt_notes.append("%s(%r) comes back as %s" % (type(w).__name__, valid, type(got).__name__))
            except AttributeError:
                pass
            except BaseException as e:
                if isinstance(e, (KeyboardInterrupt, SystemExit)):
                    raise
                seen_kinds.add("Q")
                alt_notes.append("%s(%r) rejected: %s" % (type(w).__name__, valid, canon_err(e)))
                continue
            for route, note in _clone_routes(cls, required, p.name, w):
                seen_kinds.add("L")
                alt_notes.append("%s %s(%r): %s" % (route, type(w).__name__, valid, note))
        if alt_notes:
            obs.setdefault("ctor_notes", {})[p.name] = "; ".join(alt_notes[:4])
        if worst != "S" or seen_kinds & set("NQL"):
            # every kind of deviation observed: C changed, D default changed, N/Q/L equal-valued form, R raised, M missing
            worst = "".join(k for k in "CDNQLRM" if k in seen_kinds) or worst
        if (name, "ctor", p.name) in COMPAT_ARTEFACTS:
            worst = "skip"
        ctor.append(worst)
    obs["ctor"] = ctor
    # ---- default instance
    required_fx = dict(required)
    try:
        with warnings.catch_warnings():
            warnings.simplefilter("ignore")
            base = cls(**required_fx)
    except BaseException as e:
        base = None
        obs["fitdiag"] = "default construction failed: %s" % canon_err(e)
    try:
        cls(**dict(required_fx, zz_not_a_parameter=1))
        obs["extra"] = "A"
    except TypeError:
        obs["extra"] = "R"
    except BaseException as e:
        obs["extra"] = "R"
    obs["get"] = get_impl_token(cls)
    if base is not None:
        try:
            obs["fresh"] = "T" if base.is_fitted else "F"
        except BaseException as e:
            obs["fresh"] = canon_err(e)
        # get_params returns what was passed / set_params(**get_params()) / clone / unknown names
        try:
            gp = base.get_params(deep=False)
            bad = [k for k in obs["params"] if k not in gp]
            for k, p in zip(obs["params"], params):
                if k in gp and k in required_fx and gp[k] is not required_fx[k]:
                    bad.append(k)
            before = {k: v for k, v in base.get_params(deep=True).items()}
            base.set_params(**before)
            after = base.get_params(deep=True)
            if set(before) != set(after) or any(not _equiv(before[k], after[k], True) for k in before):
                obs["rt"] = "changed"
            else:
                obs["rt"] = "ok" if not bad else "missing:" + ",".join(sorted(set(bad)))
        except BaseException as e:
            obs["rt"] = canon_err(e)
        try:
            from sklearn.base import clone
            c = clone(base)
            g1, g2 = base.get_params(deep=False), c.get_params(deep=False)
            okc = type(c) is type(base) and set(g1) == set(g2) and all(_equiv(g1[k], g2[k], False) for k in g1)
            obs["cl"] = "ok" if okc else "changed"
            if okc and obs["fresh"] == "F":
                try:
                    obs["cl"] = "ok" if c.is_fitted is False else "fitted"
                except BaseException as e:
                    obs["cl"] = "clone-is_fitted-" + canon_err(e)
        except BaseException as e:
            obs["cl"] = canon_err(e)
        try:
            base.set_params(zz_not_a_parameter=1)
            obs["unk"] = "accepted"
        except BaseException as e:
            obs["unk"] = canon_err(e)
    # ---- fitted state
    if name in ABSTRACT or fam == "other" or not do_fit:
        return obs
    if name in SKIP_FIT:
        obs["fitdiag"] = "fit skipped: " + SKIP_FIT[name]
        do_fit = False
    elif uses_stub(cls):
        obs["fitdiag"] = "fit skipped: compiled extension module not built in this sandbox"
        do_fit = False
    D = data()
    try:
        with warnings.catch_warnings():
            warnings.simplefilter("ignore")
            est = cls(**fixture_params(name))
    except BaseException as e:
        obs["fitdiag"] = "fixture construction failed: %s %s" % (canon_err(e), str(e)[:80])
        return obs
    methods = [m for m in APPLY if _has_method(est, m)]
    guards = {}
    for m in methods:
        a, k = call_args(fam, m, D)
        guards[m] = _outcome(lambda: getattr(est, m)(*a, **k))
    # the same clause for every boolean / option parameter off its default: constructed so, and switched by
    # set_params on a fresh object
    pvariants = []
    try:
        pvariants = param_variants(cls, params, fixture_params(name))
    except BaseException:
        pvariants = []
    obs["nvariants"] = 0
    for label, kw, pn_, alt in pvariants:
        for route in ("ctor", "set"):
            try:
                with warnings.catch_warnings():
                    warnings.simplefilter("ignore")
                    if route == "ctor":
                        ev = cls(**kw)
                    else:
                        ev = cls(**fixture_params(name))
                        ev.set_params(**{pn_: alt})
            except BaseException:
                continue
            obs["nvariants"] += 1
            for m in methods:
                if guards.get(m) != "NF" or not _has_method(ev, m):
                    continue
                a, k = call_args(fam, m, D)
                o2 = _outcome(lambda: getattr(ev, m)(*a, **k), limit=5.0)
                if o2 not in ("NF", "skip"):
                    guards[m] = "var:%s:%s:%s" % (route, label, o2)
    # fit
    t0 = time.time()
    try:
        before = est.get_params(deep=False)
        snap = {k: _snapshot(v) for k, v in before.items()}
        state0 = given_state(before)
    except BaseException as e:
        before, snap, state0 = None, None, None
    a, k = fit_args(fam, name, D)
    fitted_ok = False
    try:
        if not do_fit:
            raise _Timeout()
        import joblib
        with warnings.catch_warnings():
            warnings.simplefilter("ignore")
            with joblib.parallel_backend("threading"):
                with time_limit(budget_s):
                    r = est.fit(*a, **k)
        obs["ret"] = "self" if r is est else "other"
        fitted_ok = True
    except _Timeout:
        obs["fitdiag"] = obs["fitdiag"] or "fit exceeded %.0fs" % budget_s
    except BaseException as e:
        if isinstance(e, (KeyboardInterrupt, SystemExit)):
            raise
        obs["fitdiag"] = "fit failed: %s %s" % (canon_err(e), str(e)[:100])
    if fitted_ok:
        try:
            obs["fitted"] = "T" if est.is_fitted else "F"
        except BaseException as e:
            obs["fitted"] = canon_err(e)
        if before is not None:
            try:
                after = est.get_params(deep=False)
                fit_tokens = []
                for pn in obs["params"]:
                    if pn not in before or pn not in after:
                        fit_tokens.append("skip")
                    elif after[pn] is before[pn] and _snapshot(after[pn]) == snap[pn]:
                        fit_tokens.append("K")
                    elif after[pn] is before[pn]:
                        fit_tokens.append("Wm")      # same object, mutated in place
                    else:
                        fit_tokens.append("W")
                obs["fit"] = fit_tokens
            except BaseException as e:
                obs["fitdiag"] = "get_params after fit: " + canon_err(e)
            # the objects the user passed in keep their own state (private and fitted attributes) through fit
            # and through every apply-type method of the fitted composite
            try:
                touch = []
                st1 = given_state(before)
                touch.extend("fit:" + t for t in touched(state0, st1))
                for m in methods:
                    a_, k_ = call_args(fam, m, D)
                    _outcome(lambda: getattr(est, m)(*a_, **k_), limit=5.0)
                    st2 = given_state(before)
                    touch.extend("%s:%s" % (m, t) for t in touched(st1, st2))
                    st1 = st2
                obs["touch"] = touch[:12]
            except BaseException as e:
                obs["fitdiag"] += " state digest failed: " + canon_err(e)
        # other option combinations: fit must keep the (deep) parameters there as well
        if obs["fit"] is not None:
            try:
                variants = fixture_variants(name)[1:]
            except BaseException:
                variants = []
            for P in variants:
                try:
                    import joblib
                    with warnings.catch_warnings():
                        warnings.simplefilter("ignore")
                        ev = cls(**P)
                        b2 = ev.get_params(deep=False)
                        s2 = {k2: _snapshot(v2) for k2, v2 in b2.items()}
                        with joblib.parallel_backend("threading"):
                            with time_limit(budget_s):
                                ev.fit(*fit_args(fam, name, D)[0], **fit_args(fam, name, D)[1])
                        a2 = ev.get_params(deep=False)
                    for i, pn in enumerate(obs["params"]):
                        if pn not in b2 or pn not in a2 or obs["fit"][i] == "W":
                            continue
                        if a2[pn] is not b2[pn]:
                            obs["fit"][i] = "W"
                        elif _snapshot(a2[pn]) != s2[pn]:
                            obs["fit"][i] = "Wm"
                    obs["fitdiag"] += " [variant refit=%s ok]" % P.get("refit") if "refit" in P else ""
                except _Timeout:
                    pass
                except BaseException as e:
                    if isinstance(e, (KeyboardInterrupt, SystemExit)):
                        raise
                    obs["fitdiag"] += " variant fit failed: %s %s" % (canon_err(e), str(e)[:60])
        # clone of a fitted variant (boolean / option parameters off their default)
        tv0 = time.time()
        for label, kw, pn_, alt in pvariants:
            if time.time() - tv0 > budget_s:
                break
            try:
                import joblib
                from sklearn.base import clone
                with warnings.catch_warnings():
                    warnings.simplefilter("ignore")
                    ev = cls(**kw)
                    with joblib.parallel_backend("threading"):
                        with time_limit(min(budget_s, 5.0)):
                            ev.fit(*fit_args(fam, name, D)[0], **fit_args(fam, name, D)[1])
                    cv_ = clone(ev)
            except BaseException as e:
                if isinstance(e, (KeyboardInterrupt, SystemExit)):
                    raise
                continue
            for m in methods:
                if guards.get(m) != "NF" or not _has_method(cv_, m):
                    continue
                a, k = call_args(fam, m, D)
                o2 = _outcome(lambda: getattr(cv_, m)(*a, **k), limit=5.0)
                if o2 not in ("NF", "skip"):
                    guards[m] = "var:clone-of-fitted:%s:%s" % (label, o2)
        # clone of the fitted estimator: every apply-type method must raise NotFittedError again
        try:
            from sklearn.base import clone
            c = clone(est)
            try:
                cf = c.is_fitted
            except BaseException as e:
                cf = canon_err(e)
            if cf is not False:
                obs["cl"] = "clone-of-fitted-is_fitted=%s" % cf
            for m in methods:
                a, k = call_args(fam, m, D)
                o2 = _outcome(lambda: getattr(c, m)(*a, **k))
                if guards[m] == "NF" and o2 != "NF":
                    guards[m] = "clone:" + o2
        except BaseException as e:
            obs["fitdiag"] += " clone of fitted failed: " + canon_err(e)
    obs["guards"] = [guards.get(m, "-") for m in APPLY]
    obs["fit_s"] = round(time.time() - t0, 2)
    return obs


def _has_method(est, m):
    try:
        return callable(getattr(est, m))
    except BaseException:
        return False
