"""C04 translator: sktime source  ->  ClassTable / GuardTable / FitWrites  (DESIGN.md 2.5).

Pure `ast` walk over $SKTIME_REPO/sktime/**/*.py (default /repo); nothing is imported, so
classes whose modules cannot be imported in the sandbox are covered as well.  The result is a
plain dict (`extract()`), which `to_lean()` prints as a Lean file over `SkVerif.Params`
(names interned to `Nat`).  A construct that is not understood is emitted as `other` /
`escape` and makes the class / method NOT well-formed / NOT guarded -- never silently accepted.

What is read per class
  * bases (resolved through the importing module's `import` statements, following re-exports),
    C3 linearisation over the classes of the package (classes outside the package are leaves),
  * `__init__`: parameters, and the body as `assign attr expr | super target args | raise | other | pure`,
    statements under `if/for/while/try/with` carry `cond = true`,
  * every method / property: the events in evaluation order
    `check | use attr | write attr | self m | super m | escape | raise | ret`,
  * attributes bound in the class body, and which `get_params/set_params` implementation the
    class defines (`_get_params("<attr>")` = sktime's heterogeneous meta-estimator protocol).

CLI:  python classtable.py [--json]      (prints a summary / the table as JSON)
"""
import ast
import os
import sys
import json

APPLY_METHODS = ["predict", "predict_proba", "transform", "inverse_transform", "update",
                 "update_predict", "score"]

# classes outside the package whose get_params/set_params follow sklearn's `_BaseComposition`
EXTERNAL_META = {"sklearn.pipeline.FeatureUnion": "transformer_list",
                 "sklearn.compose.ColumnTransformer": "_transformers",
                 "sklearn.pipeline.Pipeline": "steps"}
# leading positional parameters of the constructors of classes outside the package that the package
# calls positionally (signatures of the scikit-learn release sktime 0.6.0 was written against, 0.24)
EXTERNAL_POSITIONAL = {
    "sklearn.ensemble._forest.BaseForest": ["base_estimator", "n_estimators", "estimator_params"],
    "sklearn.ensemble._forest.ForestClassifier": ["base_estimator", "n_estimators", "estimator_params"],
    "sklearn.ensemble._forest.ForestRegressor": ["base_estimator", "n_estimators", "estimator_params"],
    "sklearn.neighbors.KNeighborsClassifier": ["n_neighbors"],
    "sklearn.pipeline.FeatureUnion": ["transformer_list"],
    "sklearn.compose.ColumnTransformer": ["transformers"],
}
ESTIMATOR_ROOTS_EXTERNAL_PREFIX = ("sklearn.",)
SKTIME_BASE = ("sktime.base._base", "BaseEstimator")
# method names that modify the object they are called on (estimators, lists, dicts)
MUTATORS = {"set_params", "fit", "fit_transform", "fit_predict", "partial_fit", "update", "append", "extend",
            "insert", "pop", "remove", "clear", "sort", "reverse", "setdefault", "popitem", "__setitem__"}


def repo_root():
    return os.environ.get("SKTIME_REPO", "/repo")


# --------------------------------------------------------------------------- module loading
class Module:
    def __init__(self, name, path, tree, is_pkg):
        self.name, self.path, self.tree, self.is_pkg = name, path, tree, is_pkg
        self.classes = {}      # short name -> ClassDef
        self.imports = {}      # local name -> ("mod", dotted) | ("obj", module, name)
        pkg = name if is_pkg else name.rsplit(".", 1)[0]
        for node in ast.walk(tree):
            if isinstance(node, ast.ImportFrom):
                if node.level:
                    base = pkg.split(".")
                    if node.level > 1:
                        base = base[:-(node.level - 1)]
                    mod = ".".join(base + ([node.module] if node.module else []))
                else:
                    mod = node.module or ""
                for a in node.names:
                    if a.name == "*":
                        self.imports.setdefault("*", []).append(mod)
                    else:
                        self.imports[a.asname or a.name] = ("obj", mod, a.name)
            elif isinstance(node, ast.Import):
                for a in node.names:
                    if a.asname:
                        self.imports[a.asname] = ("mod", a.name)
                    else:
                        self.imports[a.name.split(".")[0]] = ("mod", a.name.split(".")[0])
        for node in tree.body:
            if isinstance(node, ast.ClassDef):
                self.classes[node.name] = node
        # classes defined under `if`/`try` at module level
        for node in tree.body:
            if isinstance(node, (ast.If, ast.Try)):
                for sub in ast.walk(node):
                    if isinstance(sub, ast.ClassDef):
                        self.classes.setdefault(sub.name, sub)


def load_modules(root):
    mods = {}
    top = os.path.join(root, "sktime")
    for d, ds, fs in os.walk(top):
        ds[:] = sorted(x for x in ds if x not in ("tests", "__pycache__"))
        for f in sorted(fs):
            if not f.endswith(".py"):
                continue
            p = os.path.join(d, f)
            rel = os.path.relpath(p, root)
            parts = rel[:-3].split(os.sep)
            is_pkg = parts[-1] == "__init__"
            if is_pkg:
                parts = parts[:-1]
            name = ".".join(parts)
            try:
                tree = ast.parse(open(p, encoding="utf-8").read())
            except SyntaxError:
                continue
            mods[name] = Module(name, rel, tree, is_pkg)
    return mods


def resolve(mods, modname, name, depth=0):
    """-> ("int", module, clsname) | ("ext", dotted)"""
    if depth > 12:
        return ("ext", modname + "." + name)
    m = mods.get(modname)
    if m is None:
        return ("ext", modname + "." + name)
    if name in m.classes:
        return ("int", modname, name)
    imp = m.imports.get(name)
    if imp is not None:
        if imp[0] == "obj":
            _, tm, tn = imp
            if tm in mods:
                if (tm + "." + tn) in mods and tn not in mods[tm].classes and tn not in mods[tm].imports:
                    return ("ext", tm + "." + tn)       # a submodule, not a class
                return resolve(mods, tm, tn, depth + 1)
            return ("ext", tm + "." + tn)
        return ("ext", imp[1])
    for sm in m.imports.get("*", []):
        if sm in mods:
            r = resolve(mods, sm, name, depth + 1)
            if r[0] == "int":
                return r
    return ("ext", modname + "." + name)


def resolve_expr(mods, modname, node):
    if isinstance(node, ast.Name):
        return resolve(mods, modname, node.id)
    if isinstance(node, ast.Attribute):
        parts = []
        cur = node
        while isinstance(cur, ast.Attribute):
            parts.append(cur.attr)
            cur = cur.value
        if isinstance(cur, ast.Name):
            parts.append(cur.id)
            parts.reverse()
            m = mods.get(modname)
            imp = m.imports.get(parts[0]) if m else None
            if imp and imp[0] == "mod":
                dotted = imp[1] + "." + ".".join(parts[1:])
            elif imp and imp[0] == "obj":
                dotted = imp[1] + "." + imp[2] + "." + ".".join(parts[1:])
            else:
                dotted = ".".join(parts)
            mod, _, cls = dotted.rpartition(".")
            if mod in mods:
                return resolve(mods, mod, cls)
            return ("ext", dotted)
    return ("ext", "?" + ast.unparse(node))


# --------------------------------------------------------------------------- helpers on AST
def mentions(node, name="self"):
    return any(isinstance(n, ast.Name) and n.id == name for n in ast.walk(node))


def is_self_attr(node):
    return isinstance(node, ast.Attribute) and isinstance(node.value, ast.Name) and node.value.id == "self"


def is_super_call(node):
    """super().m(...) / super(C, self).m(...)  -> method name"""
    if isinstance(node, ast.Call) and isinstance(node.func, ast.Attribute):
        v = node.func.value
        if isinstance(v, ast.Call) and isinstance(v.func, ast.Name) and v.func.id == "super":
            return node.func.attr
    return None


def src(node, n=90):
    try:
        s = " ".join(ast.unparse(node).split())
    except Exception:
        s = "?"
    return s[:n]


# --------------------------------------------------------------------------- constructor bodies
class CtorWalker:
    def __init__(self, mods, modname, params, kwarg_name=None):
        self.mods, self.modname = mods, modname
        self.kwarg_name = kwarg_name
        self.params = set(params)
        self.env = {}          # local name -> expr
        self.out = []

    def expr(self, node):
        if isinstance(node, ast.Name):
            if node.id in self.env:
                return self.env[node.id]
            if node.id in self.params:
                return {"k": "param", "p": node.id}
        names = {n.id for n in ast.walk(node) if isinstance(n, ast.Name)}
        dep = False
        for nm in names:
            if nm == "self" or nm in self.params:
                dep = True
            elif nm in self.env and self.env[nm]["k"] != "const":
                dep = True
        if dep:
            return {"k": "derived", "src": src(node, 60)}
        return {"k": "const", "src": src(node, 40)}

    def assign_target(self, tgt, e, cond, line):
        if is_self_attr(tgt):
            self.out.append({"k": "assign", "attr": tgt.attr, "e": e, "cond": cond, "line": line})
        elif isinstance(tgt, ast.Name):
            if cond and tgt.id in (self.params | set(self.env)):
                prev = self.env.get(tgt.id, {"k": "param", "p": tgt.id} if tgt.id in self.params else None)
                self.env[tgt.id] = e if prev == e else {"k": "derived", "src": "phi(%s)" % tgt.id}
            else:
                self.env[tgt.id] = e
        elif isinstance(tgt, (ast.Tuple, ast.List)):
            for t in tgt.elts:
                self.assign_target(t, {"k": "derived", "src": "unpack"} if e["k"] != "const" else e, cond, line)
        elif mentions(tgt):
            self.out.append({"k": "other", "src": src(tgt), "line": line})
        # subscript / attribute of a local: no effect on self

    def stmts(self, body, cond):
        for i, s in enumerate(body):
            self.stmt(s, cond, last=(i == len(body) - 1))

    def stmt(self, s, cond, last=False):
        line = getattr(s, "lineno", 0)
        if isinstance(s, ast.Expr) and isinstance(s.value, ast.Constant):
            return
        if isinstance(s, ast.Pass):
            return
        if isinstance(s, ast.Assign):
            if (len(s.targets) == 1 and isinstance(s.targets[0], (ast.Tuple, ast.List))
                    and isinstance(s.value, (ast.Tuple, ast.List))
                    and len(s.targets[0].elts) == len(s.value.elts)):
                es = [self.expr(v) for v in s.value.elts]
                for t, e in zip(s.targets[0].elts, es):
                    self.assign_target(t, e, cond, line)
                return
            e = self.expr(s.value)
            if self._effect_in_expr(s.value, line):
                return
            if e["k"] == "derived":
                # a computation on the arguments inside the constructor may reject them
                self.out.append({"k": "raise", "explicit": False, "src": "computation " + src(s.value, 60), "line": line})
            for t in s.targets:
                self.assign_target(t, e, cond, line)
            return
        if isinstance(s, ast.AnnAssign):
            if s.value is not None:
                self.assign_target(s.target, self.expr(s.value), cond, line)
            return
        if isinstance(s, ast.AugAssign):
            self.assign_target(s.target, {"k": "derived", "src": src(s, 60)}, cond, line)
            return
        if isinstance(s, ast.Expr):
            v = s.value
            if isinstance(v, ast.Call):
                sm = is_super_call(v)
                if sm == "__init__":
                    self.super_call(None, v, cond, line, skip_self=False)
                    return
                if (isinstance(v.func, ast.Attribute) and v.func.attr == "__init__"
                        and v.args and isinstance(v.args[0], ast.Name) and v.args[0].id == "self"):
                    tgt = resolve_expr(self.mods, self.modname, v.func.value)
                    self.super_call(tgt, v, cond, line, skip_self=True)
                    return
            if not mentions(v):
                self.out.append({"k": "pure", "src": src(v), "line": line})
            else:
                self.out.append({"k": "other", "src": src(v), "line": line})
            return
        if isinstance(s, (ast.Raise, ast.Assert)):
            self.out.append({"k": "raise", "explicit": True, "src": src(s), "line": line})
            return
        if isinstance(s, ast.If):
            if self._effect_in_expr(s.test, line):
                return
            self.stmts(s.body, True)
            self.stmts(s.orelse, True)
            return
        if isinstance(s, (ast.For, ast.While)):
            hdr = s.iter if isinstance(s, ast.For) else s.test
            if self._effect_in_expr(hdr, line):
                return
            if isinstance(s, ast.For):
                self.assign_target(s.target, {"k": "derived", "src": "loop"}, True, line)
            self.stmts(s.body, True)
            self.stmts(s.orelse, True)
            return
        if isinstance(s, ast.Try):
            self.stmts(s.body, True)
            for h in s.handlers:
                self.stmts(h.body, True)
            self.stmts(s.orelse, True)
            self.stmts(s.finalbody, True)
            return
        if isinstance(s, ast.With):
            for it in s.items:
                if self._effect_in_expr(it.context_expr, line):
                    return
            self.stmts(s.body, cond)
            return
        if isinstance(s, ast.Return):
            if not (last and not cond):
                self.out.append({"k": "other", "src": "early return", "line": line})
            return
        if isinstance(s, (ast.Import, ast.ImportFrom, ast.Global, ast.Nonlocal)):
            return
        if isinstance(s, (ast.FunctionDef, ast.ClassDef, ast.Delete)) or True:
            self.out.append({"k": "other" if mentions(s) else "pure", "src": src(s), "line": line})

    def _effect_in_expr(self, node, line):
        """a call inside an expression that may write to self (self passed on, or a self method)"""
        for n in ast.walk(node):
            if isinstance(n, ast.Call):
                f = n.func
                if is_self_attr(f) or (isinstance(f, ast.Attribute) and is_self_attr(f.value) and False):
                    self.out.append({"k": "other", "src": src(n), "line": line})
                    return True
                for a in list(n.args) + [k.value for k in n.keywords]:
                    if isinstance(a, ast.Name) and a.id == "self":
                        self.out.append({"k": "other", "src": src(n), "line": line})
                        return True
        return False

    def super_call(self, target, call, cond, line, skip_self):
        args = call.args[1:] if skip_self else call.args
        # `**kwargs` of the constructor's own signature forwarded as is: its keys are by construction not
        # parameters of this class nor explicitly passed keywords, so it cannot overwrite a stored parameter
        star = any(isinstance(a, ast.Starred) for a in args) or any(
            k.arg is None and not (isinstance(k.value, ast.Name) and k.value.id == self.kwarg_name)
            for k in call.keywords)
        pos = [self.expr(a) for a in args if not isinstance(a, ast.Starred)]
        kw = [[k.arg, self.expr(k.value)] for k in call.keywords if k.arg is not None]
        self.out.append({"k": "super", "target": target, "pos": pos, "kw": kw, "star": star,
                         "cond": cond, "line": line})


# --------------------------------------------------------------------------- method events
class EventWalker:
    """Events of a method body in evaluation order (conservative approximation)."""

    def __init__(self):
        self.ev = []

    def emit(self, k, cond, **kw):
        d = {"k": k, "cond": cond}
        d.update(kw)
        self.ev.append(d)

    # -- expressions
    def expr(self, n, cond):
        if n is None:
            return
        if isinstance(n, ast.Call):
            sm = is_super_call(n)
            if sm is not None:
                for a in n.args:
                    self.expr(a, cond)
                for k in n.keywords:
                    self.expr(k.value, cond)
                self.emit("super", cond, m=sm)
                return
            f = n.func
            # sklearn-style check_is_fitted(self, ...)
            if isinstance(f, ast.Name) and f.id == "check_is_fitted" and n.args and \
                    isinstance(n.args[0], ast.Name) and n.args[0].id == "self":
                self.emit("check", cond)
                return
            if is_self_attr(f):
                for a in n.args:
                    self.expr(a, cond)
                for k in n.keywords:
                    self.expr(k.value, cond)
                self.emit("self", cond, m=f.attr)
                return
            # self.<attr>.<mutator>(...): the object bound to the attribute is modified in place
            if isinstance(f, ast.Attribute) and is_self_attr(f.value) and f.attr in MUTATORS:
                self.expr(f, cond)
                for a in n.args:
                    self.expr(a.value if isinstance(a, ast.Starred) else a, cond)
                for k in n.keywords:
                    self.expr(k.value, cond)
                self.emit("write", cond, a=f.value.attr)
                return
            self.expr(f, cond)
            esc = False
            for a in n.args:
                if isinstance(a, ast.Name) and a.id == "self":
                    esc = True
                else:
                    self.expr(a.value if isinstance(a, ast.Starred) else a, cond)
            for k in n.keywords:
                if isinstance(k.value, ast.Name) and k.value.id == "self":
                    esc = True
                else:
                    self.expr(k.value, cond)
            if esc:
                self.emit("escape", cond, src=src(n, 50))
            return
        if is_self_attr(n):
            if isinstance(n.ctx, ast.Load):
                self.emit("use", cond, a=n.attr)
            return
        if isinstance(n, ast.Name):
            if n.id == "self" and isinstance(n.ctx, ast.Load):
                self.emit("escape", cond, src="self")
            return
        if isinstance(n, ast.IfExp):
            self.expr(n.test, cond)
            self.expr(n.body, True)
            self.expr(n.orelse, True)
            return
        if isinstance(n, ast.BoolOp):
            for i, v in enumerate(n.values):
                self.expr(v, cond if i == 0 else True)
            return
        if isinstance(n, (ast.ListComp, ast.SetComp, ast.GeneratorExp, ast.DictComp)):
            for i, g in enumerate(n.generators):
                self.expr(g.iter, cond if i == 0 else True)
                for c in g.ifs:
                    self.expr(c, True)
            if isinstance(n, ast.DictComp):
                self.expr(n.key, True)
                self.expr(n.value, True)
            else:
                self.expr(n.elt, True)
            return
        if isinstance(n, ast.Lambda):
            self.expr(n.body, True)
            return
        for c in ast.iter_child_nodes(n):
            if isinstance(c, ast.expr):
                self.expr(c, cond)
            elif isinstance(c, (ast.keyword,)):
                self.expr(c.value, cond)
            elif isinstance(c, ast.comprehension):
                self.expr(c.iter, cond)

    def target(self, t, cond):
        if is_self_attr(t):
            self.emit("write", cond, a=t.attr)
        elif isinstance(t, (ast.Tuple, ast.List)):
            for e in t.elts:
                self.target(e, cond)
        elif isinstance(t, ast.Starred):
            self.target(t.value, cond)
        elif isinstance(t, (ast.Subscript, ast.Attribute)):
            # self.a[k] = v  /  self.a.b = v : reads self.a, mutates the object bound to it
            base = t.value
            while isinstance(base, (ast.Subscript, ast.Attribute)) and not is_self_attr(base):
                base = base.value
            if is_self_attr(base):
                self.emit("use", cond, a=base.attr)
                self.emit("write", cond, a=base.attr)
            else:
                self.expr(t.value, cond)
            if isinstance(t, ast.Subscript):
                self.expr(t.slice, cond)

    # -- statements
    def stmts(self, body, cond):
        for s in body:
            self.stmt(s, cond)

    def stmt(self, s, cond):
        if isinstance(s, ast.Expr):
            if isinstance(s.value, ast.Constant):
                return
            # self.check_is_fitted() is an ordinary self call: resolved through the MRO in Lean
            self.expr(s.value, cond)
        elif isinstance(s, ast.Assign):
            self.expr(s.value, cond)
            for t in s.targets:
                self.target(t, cond)
        elif isinstance(s, ast.AnnAssign):
            self.expr(s.value, cond)
            if s.value is not None:
                self.target(s.target, cond)
        elif isinstance(s, ast.AugAssign):
            if is_self_attr(s.target):
                self.emit("use", cond, a=s.target.attr)
            self.expr(s.value, cond)
            self.target(s.target, cond)
        elif isinstance(s, ast.Return):
            rs = isinstance(s.value, ast.Name) and s.value.id == "self"
            if not rs:
                self.expr(s.value, cond)
            self.emit("ret", cond, rs=rs)
        elif isinstance(s, ast.Raise):
            self.expr(s.exc, cond)
            self.emit("raise", cond, state=False)
        elif isinstance(s, ast.Assert):
            self.expr(s.test, cond)
        elif isinstance(s, ast.If):
            n0 = len(self.ev)
            self.expr(s.test, cond)
            state = any(e["k"] in ("use", "self", "super", "escape") for e in self.ev[n0:]) or mentions(s.test)
            n1 = len(self.ev)
            self.stmts(s.body, True)
            self.stmts(s.orelse, True)
            if state:
                for e in self.ev[n1:]:
                    if e["k"] == "raise":
                        e["state"] = True
        elif isinstance(s, ast.For):
            self.expr(s.iter, cond)
            self.target(s.target, True)
            self.stmts(s.body, True)
            self.stmts(s.orelse, True)
        elif isinstance(s, ast.While):
            self.expr(s.test, cond)
            self.stmts(s.body, True)
            self.stmts(s.orelse, True)
        elif isinstance(s, ast.Try):
            self.stmts(s.body, cond)
            for h in s.handlers:
                self.stmts(h.body, True)
            self.stmts(s.orelse, True)
            self.stmts(s.finalbody, cond)
        elif isinstance(s, ast.With):
            for it in s.items:
                self.expr(it.context_expr, cond)
                if it.optional_vars is not None:
                    self.target(it.optional_vars, cond)
            self.stmts(s.body, cond)
        elif isinstance(s, (ast.FunctionDef, ast.AsyncFunctionDef)):
            # nested function: body may run later; treat its events as conditional
            self.stmts(s.body, True)
        elif isinstance(s, ast.Delete):
            for t in s.targets:
                self.target(t, cond)
        elif isinstance(s, (ast.Pass, ast.Import, ast.ImportFrom, ast.Global, ast.Nonlocal, ast.Break,
                            ast.Continue, ast.ClassDef)):
            return
        else:
            if mentions(s):
                self.emit("escape", cond, src=src(s, 50))


def method_events(fn):
    w = EventWalker()
    w.stmts(fn.body, False)
    # `yield` inside a @contextmanager: what follows runs later; keep as is (conservative enough)
    return w.ev


# --------------------------------------------------------------------------- C3
def c3(key, bases_of, memo):
    if key in memo:
        return memo[key]
    memo[key] = [key]          # cycle guard
    bases = bases_of.get(key, [])
    seqs = [list(c3(b, bases_of, memo)) for b in bases] + [list(bases)]
    res = [key]
    while True:
        seqs = [s for s in seqs if s]
        if not seqs:
            break
        cand = None
        for s in seqs:
            c = s[0]
            if not any(c in t[1:] for t in seqs):
                cand = c
                break
        if cand is None:       # inconsistent hierarchy: fall back to depth-first order
            for s in seqs:
                for c in s:
                    if c not in res:
                        res.append(c)
            break
        res.append(cand)
        for s in seqs:
            if s and s[0] == cand:
                del s[0]
    memo[key] = res
    return res


# --------------------------------------------------------------------------- extraction
def external_names(dotted):
    """attribute names a class outside the package provides (from the installed library; None = unknown).
    Only used to decide whether a lookup that passes such a class in the MRO can stop there."""
    import importlib
    mod, _, cls = dotted.rpartition(".")
    try:
        c = getattr(importlib.import_module(mod), cls)
        return sorted(n for n in dir(c))
    except BaseException:
        return None


def _meta_attr(fn, helper):
    """`return self._get_params("steps", deep=deep)` / `self._set_params("steps", **kw)` -> "steps" """
    for n in ast.walk(fn):
        if isinstance(n, ast.Call) and is_self_attr(n.func) and n.func.attr == helper and n.args \
                and isinstance(n.args[0], ast.Constant) and isinstance(n.args[0].value, str):
            return n.args[0].value
    return None


def extract(root=None):
    root = root or repo_root()
    mods = load_modules(root)
    raw = {}        # (module, name) -> info
    for mname, m in mods.items():
        for cname, node in m.classes.items():
            raw[(mname, cname)] = (m, node)
    short_count = {}
    for (mn, cn) in raw:
        short_count[cn] = short_count.get(cn, 0) + 1

    def keyof(r):
        if r[0] == "int":
            _, mn, cn = r
            return cn if short_count.get(cn, 0) == 1 else "%s@%s" % (cn, mn.replace("sktime.", ""))
        return "ext:" + r[1]

    classes = {}
    bases_of = {}
    for (mn, cn), (m, node) in sorted(raw.items()):
        key = keyof(("int", mn, cn))
        bases = []
        for b in node.bases:
            r = resolve_expr(mods, mn, b)
            bk = keyof(r)
            if bk in ("ext:builtins.object", "ext:%s.object" % mn):
                continue
            bases.append(bk)
        bases_of[key] = bases
        info = {"key": key, "name": cn, "module": mn, "file": m.path, "line": node.lineno,
                "bases": bases, "external": False, "init": None, "class_attrs": [], "methods": {},
                "get_params": None, "set_params": None, "dynamic_attr_hooks": []}
        for item in node.body:
            if isinstance(item, ast.Assign):
                for t in item.targets:
                    if isinstance(t, ast.Name):
                        info["class_attrs"].append(t.id)
            elif isinstance(item, ast.AnnAssign) and isinstance(item.target, ast.Name):
                info["class_attrs"].append(item.target.id)
            elif isinstance(item, (ast.FunctionDef, ast.AsyncFunctionDef)):
                decos = [src(d, 60) for d in item.decorator_list]
                is_prop = any(d == "property" or d.endswith(".getter") for d in decos)
                is_setter = any(d.endswith(".setter") or d.endswith(".deleter") for d in decos)
                if item.name in ("__setattr__", "__getattr__", "__getattribute__", "__delattr__"):
                    info["dynamic_attr_hooks"].append(item.name)
                if item.name == "__init__":
                    a = item.args
                    allp = list(a.posonlyargs) + list(a.args)
                    params = [x.arg for x in allp[1:]]
                    ndef = len(a.defaults)
                    has_def = [False] * (len(allp) - ndef) + [True] * ndef
                    has_def = has_def[1:] if len(has_def) == len(allp) else has_def
                    plist = [{"name": p, "default": d, "kwonly": False} for p, d in zip(params, has_def)]
                    for x, d in zip(a.kwonlyargs, a.kw_defaults):
                        plist.append({"name": x.arg, "default": d is not None, "kwonly": True})
                    w = CtorWalker(mods, mn, [p["name"] for p in plist], a.kwarg.arg if a.kwarg else None)
                    w.stmts(item.body, False)
                    body = w.out
                    for st in body:
                        if st["k"] == "super" and st["target"] is not None:
                            st["target"] = keyof(st["target"])
                    info["init"] = {"params": plist, "vararg": a.vararg is not None,
                                    "kwarg": a.kwarg is not None, "body": body, "line": item.lineno}
                    continue
                if is_setter:
                    info["methods"].setdefault(item.name, {"events": [], "prop": True, "line": item.lineno})
                    info["methods"][item.name]["setter"] = True
                    continue
                ev = method_events(item)
                if (mn, cn) == SKTIME_BASE and item.name == "check_is_fitted":
                    ev = [{"k": "check", "cond": False}]
                if (mn, cn) == SKTIME_BASE and item.name == "is_fitted":
                    ev = [{"k": "ret", "cond": False}]
                info["methods"][item.name] = {"events": ev, "prop": is_prop, "line": item.lineno,
                                              "decos": decos}
                if item.name == "get_params":
                    a_ = _meta_attr(item, "_get_params")
                    info["get_params"] = {"meta": a_} if a_ else (
                        {"abstract": True} if any(isinstance(x, ast.Raise) for x in item.body) else {"custom": True})
                if item.name == "set_params":
                    a_ = _meta_attr(item, "_set_params")
                    info["set_params"] = {"meta": a_} if a_ else (
                        {"abstract": True} if any(isinstance(x, ast.Raise) for x in item.body) else {"custom": True})
        classes[key] = info
    # external leaves
    for key, bs in list(bases_of.items()):
        for b in bs:
            if b.startswith("ext:") and b not in classes:
                classes[b] = {"key": b, "name": b[4:].rsplit(".", 1)[-1], "module": b[4:].rsplit(".", 1)[0],
                              "file": None, "line": 0, "bases": [], "external": True, "init": None,
                              "class_attrs": [], "methods": {}, "get_params": None, "set_params": None,
                              "dynamic_attr_hooks": []}
                classes[b]["ext_positional"] = EXTERNAL_POSITIONAL.get(b[4:], [])
                classes[b]["ext_names"] = external_names(b[4:])
                if b[4:] in EXTERNAL_META:
                    classes[b]["get_params"] = {"meta": EXTERNAL_META[b[4:]]}
                    classes[b]["set_params"] = {"meta": EXTERNAL_META[b[4:]]}
                bases_of[b] = []
    memo = {}
    for key in classes:
        classes[key]["mro"] = c3(key, bases_of, memo)

    base_key = keyof(("int",) + SKTIME_BASE)

    def is_estimator(info):
        for k in info["mro"]:
            if k == base_key:
                return True
            if k.startswith("ext:") and (k[4:].startswith(ESTIMATOR_ROOTS_EXTERNAL_PREFIX)):
                return True
        return False

    estimators = sorted(k for k, v in classes.items() if not v["external"] and is_estimator(v))
    needed = set()
    for k in estimators:
        needed.update(classes[k]["mro"])
    return {"root": root, "classes": {k: classes[k] for k in sorted(needed)}, "estimators": estimators,
            "base": base_key}


# --------------------------------------------------------------------------- Lean printer
class Interner:
    def __init__(self):
        self.ids = {}
        self.names = []

    def __call__(self, s):
        if s not in self.ids:
            self.ids[s] = len(self.names)
            self.names.append(s)
        return self.ids[s]


def _lean_expr(e, I, counter):
    if e["k"] == "param":
        return "(.param %d)" % I(e["p"])
    if e["k"] == "const" and e.get("src") in ("False", "True"):
        return "(.lit %s)" % e["src"].lower()
    counter[0] += 1
    if e["k"] == "const":
        return "(.const %d)" % counter[0]
    return "(.derived %d)" % counter[0]


def _b(x):
    return "true" if x else "false"


def to_lean(data, I=None, namespace="SkVerif.Gen"):
    """Lean source of the table (definitions only).  Returns (text, interner)."""
    I = I or Interner()
    for m in APPLY_METHODS + ["fit", "_fit", "__init__", "check_is_fitted", "_is_fitted", "is_fitted"]:
        I(m)
    out = ["import SkVerif.Model.Params", "set_option maxRecDepth 100000", "namespace %s" % namespace,
           "open SkVerif.Params", ""]
    cnt = [0]
    defs = []
    ordered = [kv for kv in data["classes"].items() if not kv[1]["external"]] + \
              [kv for kv in data["classes"].items() if kv[1]["external"]]
    for key, c in ordered:
        ident = "c%d" % I(key)
        lines = ["/-- %s  (%s:%s) -/" % (key, c["file"], c["line"]),
                 "def %s : ClassEntry Nat := {" % ident,
                 "  name := %d, external := %s, extPositional := [%s]," % (
                     I(key), _b(c["external"]), ", ".join(str(I(x)) for x in c.get("ext_positional", []))),
                 "  extKnown := %s, extNames := [%s]," % (
                     _b(c.get("ext_names") is not None),
                     ", ".join(str(I.ids[x]) for x in (c.get("ext_names") or []) if x in I.ids)),
                 "  mro := [%s]," % ", ".join(str(I(k)) for k in c["mro"])]
        if c["init"] is None:
            lines.append("  init := none,")
        else:
            ini = c["init"]
            ps = ", ".join("(%d, %s)" % (I(p["name"]), _b(p["default"])) for p in ini["params"])
            body = []
            for st in ini["body"]:
                if st["k"] == "assign":
                    body.append(".assign %d %s %s" % (I(st["attr"]), _lean_expr(st["e"], I, cnt), _b(st["cond"])))
                elif st["k"] == "super":
                    tgt = "none" if st["target"] is None else "(some %d)" % I(st["target"])
                    pos = "[%s]" % ", ".join(_lean_expr(e, I, cnt) for e in st["pos"])
                    kw = "[%s]" % ", ".join("(%d, %s)" % (I(n), _lean_expr(e, I, cnt)) for n, e in st["kw"])
                    body.append(".superCall %s %s %s %s %s" % (tgt, pos, kw, _b(st["star"]), _b(st["cond"])))
                elif st["k"] == "raise":
                    body.append(".raiseIf %s" % _b(st.get("explicit", True)))
                elif st["k"] == "pure":
                    body.append(".pure")
                else:
                    body.append(".other")
            lines.append("  init := some {\n    params := [%s],\n    varargs := %s,\n    body := [%s] }," % (
                ps, _b(ini["vararg"] or ini["kwarg"]), ",\n      ".join(body)))
        ms = []
        for mname, m in sorted(c["methods"].items()):
            evs = []
            for e in m["events"]:
                k = e["k"]
                if k == "check":
                    evs.append(".check %s" % _b(e["cond"]))
                elif k == "use":
                    evs.append(".use %d" % I(e["a"]))
                elif k == "write":
                    evs.append(".write %d" % I(e["a"]))
                elif k == "self":
                    evs.append(".callSelf %d" % I(e["m"]))
                elif k == "super":
                    evs.append(".callSuper %d" % I(e["m"]))
                elif k == "escape":
                    evs.append(".escape")
                elif k == "raise":
                    evs.append(".raise %s %s" % (_b(e["cond"]), _b(e.get("state", False))))
                elif k == "ret":
                    evs.append(".ret %s %s" % (_b(e["cond"]), _b(e.get("rs", False))))
            ms.append("{ name := %d, isProp := %s, events := [%s] }" % (I(mname), _b(m.get("prop", False)), ", ".join(evs)))
        lines.append("  methods := [%s]," % ",\n    ".join(ms))
        lines.append("  classAttrs := [%s]," % ", ".join(str(I(a)) for a in c["class_attrs"]))
        gp = c["get_params"]
        if gp is None:
            g = ".inherit"
        elif "meta" in gp:
            g = ".viaMeta %d" % I(gp["meta"])
        elif "abstract" in gp:
            g = ".abstr"
        else:
            g = ".custom"
        sp = c["set_params"]
        if sp is None:
            s_ = ".inherit"
        elif "meta" in sp:
            s_ = ".viaMeta %d" % I(sp["meta"])
        elif "abstract" in sp:
            s_ = ".abstr"
        else:
            s_ = ".custom"
        lines.append("  getImpl := %s, setImpl := %s," % (g, s_))
        lines.append("  hooks := %s }" % _b(bool(c["dynamic_attr_hooks"])))
        defs.append("\n".join(lines))
    out.extend(defs)
    out.append("")
    out.append("def tbl : Table Nat := [%s]" % ", ".join("c%d" % I(k) for k in data["classes"]))
    out.append("")
    return "\n".join(out), I


# --------------------------------------------------------------------------- CLI
def summary(data):
    cl = data["classes"]
    print("classes in table: %d, estimators: %d" % (len(cl), len(data["estimators"])))
    kinds = {}
    for k in data["estimators"]:
        c = cl[k]
        if c["init"]:
            for st in c["init"]["body"]:
                kk = st["k"] + (":" + st["e"]["k"] if st["k"] == "assign" else "") + (":cond" if st.get("cond") else "")
                kinds[kk] = kinds.get(kk, 0) + 1
    print("ctor statement kinds:", json.dumps(kinds, sort_keys=True))


if __name__ == "__main__":
    d = extract()
    if "--json" in sys.argv:
        json.dump(d, sys.stdout, indent=1)
    else:
        summary(d)
