"""C12 static tie: a pure `ast` walk over $SKTIME_REPO/sktime/**/*.py (default /repo); nothing is imported,
so estimators that cannot run in the sandbox are covered too.

scan() -> {"random": [...], "writes": [...], "parallel": [...], "seedless": [...], "classes": n, "files": n}

  random    sites where estimator code draws from a GLOBAL generator: `np.random.<fn>(...)` /
            `numpy.random.<fn>(...)` other than constructing a generator (RandomState, default_rng,
            Generator, SeedSequence, get_state/set_state are reported too), and stdlib `random.<fn>(...)`
            item: {"file", "func", "call"}
  truthy    truthiness tests on a random_state value: `if random_state:`, `if not self.random_state`,
            `random_state or default`, `x if random_state else y` ...  The integer seed 0 is a legitimate seed and is
            falsy, so such a test treats it as "unseeded".  (`is None` / `== 0` comparisons are not flagged.)
            item: {"file", "func", "expr"}
  shared    module-level estimator INSTANCES (`_DEFAULT = SomeEstimator(...)` at module level, the class being a
            package class with a `fit` method or imported from sklearn) that a function uses other than as the direct
            argument of clone(...) / deepcopy(...): every object of the class would then share (and refit) one instance.
            item: {"file", "func", "name"}
  buffers   a buffer ALLOCATED in a function (np.empty / zeros / ones / full / *_like / ndarray / [] / {} / list() / dict())
            and then passed as an argument to every job of a `Parallel(...)(delayed(f)(..., buf, ...) for ...)` in the same
            function: the jobs share (and under threads overwrite) it.  item: {"file", "func", "name"}
  apply_parallel   apply-type methods (predict / predict_proba / transform / ... and their `_` templates) that run a
            `Parallel(...)`: the sites the harness's large-batch n_jobs cases are about.  item: {"file", "func"}
  seedless  estimator classes that take a `random_state` constructor parameter but never read
            `self.random_state` outside `__init__` (nor pass `random_state=` on) in the class or its bases
            within the package.  item: {"file", "cls"}
  writes    attributes of `self` assigned / deleted / setattr'd inside an apply-type method (predict,
            predict_proba, transform, inverse_transform and the `_`-prefixed template methods) or in a
            method of the same class (or a package base class) reached from it through `self.m(...)` calls.
            item: {"file", "cls", "method", "via", "attr"}
  parallel  constructs that collect parallel results in COMPLETION order or share state between tasks:
            as_completed, imap_unordered, apply_async / submit with callbacks, `return_as=` generators,
            threading.Thread / ThreadPool(Executor) / ProcessPool(Executor) in estimator code (only these named
            constructs are judged; what is done with the list `Parallel(...)` returns is not).
            item: {"file", "func", "what"}
"""
import ast
import os
import sys

APPLY = ("predict", "predict_proba", "transform", "inverse_transform",
         "_predict", "_predict_proba", "_transform", "_inverse_transform", "predict_log_proba",
         "_predict_fixed_cutoff", "_predict_in_sample", "_predict_last_window", "_transform_series")
GEN_CTORS = {"RandomState", "default_rng", "Generator", "SeedSequence", "PCG64", "MT19937", "mtrand"}
SKIP_DIRS = ("/tests/", "/_testing/", "/datasets/", "/_build_utils/", "/contrib/", "/benchmarking/", "/utils/data_io")
UNORDERED = {"as_completed", "imap_unordered", "apply_async", "ThreadPoolExecutor", "ProcessPoolExecutor",
             "ThreadPool", "Thread", "add_done_callback"}


def repo_root():
    return os.environ.get("SKTIME_REPO", "/repo")


def _files(root):
    base = os.path.join(root, "sktime")
    for d, _, fs in os.walk(base):
        for f in sorted(fs):
            if f.endswith(".py"):
                p = os.path.join(d, f)
                rel = os.path.relpath(p, root)
                if any(s in "/" + rel for s in SKIP_DIRS):
                    continue
                yield p, rel


def _dotted(node):
    parts = []
    while isinstance(node, ast.Attribute):
        parts.append(node.attr)
        node = node.value
    if isinstance(node, ast.Name):
        parts.append(node.id)
        return ".".join(reversed(parts))
    return None


class _FuncStack(ast.NodeVisitor):
    """visitor that knows the enclosing class / function names"""

    def __init__(self):
        self.stack = []

    def where(self):
        return ".".join(self.stack) or "<module>"

    def visit_ClassDef(self, node):
        self.stack.append(node.name)
        self.generic_visit(node)
        self.stack.pop()

    def visit_FunctionDef(self, node):
        self.stack.append(node.name)
        self.generic_visit(node)
        self.stack.pop()

    visit_AsyncFunctionDef = visit_FunctionDef


class _RandomWalker(_FuncStack):
    def __init__(self, rel, np_names, random_names, from_np_random, out_random, out_par, out_truthy):
        super().__init__()
        self.rel, self.np_names, self.random_names, self.from_np_random = rel, np_names, random_names, from_np_random
        self.out_random, self.out_par, self.out_truthy = out_random, out_par, out_truthy
        self.parent_attr = {}      # id(node) -> attr name of the Attribute node whose .value is `node`

    def index_parents(self, tree):
        for n in ast.walk(tree):
            if isinstance(n, ast.Attribute):
                self.parent_attr[id(n.value)] = n.attr

    def visit_Attribute(self, node):
        # any use of the module `np.random` / `numpy.random` that does not go straight to a generator constructor:
        # np.random.<fn>(...), `rng = np.random`, `f(np.random)`, np.random.mtrand._rand, ...
        d = _dotted(node)
        if d:
            parts = d.split(".")
            if len(parts) == 2 and parts[0] in self.np_names and parts[1] == "random":
                nxt = self.parent_attr.get(id(node))
                if nxt is None:
                    self.out_random.append({"file": self.rel, "func": self.where(), "call": "np.random (alias)"})
                elif nxt not in GEN_CTORS or nxt == "mtrand":
                    self.out_random.append({"file": self.rel, "func": self.where(), "call": "np.random." + nxt})
        self.generic_visit(node)

    def visit_Name(self, node):
        # `from numpy import random` / `import numpy.random as npr` / stdlib `import random`
        if node.id in self.from_np_random or node.id in self.random_names:
            nxt = self.parent_attr.get(id(node))
            std = node.id in self.random_names
            ok = ("Random", "SystemRandom") if std else tuple(GEN_CTORS - {"mtrand"})
            if nxt is None or nxt not in ok:
                self.out_random.append({"file": self.rel, "func": self.where(),
                                        "call": ("random." if std else "np.random.") + (nxt or "(alias)")})

    @staticmethod
    def _is_rs(node):
        return ((isinstance(node, ast.Name) and node.id in ("random_state", "seed", "rs"))
                or (isinstance(node, ast.Attribute) and node.attr == "random_state"))

    def _truthy(self, node, how):
        if self._is_rs(node):
            self.out_truthy.append({"file": self.rel, "func": self.where(), "expr": how % ast.unparse(node)})
        elif isinstance(node, ast.UnaryOp) and isinstance(node.op, ast.Not):
            self._truthy(node.operand, "not %s" if how == "%s" else how.replace("%s", "not %s"))
        elif isinstance(node, ast.BoolOp):
            for v in node.values:
                self._truthy(v, how)

    def visit_If(self, node):
        self._truthy(node.test, "if %s")
        self.generic_visit(node)

    def visit_While(self, node):
        self._truthy(node.test, "while %s")
        self.generic_visit(node)

    def visit_IfExp(self, node):
        self._truthy(node.test, "... if %s else ...")
        self.generic_visit(node)

    def visit_BoolOp(self, node):
        # `random_state or default` / `random_state and f(random_state)` used as a VALUE
        for v in node.values[:-1]:
            if self._is_rs(v):
                self.out_truthy.append({"file": self.rel, "func": self.where(), "expr": ast.unparse(node)[:80]})
        self.generic_visit(node)

    def visit_Call(self, node):
        d = _dotted(node.func)
        if d:
            parts = d.split(".")
            if parts[-1] in UNORDERED:
                self.out_par.append({"file": self.rel, "func": self.where(), "what": parts[-1]})
        for kw in node.keywords or []:
            if kw.arg == "return_as":
                self.out_par.append({"file": self.rel, "func": self.where(), "what": "return_as"})
        self.generic_visit(node)


def _self_writes(fn):
    """(attrs written on self, self-methods called) in a function body"""
    writes, calls = [], []
    for node in ast.walk(fn):
        targets = []
        if isinstance(node, ast.Assign):
            targets = node.targets
        elif isinstance(node, (ast.AugAssign, ast.AnnAssign)):
            targets = [node.target]
        elif isinstance(node, ast.Delete):
            targets = node.targets
        elif isinstance(node, (ast.For, ast.AsyncFor)):
            targets = [node.target]
        elif isinstance(node, ast.With):
            targets = [i.optional_vars for i in node.items if i.optional_vars is not None]
        for t in targets:
            for sub in ast.walk(t):
                # self.x = ..., self.x[...] = ..., self.x.y = ...
                if isinstance(sub, ast.Attribute) and isinstance(sub.value, ast.Name) and sub.value.id == "self":
                    # only when `sub` is (the root of) the assigned target, not an index expression
                    if _is_target_root(t, sub):
                        writes.append(sub.attr)
        if isinstance(node, ast.Call):
            d = _dotted(node.func)
            if d in ("setattr", "delattr") and node.args and isinstance(node.args[0], ast.Name) and node.args[0].id == "self":
                a = node.args[1] if len(node.args) > 1 else None
                writes.append(a.value if isinstance(a, ast.Constant) else "<dynamic>")
            if d and d.startswith("self.__dict__"):
                writes.append("__dict__")
            if isinstance(node.func, ast.Attribute) and isinstance(node.func.value, ast.Name) and node.func.value.id == "self":
                calls.append(node.func.attr)
            # in-place container mutation of an attribute: self.x.append(...), self.x.update(...), ...
            if (isinstance(node.func, ast.Attribute) and node.func.attr in ("append", "extend", "update", "insert", "pop", "clear", "setdefault", "add", "remove")
                    and isinstance(node.func.value, ast.Attribute) and isinstance(node.func.value.value, ast.Name)
                    and node.func.value.value.id == "self"):
                writes.append(node.func.value.attr + "." + node.func.attr + "()")
    return writes, calls


def _is_target_root(target, attr_node):
    """attr_node (self.x) is the object being assigned into: target is self.x, self.x[...], self.x.y, (self.x, ...)"""
    t = target
    if isinstance(t, (ast.Tuple, ast.List)):
        return any(_is_target_root(e, attr_node) for e in t.elts)
    if isinstance(t, ast.Starred):
        return _is_target_root(t.value, attr_node)
    while isinstance(t, (ast.Subscript, ast.Attribute)):
        if t is attr_node:
            return True
        t = t.value
    return False


def scan(root=None):
    root = root or repo_root()
    out = {"random": [], "writes": [], "parallel": [], "seedless": [], "truthy": [], "shared": [], "buffers": [], "apply_parallel": [], "classes": 0, "files": 0}
    trees = []
    classes = {}       # name -> list of (rel, ClassDef)  (names are unique enough inside sktime; all candidates are used)
    for path, rel in _files(root):
        try:
            tree = ast.parse(open(path, encoding="utf-8").read())
        except SyntaxError:
            continue
        out["files"] += 1
        np_names, random_names, from_np_random = set(), set(), set()
        for node in ast.walk(tree):
            if isinstance(node, ast.Import):
                for a in node.names:
                    if a.name == "numpy":
                        np_names.add(a.asname or "numpy")
                    elif a.name == "numpy.random":
                        (from_np_random if a.asname else np_names).add(a.asname or "numpy")
                    elif a.name == "random":
                        random_names.add(a.asname or "random")
            elif isinstance(node, ast.ImportFrom):
                if node.module == "numpy":
                    for a in node.names:
                        if a.name == "random":
                            from_np_random.add(a.asname or "random")
                elif node.module == "numpy.random":
                    for a in node.names:
                        if a.name not in GEN_CTORS:
                            out["random"].append({"file": rel, "func": "<import>", "call": "from numpy.random import " + a.name})
                elif node.module == "random" and not node.level:
                    for a in node.names:
                        if a.name not in ("Random", "SystemRandom"):
                            out["random"].append({"file": rel, "func": "<import>", "call": "from random import " + a.name})
        w = _RandomWalker(rel, np_names, random_names - from_np_random, from_np_random, out["random"], out["parallel"], out["truthy"])
        w.index_parents(tree)
        w.visit(tree)
        trees.append((rel, tree))
        for node in ast.walk(tree):
            if isinstance(node, ast.ClassDef):
                classes.setdefault(node.name, []).append((rel, node))
                out["classes"] += 1

    def bases_of(cd):
        res = []
        for b in cd.bases:
            n = b.attr if isinstance(b, ast.Attribute) else b.id if isinstance(b, ast.Name) else None
            if n and n in classes:
                res.append(n)
        return res

    def mro_methods(name, seen=None):
        """method name -> (FunctionDef, defining class) following package bases depth-first (first hit wins)"""
        seen = seen if seen is not None else set()
        res = {}
        if name in seen or name not in classes:
            return res
        seen.add(name)
        for rel, cd in classes[name]:
            for item in cd.body:
                if isinstance(item, (ast.FunctionDef, ast.AsyncFunctionDef)) and item.name not in res:
                    res[item.name] = (item, name)
            for b in bases_of(cd):
                for k, v in mro_methods(b, seen).items():
                    res.setdefault(k, v)
        return res

    # ---- buffers shared by parallel jobs; apply-type methods that run Parallel
    ALLOC = {"empty", "zeros", "ones", "full", "empty_like", "zeros_like", "ones_like", "full_like", "ndarray", "list", "dict", "set", "bytearray"}
    for rel, tree in trees:
        for cls in [n for n in ast.walk(tree) if isinstance(n, ast.ClassDef)] + [tree]:
            for fn in (cls.body if hasattr(cls, "body") else []):
                if not isinstance(fn, (ast.FunctionDef, ast.AsyncFunctionDef)):
                    continue
                where = (cls.name + "." if isinstance(cls, ast.ClassDef) else "") + fn.name
                allocated = set()
                for node in ast.walk(fn):
                    if isinstance(node, ast.Assign) and len(node.targets) == 1 and isinstance(node.targets[0], ast.Name):
                        v = node.value
                        d = _dotted(v.func) if isinstance(v, ast.Call) else None
                        if (d and d.split(".")[-1] in ALLOC) or isinstance(v, (ast.List, ast.Dict, ast.Set)):
                            allocated.add(node.targets[0].id)
                has_par = False
                for node in ast.walk(fn):
                    # Parallel(...)( <generator / list of delayed(f)(args)> )
                    if isinstance(node, ast.Call) and isinstance(node.func, ast.Call) and (_dotted(node.func.func) or "").split(".")[-1] == "Parallel":
                        has_par = True
                        for sub in ast.walk(node):
                            if isinstance(sub, ast.Call) and isinstance(sub.func, ast.Call) and (_dotted(sub.func.func) or "").split(".")[-1] == "delayed":
                                for a in list(sub.args) + [k.value for k in sub.keywords]:
                                    if isinstance(a, ast.Name) and a.id in allocated:
                                        out["buffers"].append({"file": rel, "func": where, "name": a.id})
                    elif isinstance(node, ast.Call) and (_dotted(node.func) or "").split(".")[-1] == "Parallel":
                        has_par = True
                if has_par and fn.name in APPLY:
                    out["apply_parallel"].append({"file": rel, "func": where})

    # ---- module-level estimator instances used without clone
    def has_fit(name):
        return name in classes and "fit" in mro_methods(name)

    for rel, tree in trees:
        sk = set()
        for node in ast.walk(tree):
            if isinstance(node, ast.ImportFrom) and (node.module or "").startswith("sklearn"):
                for a in node.names:
                    if (a.asname or a.name)[:1].isupper():
                        sk.add(a.asname or a.name)
        glob = {}
        for node in tree.body:
            if isinstance(node, ast.Assign) and isinstance(node.value, ast.Call):
                d = _dotted(node.value.func)
                cn = d.split(".")[-1] if d else None
                if cn and (has_fit(cn) or cn in sk):
                    for t in node.targets:
                        if isinstance(t, ast.Name):
                            glob[t.id] = cn
        if not glob:
            continue
        for fn in ast.walk(tree):
            if not isinstance(fn, (ast.FunctionDef, ast.AsyncFunctionDef)):
                continue
            wrapped = set()
            for node in ast.walk(fn):
                if isinstance(node, ast.Call):
                    d = _dotted(node.func)
                    if d and d.split(".")[-1] in ("clone", "deepcopy", "copy"):
                        for a in node.args:
                            wrapped.add(id(a))
            for node in ast.walk(fn):
                if isinstance(node, ast.Name) and node.id in glob and isinstance(node.ctx, ast.Load) and id(node) not in wrapped:
                    out["shared"].append({"file": rel, "func": fn.name, "name": "%s = %s(...)" % (node.id, glob[node.id])})

    for name, defs in sorted(classes.items()):
        for rel, cd in defs:
            own = {i.name: i for i in cd.body if isinstance(i, (ast.FunctionDef, ast.AsyncFunctionDef))}
            allm = mro_methods(name)
            # ---- random_state read somewhere outside __init__
            init = allm.get("__init__")
            if "__init__" in own:
                params = [a.arg for a in own["__init__"].args.args + own["__init__"].args.kwonlyargs]
                if "random_state" in params:
                    used = False
                    for mname, (fn, _) in allm.items():
                        if mname == "__init__":
                            continue
                        for sub in ast.walk(fn):
                            if isinstance(sub, ast.Attribute) and sub.attr == "random_state" and isinstance(sub.value, ast.Name) and sub.value.id == "self":
                                used = True
                    if not used:
                        out["seedless"].append({"file": rel, "cls": name})
            # ---- writes to self reachable from the apply-type methods DEFINED in this class
            for m in APPLY:
                if m not in own:
                    continue
                todo, seen = [(m, m)], set()
                while todo:
                    cur, via = todo.pop()
                    if cur in seen or cur not in allm:
                        continue
                    seen.add(cur)
                    fn, _owner = allm[cur]
                    w, calls = _self_writes(fn)
                    for attr in w:
                        out["writes"].append({"file": rel, "cls": name, "method": m, "via": cur, "attr": attr})
                    for c in calls:
                        if c not in ("fit", "update", "_fit", "_update", "set_params", "reset"):
                            todo.append((c, cur))
    return out


if __name__ == "__main__":
    import json
    r = scan(sys.argv[1] if len(sys.argv) > 1 else None)
    print(json.dumps({k: (v if not isinstance(v, list) else len(v)) for k, v in r.items()}))
    for k in ("random", "seedless", "parallel", "truthy", "shared", "buffers", "apply_parallel"):
        for it in r[k]:
            print(k, it)
    seen = set()
    for it in r["writes"]:
        key = (it["file"], it["cls"], it["method"], it["via"], it["attr"])
        if key not in seen:
            seen.add(key)
            print("writes", it)
