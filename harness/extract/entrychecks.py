"""Static tie for C20: for each forecasting entry point, the ordered list of validation helpers its
body calls, read from the source AST of $SKTIME_REPO (default /repo).  The Lean model's check
sequences (Model/Validate.lean) were written from these lists; `EXPECTED` in Drv/C20.lean holds
them, and the check compares what the code says now with that table."""
import ast, os, re

REPO = os.environ.get("SKTIME_REPO", "/repo")
WANT = re.compile(r"^(_?check_\w+|_set_fh|_set_y_X|_update_y_X|check_is_fitted|_check_strategy|_check_scitype|_check_window_lengths|_check_fh|_check_y|is_int)$")

ENTRY = [
    ("sktime/utils/validation/series.py", None, "check_series"),
    ("sktime/utils/validation/series.py", None, "check_time_index"),
    ("sktime/utils/validation/series.py", None, "check_equal_time_index"),
    ("sktime/utils/validation/forecasting.py", None, "check_y_X"),
    ("sktime/utils/validation/forecasting.py", None, "check_y"),
    ("sktime/utils/validation/forecasting.py", None, "check_X"),
    ("sktime/utils/validation/forecasting.py", None, "check_fh"),
    ("sktime/utils/validation/forecasting.py", None, "check_step_length"),
    ("sktime/utils/validation/forecasting.py", None, "check_sp"),
    ("sktime/utils/validation/forecasting.py", None, "check_cv"),
    ("sktime/utils/validation/__init__.py", None, "check_window_length"),
    ("sktime/forecasting/base/_sktime.py", "_SktimeForecaster", "_set_y_X"),
    ("sktime/forecasting/base/_sktime.py", "_SktimeForecaster", "_update_y_X"),
    ("sktime/forecasting/base/_sktime.py", "_SktimeForecaster", "predict"),
    ("sktime/forecasting/base/_sktime.py", "_SktimeForecaster", "update"),
    ("sktime/forecasting/base/_sktime.py", "_SktimeForecaster", "update_predict"),
    ("sktime/forecasting/base/_sktime.py", "_SktimeForecaster", "update_predict_single"),
    ("sktime/forecasting/base/_sktime.py", "_BaseWindowForecaster", "update_predict"),
    ("sktime/forecasting/base/_sktime.py", "_OptionalForecastingHorizonMixin", "_set_fh"),
    ("sktime/forecasting/base/_sktime.py", "_RequiredForecastingHorizonMixin", "_set_fh"),
    ("sktime/forecasting/naive.py", "NaiveForecaster", "fit"),
    ("sktime/forecasting/model_selection/_split.py", "BaseSplitter", "split"),
    ("sktime/forecasting/model_selection/_split.py", "BaseWindowSplitter", "_split"),
    ("sktime/forecasting/model_selection/_split.py", "CutoffSplitter", "_split"),
    ("sktime/forecasting/model_selection/_split.py", "SingleWindowSplitter", "_split"),
    ("sktime/forecasting/model_selection/_split.py", None, "temporal_train_test_split"),
    ("sktime/forecasting/model_selection/_split.py", None, "_split_by_fh"),
    ("sktime/forecasting/model_evaluation/_functions.py", None, "evaluate"),
    ("sktime/forecasting/model_selection/_tune.py", "BaseGridSearch", "fit"),
    ("sktime/forecasting/compose/_reduce.py", "_Reducer", "fit"),
    ("sktime/forecasting/compose/_reduce.py", None, "make_reduction"),
    ("sktime/forecasting/compose/_reduce.py", None, "_sliding_window_transform"),
    ("sktime/forecasting/compose/_ensemble.py", "EnsembleForecaster", "fit"),
    ("sktime/forecasting/compose/_pipeline.py", "TransformedTargetForecaster", "fit"),
    ("sktime/forecasting/compose/_multiplexer.py", "MultiplexForecaster", "fit"),
    ("sktime/forecasting/compose/_stack.py", "StackingForecaster", "fit"),
    ("sktime/forecasting/base/_meta.py", "_HeterogenousEnsembleForecaster", "_check_forecasters"),
]


def _find(tree, cls, fn):
    body = tree.body
    if cls is not None:
        for n in body:
            if isinstance(n, ast.ClassDef) and n.name == cls:
                body = n.body
                break
        else:
            return None
    for n in body:
        if isinstance(n, (ast.FunctionDef, ast.AsyncFunctionDef)) and n.name == fn:
            return n
    return None


def _calls_in_order(fn):
    """names of wanted calls in source order (nested functions included), with their guard depth dropped"""
    out = []
    for node in sorted((n for n in ast.walk(fn) if isinstance(n, ast.Call)), key=lambda n: (n.lineno, n.col_offset)):
        f = node.func
        name = f.attr if isinstance(f, ast.Attribute) else f.id if isinstance(f, ast.Name) else None
        if name and WANT.match(name):
            out.append(name)
    return out


def extract():
    res = {}
    for path, cls, fn in ENTRY:
        key = (cls + "." if cls else "") + fn + "@" + os.path.basename(path)
        p = os.path.join(REPO, path)
        try:
            tree = ast.parse(open(p).read())
            node = _find(tree, cls, fn)
            res[key] = "MISSING" if node is None else (",".join(_calls_in_order(node)) or "-")
        except Exception as e:
            res[key] = "UNREADABLE:" + type(e).__name__
    return res


if __name__ == "__main__":
    for k, v in extract().items():
        print(k, v)
