"""Harness-side pandas-1.x / numpy-1.x / sklearn-0.24 compatibility layer.

sktime 0.6.0 (/repo) was written against libraries that are not installed in this
sandbox.  This module restores the *removed or renamed library API it was written
against* and nothing else; nothing in /repo is touched.  It is part of the trusted base
(DESIGN.md 2.4).  Import it BEFORE importing sktime:

    import skcompat; skcompat.bootstrap()      # puts /repo first on sys.path, asserts
"""
import os
REPO = os.environ.get("SKTIME_REPO", "/repo")
import sys, types, warnings
warnings.filterwarnings("ignore")
import numpy as np, pandas as pd
for n,t in (('float',float),('int',int),('bool',bool),('object',object),('str',str),('complex',complex)):
    try:
        if n not in np.__dict__: setattr(np,n,t)
    except Exception: pass

# ---- pandas: typed numeric index classes
class Int64Index(pd.Index):
    def __new__(cls, data=None, dtype=None, copy=False, name=None):
        arr = np.asarray(data) if not isinstance(data,(pd.Index,)) else data.to_numpy()
        if arr.dtype.kind == 'f':
            if not np.all(arr == np.floor(arr)): raise TypeError("Unsafe NumPy casting, you must explicitly cast")
        elif arr.dtype.kind not in 'iub' and arr.size: 
            raise TypeError(f"String dtype not supported, you may need to explicitly cast to a numeric type")
        return pd.Index(arr.astype('int64'), name=name)
class Float64Index(pd.Index):
    def __new__(cls, data=None, dtype=None, copy=False, name=None):
        return pd.Index(np.asarray(data,dtype='float64'), name=name)
def _retag(obj):
    try:
        if type(obj) in (pd.Index, Int64Index, Float64Index):
            k = obj.dtype.kind if isinstance(obj.dtype, np.dtype) else 'O'
            tgt = Int64Index if k in 'iu' else Float64Index if k=='f' else pd.Index
            if type(obj) is not tgt: obj.__class__ = tgt
    except Exception: pass
    return obj
_orig_new = pd.Index.__new__
def _new(cls, *a, **k):
    if cls in (Int64Index, Float64Index):  # handled by subclass __new__
        return cls.__new__(cls,*a,**k)
    return _retag(_orig_new(cls,*a,**k))
_orig_simple = pd.Index._simple_new.__func__
def _simple_new(cls, values, name=None, refs=None):
    base = pd.Index if cls in (Int64Index, Float64Index) else cls
    return _retag(_orig_simple(base, values, name=name, refs=refs))
def _idx_new(cls, data=None, *a, **k):
    if data is not None and hasattr(data, 'to_pandas') and not isinstance(data, pd.Index):
        data = data.to_pandas()
    return _retag(_orig_new(pd.Index if cls in (Int64Index,Float64Index) else cls, data, *a, **k))
pd.Index.__new__ = staticmethod(_idx_new)
pd.Index._simple_new = classmethod(_simple_new)
pd.Int64Index = Int64Index; pd.Float64Index = Float64Index
pd.Index.is_monotonic = property(lambda self: self.is_monotonic_increasing)
pd.Series.is_monotonic = property(lambda self: self.is_monotonic_increasing)
def _s_append(self, other, ignore_index=False, verify_integrity=False):
    objs = [self]+(list(other) if isinstance(other,(list,tuple)) else [other])
    return pd.concat(objs, ignore_index=ignore_index, verify_integrity=verify_integrity)
pd.Series.append=_s_append; pd.DataFrame.append=lambda self, other, ignore_index=False, **k: pd.concat([self, other if isinstance(other,(pd.DataFrame,pd.Series)) and not isinstance(other,pd.Series) else pd.DataFrame([other]) if isinstance(other,(dict,pd.Series)) else pd.concat(other)], ignore_index=ignore_index)
pd.Series.iteritems=pd.Series.items; pd.DataFrame.iteritems=pd.DataFrame.items

import sklearn.base
from sklearn.utils import _pprint
sklearn.base._pprint = _pprint
import sklearn.model_selection._search as _s
def _check_param_grid(param_grid):
    if hasattr(param_grid, "items"): param_grid = [param_grid]
    for p in param_grid:
        for name, v in p.items():
            if isinstance(v, np.ndarray) and v.ndim > 1: raise ValueError("Parameter array should be one-dimensional.")
            if isinstance(v, str) or not isinstance(v, (np.ndarray, list, tuple)): raise ValueError("Parameter grid for parameter ({0}) needs to be a list or numpy array".format(name))
            if len(v) == 0: raise ValueError("Parameter values for parameter ({0}) need to be a non-empty sequence.".format(name))
_s._check_param_grid=_check_param_grid
import sklearn.utils.metaestimators as _m
from sklearn.utils.metaestimators import available_if
def if_delegate_has_method(delegate):
    ds = tuple(delegate) if isinstance(delegate,(list,tuple)) else (delegate,)
    def deco(fn):
        def chk(self):
            for d in ds:
                if hasattr(self,d):
                    getattr(getattr(self,d), fn.__name__); return True
            raise AttributeError(fn.__name__)
        return available_if(chk)(fn)
    return deco
_m.if_delegate_has_method=if_delegate_has_method
import scipy.stats, scipy.stats._morestats as _mm
mm = types.ModuleType('scipy.stats.morestats')
for k in dir(_mm): setattr(mm,k,getattr(_mm,k))
sys.modules['scipy.stats.morestats']=mm; scipy.stats.morestats=mm
nb = types.ModuleType('numba')
def _jit(*a, **k):
    if len(a)==1 and callable(a[0]) and not k: return a[0]
    return lambda f: f
nb.njit=_jit; nb.jit=_jit; nb.prange=range
def _vectorize(*a, **k):
    # numba.vectorize turns a scalar function into an element-wise ufunc: np.vectorize is the pure-Python twin
    if len(a)==1 and callable(a[0]) and not k: return np.vectorize(a[0])
    return lambda f: np.vectorize(f)
nb.vectorize=_vectorize
nb.get_num_threads=lambda:1; nb.set_num_threads=lambda n:None
nbt=types.ModuleType('numba.typed'); nbt.Dict=dict; nbt.List=list
nbc=types.ModuleType('numba.core'); nbty=types.ModuleType('numba.core.types'); nbc.types=nbty
nb.typed=nbt; nb.core=nbc; nb.types=nbty
sys.modules.update({'numba':nb,'numba.typed':nbt,'numba.core':nbc,'numba.core.types':nbty})
# sklearn ensembles: base_estimator -> estimator
import sklearn.ensemble._base as _eb, sklearn.ensemble._forest as _ef, inspect
def _wrap_init(cls):
    orig = cls.__init__
    def __init__(self, *a, base_estimator=None, **k):
        if base_estimator is not None and 'estimator' not in k and not a:
            k['estimator'] = base_estimator
        orig(self, *a, **k)
    cls.__init__ = __init__
for c in (_ef.ForestClassifier, _ef.ForestRegressor):
    _wrap_init(c)
_eb.BaseEnsemble.base_estimator = property(lambda self: self.estimator, lambda self,v: setattr(self,'estimator',v))
_eb.BaseEnsemble.base_estimator_ = property(lambda self: self.estimator_, lambda self,v: setattr(self,'estimator_',v))

# --- metrics: legacy private sklearn API used by sktime 0.6.0
import sklearn.metrics._regression as _r
_new_crt = _r._check_reg_targets
def _check_reg_targets_legacy(y_true, y_pred, multioutput, dtype="numeric"):
    out = _new_crt(y_true, y_pred, None, multioutput, dtype=dtype)
    y_type, yt, yp = out[0], out[1], out[2]
    mo = out[-1]
    return y_type, yt, yp, mo
_orig_mse = _r.mean_squared_error
def _mse_legacy(y_true, y_pred, *, sample_weight=None, multioutput="uniform_average", squared=True):
    if squared:
        return _orig_mse(y_true, y_pred, sample_weight=sample_weight, multioutput=multioutput)
    # sklearn 0.24 (pinned by /repo/setup.py): validate targets/weights first (ValueError), sqrt per
    # output column, THEN average (fix #17309)
    out = _new_crt(y_true, y_pred, sample_weight, multioutput)
    y_true, y_pred, sample_weight, multioutput = out[1], out[2], out[3], out[-1]
    errs = np.sqrt(_orig_mse(y_true, y_pred, sample_weight=sample_weight, multioutput="raw_values"))
    if isinstance(multioutput, str):
        if multioutput == "raw_values":
            return errs
        multioutput = None
    return np.average(errs, weights=multioutput)
def patch_metrics():
    import sktime.performance_metrics.forecasting._functions as F
    F._check_reg_targets = _check_reg_targets_legacy
    F._mean_squared_error = _mse_legacy
# --- reduce: numpy<1.25 semantics for y_pred[i] = array([v])
class _Lenient(np.ndarray):
    def __setitem__(self, k, v):
        if isinstance(v, np.ndarray) and v.ndim > 0 and v.size == 1:
            try:
                if np.ndim(np.ndarray.__getitem__(self.view(np.ndarray), k)) == 0:
                    v = v.reshape(()).item()
            except Exception: pass
        np.ndarray.__setitem__(self, k, v)
class _NpProxy:
    def __init__(self, real): self.__dict__['_real']=real
    def __getattr__(self, n): return getattr(self._real, n)
    def zeros(self, *a, **k): return self._real.zeros(*a, **k).view(_Lenient)
def patch_reduce():
    import sktime.forecasting.compose._reduce as R
    R.np = _NpProxy(np)


# --- pandas: read_csv(squeeze=) (removed in pandas 2)
_orig_read_csv = pd.read_csv
def _read_csv(*a, squeeze=False, **k):
    out = _orig_read_csv(*a, **k)
    if squeeze and isinstance(out, pd.DataFrame) and out.shape[1] == 1:
        out = out.iloc[:, 0]
    return out
pd.read_csv = _read_csv

# --- sklearn.neighbors._base._check_weights (removed)
try:
    import sklearn.neighbors._base as _nb
    if not hasattr(_nb, "_check_weights"):
        def _check_weights(weights):
            if weights not in (None, "uniform", "distance") and not callable(weights):
                raise ValueError("weights not recognized: should be 'uniform', 'distance', or a callable function")
            return weights
        _nb._check_weights = _check_weights
except Exception:
    pass

_BOOT = False
def bootstrap(patch=True):
    """Put /repo first on sys.path, import its sktime, assert which one we got, apply
    the module-scoped emulations."""
    global _BOOT
    if REPO in sys.path:
        sys.path.remove(REPO)
    sys.path.insert(0, REPO)
    import sktime
    assert os.path.realpath(sktime.__file__).startswith(os.path.realpath(REPO) + os.sep), (
        "wrong sktime imported: %s" % sktime.__file__)
    if patch and not _BOOT:
        try: patch_metrics()
        except Exception: pass
        try: patch_reduce()
        except Exception: pass
        _BOOT = True
    return sktime
