"""Recording inner estimators for C09 (composite forecasters).

Real sktime / sklearn estimator subclasses, defined in the harness, that
  * append every call they receive (operation, the series / rows they were handed, the horizon)
    to the module-global LOG, in call order (clones share the `tag`, so the log survives clone()),
  * forecast / transform / regress deterministically with exact dyadic arithmetic,
  * count how often the very same Python object has been fitted before (`gen` in every fit event;
    0 for a fresh clone) — clone() does not copy it, so a composite that fits the user's object
    instead of a clone shows up in the log.

They go through the REAL base classes of /repo (`_SktimeForecaster`, the optional-horizon mixin,
`_SeriesToSeriesTransformer`), so the base-class bookkeeping (remembered series, cutoff, horizon,
fitted flag) that the composites rely on is the real one.

Import only after skcompat.bootstrap().
"""
import numpy as np
import pandas as pd
from sklearn.base import BaseEstimator as SkBase, RegressorMixin

from sktime.forecasting.base._sktime import _SktimeForecaster, _OptionalForecastingHorizonMixin
from sktime.transformations.base import _SeriesToSeriesTransformer

LOG = []


def reset():
    del LOG[:]


def ser(y):
    """canonical (label, value) list of a pandas Series"""
    return [(int(l), float(v)) for l, v in zip(y.index, np.asarray(y, dtype="float64"))]


def fh_rel(fh, cutoff=None):
    """canonical relative steps of whatever was passed as a horizon (None stays None)"""
    if fh is None:
        return None
    from sktime.utils.validation.forecasting import check_fh
    f = check_fh(fh)
    return [int(v) for v in f.to_relative(cutoff).to_pandas()]


class RecForecaster(_OptionalForecastingHorizonMixin, _SktimeForecaster):
    """level = a*last + b*sum + c*count over the remembered series; forecast(h) = level + d*h.
    `update(update_params=True)` recomputes the level from everything remembered,
    `update(update_params=False)` only moves the cutoff."""

    def __init__(self, tag="f", a=1.0, b=0.0, c=0.0, d=1.0):
        self.tag = tag
        self.a = a
        self.b = b
        self.c = c
        self.d = d
        super(RecForecaster, self).__init__()

    def _level(self):
        v = np.asarray(self._y, dtype="float64")
        self.level_ = self.a * v[-1] + self.b * v.sum() + self.c * len(v)

    def fit(self, y, X=None, fh=None):
        gen = getattr(self, "_gen", 0)   # how often THIS object was fitted before (0 for a fresh clone)
        self._gen = gen + 1
        LOG.append(("F", self.tag, "fit", ser(y), fh_rel(fh, y.index[-1] if len(y) else None), gen))
        self._set_y_X(y, X)
        self._set_fh(fh)
        self._level()
        self._is_fitted = True
        return self

    def _predict(self, fh, X=None, return_pred_int=False, alpha=0.05):
        rel = [int(v) for v in fh.to_relative(self.cutoff).to_pandas()]
        idx = fh.to_absolute(self.cutoff).to_pandas()
        out = pd.Series([self.level_ + self.d * h for h in rel], index=idx)
        LOG.append(("F", self.tag, "predict", ser(out), rel, None))   # the forecast itself (labels and values) is logged
        return out

    def update(self, y, X=None, update_params=True):
        LOG.append(("F", self.tag, "update", ser(y), None, bool(update_params)))
        self.check_is_fitted()
        self._update_y_X(y, X)
        if update_params:
            self._level()
        return self


class RecTransformer(_SeriesToSeriesTransformer):
    """transform z -> k*z + m*ref, ref = last value seen by fit (or by update with update_params);
    inverse zt -> (zt - m*ref)/k.  No `update` method (the pipeline tests hasattr)."""

    def __init__(self, tag="t", k=2.0, m=0.0):
        self.tag = tag
        self.k = k
        self.m = m
        super(RecTransformer, self).__init__()

    def fit(self, Z, X=None):
        gen = getattr(self, "_gen", 0)
        self._gen = gen + 1
        LOG.append(("T", self.tag, "fit", ser(Z), None, gen))
        v = np.asarray(Z, dtype="float64")
        self.ref_ = float(v[-1]) if len(v) else 0.0
        self._is_fitted = True
        return self

    def transform(self, Z, X=None):
        LOG.append(("T", self.tag, "transform", ser(Z), None, None))
        self.check_is_fitted()
        return Z * self.k + self.m * self.ref_

    def inverse_transform(self, Z, X=None):
        LOG.append(("T", self.tag, "inverse", ser(Z), None, None))
        self.check_is_fitted()
        return (Z - self.m * self.ref_) / self.k


class RecTransformerU(RecTransformer):
    """same, with an `update` method"""

    def update(self, Z, X=None, update_params=True):
        LOG.append(("T", self.tag, "update", ser(Z), None, bool(update_params)))
        self.check_is_fitted()
        v = np.asarray(Z, dtype="float64")
        if update_params and len(v):
            self.ref_ = float(v[-1])
        return self


class RecTransformerSkip(RecTransformer):
    """tagged skip-inverse-transform (like Imputer / HampelFilter)"""
    _tags = {"skip-inverse-transform": True}


class RecTransformerSkipU(RecTransformerU):
    _tags = {"skip-inverse-transform": True}


class RecRegressor(RegressorMixin, SkBase):
    """fit stores s = sum(y) + sum_ij (j+1)*X[i,j]; predict(X)[i] = p*sum_j (j+1)*X[i,j] + q*s
    (column order matters on purpose)."""

    def __init__(self, tag="g", p=1.0, q=1.0):
        self.tag = tag
        self.p = p
        self.q = q

    @staticmethod
    def _rows(X):
        X = np.asarray(X, dtype="float64")
        if X.ndim != 2:
            raise ValueError("expected 2d rows")
        return X

    def fit(self, X, y):
        X = self._rows(X)
        y = np.asarray(y, dtype="float64")
        gen = getattr(self, "_gen", 0)
        self._gen = gen + 1
        LOG.append(("G", self.tag, "fit", [list(map(float, r)) for r in X], [float(v) for v in y], gen))
        if len(X) != len(y):
            raise ValueError("inconsistent numbers of samples")
        w = np.arange(1, X.shape[1] + 1, dtype="float64")
        self.s_ = float(y.sum() + (X * w).sum())
        return self

    def predict(self, X):
        X = self._rows(X)
        LOG.append(("G", self.tag, "predict", [list(map(float, r)) for r in X], None, None))
        w = np.arange(1, X.shape[1] + 1, dtype="float64")
        return (X * w).sum(axis=1) * self.p + self.q * self.s_


# ----------------------------------------------------------------------------- weighting algorithms of the online ensemble
TAPE = []   # (tag, weights after the update) for every ensemble_algorithm.update call, in call order


def _spy_algorithm(base):
    class Spy(base):
        """the real weighting algorithm; records the weights it holds after every update (survives deepcopy/clone)"""
        tag = "w"

        def update(self, y_pred, y_true, *a, **k):
            try:
                r = super().update(y_pred, y_true, *a, **k)
            except Exception:
                TAPE.append((self.tag, None))     # the algorithm itself failed: nothing to replay
                raise
            TAPE.append((self.tag, [float(w) for w in self.weights]))
            return r
    Spy.__name__ = "Spy" + base.__name__
    return Spy


def make_algorithm(kind, n, tag):
    """kind: 'nnls' | 'hedge' (NormalHedgeEnsemble with squared-error loss)"""
    from sktime.forecasting.online_learning._prediction_weighted_ensembler import NNLSEnsemble, NormalHedgeEnsemble
    from sklearn.metrics import mean_squared_error
    if kind == "nnls":
        a = _spy_algorithm(NNLSEnsemble)(n_estimators=n, loss_func=mean_squared_error)
    else:
        a = _spy_algorithm(NormalHedgeEnsemble)(n_estimators=n, loss_func=mean_squared_error)
    a.tag = tag
    return a
