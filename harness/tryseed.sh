#!/bin/sh
# harness/tryseed.sh <prop> <dir with patch.diff [demo.py]> [tier]
# Applies a seeded change in a scratch worktree of /repo, runs its demonstration (must FAIL there and
# PASS on the clean tree) and then the property's check against that tree.
prop=$1; dir=$(cd "$2" && pwd); tier=${3:-quick}
wt=/tmp/wt-seed-$$
git -C /repo worktree add -q --detach $wt HEAD || exit 2
if [ -f $dir/demo.py ]; then
  printf 'demo on clean tree: '; SKTIME_REPO=$wt /venv/bin/python $dir/demo.py 2>&1 | tail -1
fi
git -C $wt apply $dir/patch.diff || { echo "PATCH DOES NOT APPLY"; git -C /repo worktree remove --force $wt; exit 3; }
if [ -f $dir/demo.py ]; then
  printf 'demo on changed tree: '; SKTIME_REPO=$wt /venv/bin/python $dir/demo.py 2>&1 | tail -1
fi
cd /verif && SKTIME_REPO=$wt ./check $prop --tier $tier 2>&1 | grep -E "^VIOLATION|failing input|^C[0-9]+ (quick|thorough)" | head -6
git -C /repo worktree remove --force $wt
