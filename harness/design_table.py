#!/usr/bin/env python3
"""Rewrites the per-property table of DESIGN.md 11.5 (between the TABLE-11.5 markers) from what is on disk:
audited theorems (OBLIGATIONS of each corr module), Lean lines reachable from Props/Cxx.lean, models/specs imported,
fixed/open findings and seeded changes."""
import ast, glob, json, os, re
V = os.path.dirname(os.path.dirname(os.path.abspath(__file__)))
L = os.path.join(V, "lean")


def closure(mod, seen):
    p = os.path.join(L, mod.replace(".", "/") + ".lean")
    if mod in seen or not os.path.exists(p):
        return
    seen.add(mod)
    for m in re.findall(r"^import (SkVerif\.[\w.]+)", open(p).read(), re.M):
        closure(m, seen)


rows = []
for pid in ["C%02d" % i for i in range(1, 21)]:
    src = open(os.path.join(V, "harness", "corr", pid + ".py")).read()
    obl = []
    for node in ast.parse(src).body:
        if isinstance(node, ast.Assign) and getattr(node.targets[0], "id", "") == "OBLIGATIONS":
            try:
                obl = ast.literal_eval(node.value)
            except Exception:
                obl = [None] * len(re.findall(r'"SkVerif', src))
    seen = set()
    closure("SkVerif.Props." + pid, seen)
    lines = sum(len(open(os.path.join(L, m.replace(".", "/") + ".lean")).read().splitlines()) for m in seen)
    ms = sorted(("M:" if ".Model." in m else "S:") + m.split(".")[-1] for m in seen if ".Model." in m or ".Spec." in m)
    kf = json.load(open(os.path.join(V, "known_findings", pid + ".json"))) if os.path.exists(os.path.join(V, "known_findings", pid + ".json")) else {}
    seeds = len(glob.glob(os.path.join(V, "seeded", pid, "*", "patch.diff")))
    rows.append("| %s | %d | %d | %s | %d / %d | %d |" % (pid, len(obl), lines, ", ".join(ms), len(kf.get("fixed", [])), len(kf.get("findings", [])), seeds))
tab = ["| property | theorems audited | Lean lines reachable from Props | models / specs | findings fixed / open (keys) | seeded changes |", "|---|---|---|---|---|---|"] + rows
p = os.path.join(V, "DESIGN.md")
s = open(p).read()
a, b = "<!-- TABLE-11.5 BEGIN -->", "<!-- TABLE-11.5 END -->"
s = s[:s.index(a) + len(a)] + "\n" + "\n".join(tab) + "\n" + s[s.index(b):]
open(p, "w").write(s)
print("\n".join(rows))
