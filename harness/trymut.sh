#!/bin/sh
# harness/trymut.sh <prop> <file-relative-to-repo> <sed-expression> [tier]
# Applies one sed edit in a scratch worktree of /repo and runs the check against it.
prop=$1; file=$2; expr=$3; tier=${4:-quick}
wt=/tmp/wt-mut-$$
git -C /repo worktree add -q --detach $wt HEAD || exit 2
sed -i "$expr" $wt/$file
if git -C $wt diff --quiet; then echo "MUTATION DID NOT APPLY"; git -C /repo worktree remove --force $wt; exit 3; fi
git -C $wt diff | grep '^[+-][^+-]'
cd /verif && SKTIME_REPO=$wt ./check $prop --tier $tier 2>&1 | grep -v "^DBG" | tail -${LINES_OUT:-6}
rc=$?
git -C /repo worktree remove --force $wt
