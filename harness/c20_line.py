"""driver line for a C20 case: `C20 <ep> key=value ...` (descriptor tokens are passed through)"""


def _b(v):
    return "T" if v else "F"


def to_line(c):
    if c["ep"] == "static":
        return "C20 static fn=%s" % c["fn"]
    skip = {"ep", "fault", "origin"}
    parts = []
    for k in sorted(c):
        if k in skip:
            continue
        v = c[k]
        if isinstance(v, bool):
            v = _b(v)
        parts.append("%s=%s" % (k, v))
    return "C20 %s %s" % (c["ep"], " ".join(parts))
