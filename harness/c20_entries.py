"""C20: entry points of the forecasting API driven from flat descriptor contexts.

A context is a dict of descriptor tokens that both this module (to build REAL objects) and the
Lean model (Model/Validate.lean) understand:

  y   : ok:<n> | gapped:<n> | dupidx:<n> | unsorted:<n> | empty | frame1:<n> | frame2:<n> | array:<n> | array2d:<n> | list:<n> | none | floatidx:<n>
  X   : none | ok | shifted | shorter | unsorted | array | interior | first | last | longer
  fh  : none | r:<ints> | a:<ints> | dup | empty | frac | str | float
  int-like (window_length, step_length, sp, initial_window ...): i:<v> | f:<p>/<q> | s | b | none
Outcome of an entry point: "rej" (ValueError / TypeError / NotImplementedError), "ok", or the raw
canonical error token for anything else, followed by ":F"/":T" = is_fitted afterwards where the
entry point has an estimator (":-" otherwise).
"""
import warnings
import numpy as np, pandas as pd
from common import canon_err

REJ = {"E:value", "E:type", "E:notimpl"}


def mk_y(tok, origin=0):
    k, _, n = tok.partition(":")
    n = int(n) if n else 0
    vals = (np.arange(n, dtype="float64") * 0.5 + 1.0) % 7 + 1
    idx = np.arange(origin, origin + n, dtype="int64")
    if k == "ok":
        return pd.Series(vals, index=pd.Index(idx))
    if k == "gapped":         # a valid target whose (sorted, integer) index is irregular: two labels are skipped in the middle
        idx = idx.copy()
        idx[n // 2:] += 2
        return pd.Series(vals, index=pd.Index(idx))
    if k == "dupidx":
        idx = idx.copy()
        if n >= 2:
            idx[1] = idx[0]
        return pd.Series(vals, index=pd.Index(idx))
    if k == "unsorted":
        form = origin % 3 if isinstance(origin, int) else 0
        if form == 1 and n >= 2:      # a descending RangeIndex is unsorted too
            return pd.Series(vals, index=pd.RangeIndex(origin + n - 1, origin - 1, -1))
        if form == 2 and n >= 2:      # fully descending integer index
            return pd.Series(vals, index=pd.Index(idx[::-1].copy()))
        idx = idx.copy()
        idx[0], idx[-1] = idx[-1], idx[0]
        return pd.Series(vals, index=pd.Index(idx))
    if k == "empty":
        return pd.Series(np.array([], dtype="float64"), index=pd.Index(np.array([], dtype="int64")))
    if k == "frame1":
        return pd.DataFrame({"a": vals}, index=pd.Index(idx))
    if k == "frame2":
        return pd.DataFrame({"a": vals, "b": vals * 2}, index=pd.Index(idx))
    if k == "array":
        return vals
    if k == "array2d":
        return np.column_stack([vals, vals])
    if k == "list":
        return list(vals)
    if k == "none":
        return None
    if k == "floatidx":
        return pd.Series(vals, index=pd.Index(idx.astype("float64") + 0.5))
    raise ValueError(tok)


def y_len(tok):
    k, _, n = tok.partition(":")
    return int(n) if n else 0


def mk_X(tok, y):
    if tok == "none":
        return None
    n = len(y) if hasattr(y, "__len__") else 0
    base = y.index if hasattr(y, "index") else pd.RangeIndex(n)
    data = {"u": np.arange(n) * 1.0, "v": np.arange(n) * -2.0}
    if tok == "ok":
        return pd.DataFrame(data, index=base)
    if tok == "shifted":
        return pd.DataFrame(data, index=pd.Index(np.asarray(base, dtype="int64") + 1))
    if tok == "shorter":
        return pd.DataFrame({k: v[:-1] for k, v in data.items()}, index=base[:-1])
    if tok == "unsorted":
        i = np.asarray(base, dtype="int64").copy()
        if len(i) > 1:
            i[0], i[-1] = i[-1], i[0]
        return pd.DataFrame(data, index=pd.Index(i))
    if tok == "array":
        return np.column_stack([data["u"], data["v"]])
    i = np.asarray(base, dtype="int64").copy()
    if tok == "interior":     # same length, same first and last label, still sorted; ONE inner label differs from y's
        j = len(i) // 2
        if len(i) >= 4 and i[j] - i[j - 1] > 1:
            i[j - 1] += 1     # y's index has a gap here: X's gap is one step earlier (strictly increasing labels)
        elif len(i) >= 3:
            i[j] = i[j - 1]   # regular index: a time point of X is repeated (sorted in the non-strict sense)
        else:
            raise ValueError("no interior label")
        return pd.DataFrame(data, index=pd.Index(i))
    if tok == "first":
        i[0] -= 1
        return pd.DataFrame(data, index=pd.Index(i))
    if tok == "last":
        i[-1] += 1
        return pd.DataFrame(data, index=pd.Index(i))
    if tok == "longer":
        i = np.append(i, i[-1] + 1)
        return pd.DataFrame({"u": np.arange(n + 1) * 1.0, "v": np.arange(n + 1) * -2.0}, index=pd.Index(i))
    raise ValueError(tok)


def mk_fh(tok):
    from sktime.forecasting.base import ForecastingHorizon
    if tok == "none":
        return None
    if tok.startswith("r:"):
        v = tok[2:]
        return [] if v == "-" else [int(x) for x in v.split(",")]
    if tok.startswith("a:"):
        v = tok[2:]
        return ForecastingHorizon(np.array([] if v == "-" else [int(x) for x in v.split(",")], dtype="int64"), is_relative=False)
    # the case says in which container form a malformed horizon is handed over (so a replay is exact)
    def pick(forms):
        return forms[_FH_FORM % len(forms)]
    if tok == "dup":           # a duplicate step, as list / array / pandas index / horizon-object input, adjacent or not
        return pick([[1, 2, 2], np.array([2, 1, 2]), pd.Index([1, 2, 2])])
    if tok == "empty":         # also as an (empty) horizon object, relative or absolute: constructing one is allowed, using it is not
        return pick([[], np.array([], dtype="int64"), pd.Index(np.array([], dtype="int64")),
                     ForecastingHorizon([], is_relative=True), ForecastingHorizon(np.array([], dtype="int64"), is_relative=False),
                     ForecastingHorizon(pd.RangeIndex(0), is_relative=True)])
    if tok == "frac":
        return pick([[1, 2.5], np.array([1.0, 2.5]), [0.5], [100000.4, 100001.0], np.array([2.0 + 2.0 ** -30])])
    return {"str": "abc", "float": 1.0}[tok]


_FH_FORM = 0


def _unused():
    return None


def mk_int(tok):
    if tok == "none":
        return None
    if tok.startswith("i:"):
        return int(tok[2:])
    if tok.startswith("f:"):
        p, q = tok[2:].split("/")
        return int(p) / int(q)
    if tok == "s":
        return "three"
    if tok == "b":
        return True
    raise ValueError(tok)


def _outcome(fn, est=None):
    warnings.filterwarnings("ignore")
    try:
        fn()
        out = "ok"
    except Exception as e:
        t = canon_err(e)
        out = "rej" if t in REJ else t
    if est is None:
        return out + ":-"
    try:
        return out + (":T" if est().is_fitted else ":F")
    except Exception:
        return out + ":F"      # construction failed: there is no estimator, hence no fitted state


# ------------------------------------------------------------------ entry points
def ep_naive_fit(c):
    from sktime.forecasting.naive import NaiveForecaster
    box = {}

    def run():
        box["f"] = NaiveForecaster(strategy=c["strategy"], sp=mk_int(c["sp"]), window_length=mk_int(c["wl"]))
        y = mk_y(c["y"], c.get("origin", 0))
        box["f"].fit(y, mk_X(c["X"], y), fh=mk_fh(c["fh"]))
    return _outcome(run, lambda: box["f"])


def ep_naive_predict(c):
    from sktime.forecasting.naive import NaiveForecaster
    f = NaiveForecaster(strategy="last")
    f.fit(mk_y("ok:%d" % c["n"], c.get("origin", 0)), fh=mk_fh(c["fitfh"]))
    return _outcome(lambda: f.predict(mk_fh(c["fh"])), lambda: f)


def ep_naive_update(c):
    from sktime.forecasting.naive import NaiveForecaster
    f = NaiveForecaster(strategy="mean")
    y1 = mk_y("ok:%d" % c["n"], 0)
    f.fit(y1, mk_X("ok", y1) if c["X"] != "none" else None, fh=[1])
    y2 = mk_y(c["y"], c["n"])

    def run():
        f.update(y2, mk_X(c["X"], y2), update_params=False)
    return _outcome(run, lambda: f)


def ep_required(c):
    """horizon-dependent forecaster (direct reduction): missing horizon at fit, different horizon at predict"""
    from sklearn.linear_model import LinearRegression
    from sktime.forecasting.compose import make_reduction
    f = make_reduction(LinearRegression(), strategy=c.get("strategy", "direct"), window_length=2)
    y = mk_y("ok:%d" % c["n"], 0)
    if c["phase"] == "fit":
        return _outcome(lambda: f.fit(y, fh=mk_fh(c["fh"])), lambda: f)
    f.fit(y, fh=mk_fh(c["fitfh"]))
    return _outcome(lambda: f.predict(mk_fh(c["fh"])), lambda: f)


def ep_split(c):
    from sktime.forecasting.model_selection import SlidingWindowSplitter, ExpandingWindowSplitter, SingleWindowSplitter, CutoffSplitter
    y = mk_y(c["y"], c.get("origin", 0))

    def run():
        k = c["kind"]
        if k == "sliding":
            cv = SlidingWindowSplitter(fh=mk_fh(c["fh"]), window_length=mk_int(c["wl"]), step_length=mk_int(c["step"]),
                                       initial_window=mk_int(c["iw"]), start_with_window=c["sww"])
        elif k == "expanding":
            cv = ExpandingWindowSplitter(fh=mk_fh(c["fh"]), initial_window=mk_int(c["wl"]), step_length=mk_int(c["step"]), start_with_window=c["sww"])
        elif k == "single":
            cv = SingleWindowSplitter(fh=mk_fh(c["fh"]), window_length=mk_int(c["wl"]))
        else:
            cuts = {"ok": np.array([max(0, y_len(c["y"]) - 4)], dtype="int64"), "empty": np.array([], dtype="int64"),
                    "list": [1, 2], "beyond": np.array([y_len(c["y"])], dtype="int64")}[c["cutoffs"]]
            cv = CutoffSplitter(cuts, fh=mk_fh(c["fh"]), window_length=mk_int(c["wl"]))
        folds = list(cv.split(y))
        if not folds and k != "cutoff":
            pass
    return _outcome(run)


def ep_tts(c):
    from sktime.forecasting.model_selection import temporal_train_test_split
    y = mk_y(c["y"], c.get("origin", 0))

    def run():
        temporal_train_test_split(y, mk_X(c["X"], y), test_size=mk_int(c["test"]), train_size=mk_int(c["train"]), fh=mk_fh(c["fh"]))
    return _outcome(run)


def ep_evaluate(c):
    from sktime.forecasting.naive import NaiveForecaster
    from sktime.forecasting.model_evaluation import evaluate
    from sktime.forecasting.model_selection import SlidingWindowSplitter
    from sktime.performance_metrics.forecasting import MeanAbsolutePercentageError
    f = NaiveForecaster()
    y = mk_y(c["y"], c.get("origin", 0))
    cv = {"ok": SlidingWindowSplitter(fh=[1, 2], window_length=3), "nosww": SlidingWindowSplitter(fh=[1], window_length=3, start_with_window=False),
          "notcv": "kfold", "none": None}[c["cv"]]
    scoring = {"none": None, "ok": MeanAbsolutePercentageError(), "notcallable": 3}[c["scoring"]]

    def run():
        evaluate(f, cv, y, mk_X(c["X"], y), strategy=c["strategy"], scoring=scoring)
    return _outcome(run)


def ep_gridsearch(c):
    from sktime.forecasting.naive import NaiveForecaster
    from sktime.forecasting.model_selection import ForecastingGridSearchCV, SlidingWindowSplitter
    from sktime.performance_metrics.forecasting import MeanAbsolutePercentageError
    y = mk_y(c["y"], c.get("origin", 0))
    cv = {"ok": SlidingWindowSplitter(fh=[1], window_length=3), "nosww": SlidingWindowSplitter(fh=[1], window_length=3, start_with_window=False),
          "notcv": "kfold"}[c["cv"]]
    scoring = {"none": None, "ok": MeanAbsolutePercentageError(), "notcallable": 3}[c["scoring"]]
    grid = {"ok": {"window_length": [2, 3]}, "scalar": {"window_length": 3}, "emptylist": {"window_length": []}, "unknown": {"nope": [1]}}[c["grid"]]
    box = {}

    def run():
        box["g"] = ForecastingGridSearchCV(NaiveForecaster(strategy="mean"), cv=cv, param_grid=grid, scoring=scoring,
                                           strategy=c.get("strategy", "refit"))
        box["g"].fit(y, mk_X(c["X"], y), fh=mk_fh(c["fh"]))
    return _outcome(run, lambda: box["g"])


def ep_reduce(c):
    from sklearn.linear_model import LinearRegression
    from sktime.forecasting.compose import make_reduction
    box = {}
    y = mk_y(c["y"], c.get("origin", 0))

    def regressor():
        if c["scitype"] == "time-series-regressor":      # a regressor over panels of windows (as upstream's tests build one)
            from sklearn.pipeline import make_pipeline
            from sktime.transformations.panel.reduce import Tabularizer
            return make_pipeline(Tabularizer(), LinearRegression())
        return LinearRegression()

    def run():
        if c.get("via", "factory") == "factory":
            box["f"] = make_reduction(regressor(), strategy=c["strategy"], window_length=mk_int(c["wl"]), scitype=c["scitype"])
        else:
            # the reduction classes constructed directly: the only reduction entry point that takes a step_length
            import sktime.forecasting.compose as comp
            name = {"direct": "Direct", "recursive": "Recursive", "multioutput": "Multioutput", "dirrec": "DirRec"}[c["strategy"]] + \
                ("TimeSeries" if c["scitype"] == "time-series-regressor" else "Tabular") + "RegressionForecaster"
            box["f"] = getattr(comp, name)(regressor(), window_length=mk_int(c["wl"]), step_length=mk_int(c["step"]))
        box["f"].fit(y, mk_X(c["X"], y), fh=mk_fh(c["fh"]))
    return _outcome(run, lambda: box["f"])


def ep_composite(c):
    from sklearn.linear_model import LinearRegression
    from sktime.forecasting.naive import NaiveForecaster
    from sktime.forecasting.trend import PolynomialTrendForecaster
    from sktime.forecasting.compose import EnsembleForecaster, TransformedTargetForecaster, MultiplexForecaster, StackingForecaster
    from sktime.transformations.series.boxcox import LogTransformer
    from sktime.transformations.panel.reduce import Tabularizer
    y = mk_y(c["y"], c.get("origin", 0))
    box = {}
    kind, shape = c["kind"], c["shape"]

    def members():
        a, b = NaiveForecaster(), PolynomialTrendForecaster()
        return {"ok": [("a", a), ("b", b)], "dupnames": [("a", a), ("a", b)], "dunder": [("a__x", a), ("b", b)],
                "clash": [("forecasters", a), ("b", b)] if kind != "pipeline" else [("steps", LogTransformer()), ("b", b)],
                "none": None, "emptylist": [], "tuple": (("a", a), ("b", b)), "notforecaster": [("a", a), ("b", LinearRegression())],
                "alldropped": [("a", None), ("b", "drop")]}[shape]

    def run():
        if kind == "ensemble":
            box["f"] = EnsembleForecaster(members(), aggfunc=c.get("aggfunc", "mean"))
        elif kind == "pipeline":
            steps = {"ok": [("log", LogTransformer()), ("f", NaiveForecaster())],
                     "dupnames": [("x", LogTransformer()), ("x", NaiveForecaster())],
                     "dunder": [("l__g", LogTransformer()), ("f", NaiveForecaster())],
                     "clash": [("steps", LogTransformer()), ("f", NaiveForecaster())],
                     "lastnotforecaster": [("log", LogTransformer()), ("f", LogTransformer())],
                     "badtransformer": [("t", Tabularizer()), ("f", NaiveForecaster())],
                     "forecasterinmiddle": [("g", NaiveForecaster()), ("f", NaiveForecaster())]}[shape]
            box["f"] = TransformedTargetForecaster(steps)
        elif kind == "multiplexer":
            box["f"] = MultiplexForecaster([("a", NaiveForecaster()), ("b", PolynomialTrendForecaster())],
                                           selected_forecaster={"ok": "a", "unknownname": "zzz", "noneselected": None}[shape])
        else:
            box["f"] = StackingForecaster(members(), final_regressor=LinearRegression())
        box["f"].fit(y, fh=mk_fh(c["fh"]))
        if c.get("predict"):
            box["f"].predict()
    return _outcome(run, lambda: box["f"])


def ep_fh(c):
    from sktime.forecasting.base import ForecastingHorizon
    from sktime.utils.validation.forecasting import check_fh

    def run():
        v = mk_fh(c["fh"])
        if c["via"] == "ctor":
            ForecastingHorizon(v if v is not None else None, is_relative=True if c["rel"] == "T" else False if c["rel"] == "F" else "yes")
        else:
            check_fh(v, enforce_relative=c["enf"])
    return _outcome(run)


ENTRY = {"naive_fit": ep_naive_fit, "naive_predict": ep_naive_predict, "naive_update": ep_naive_update, "required": ep_required,
         "split": ep_split, "tts": ep_tts, "evaluate": ep_evaluate, "gridsearch": ep_gridsearch, "reduce": ep_reduce,
         "composite": ep_composite, "fh": ep_fh}
