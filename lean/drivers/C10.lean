import SkVerif.Drv.C10
import SkVerif.Drv.Loop
def main : IO Unit := SkVerif.Drv.runLoop "C10" SkVerif.Drv.C10.handle
