import SkVerif.Drv.C04
import SkVerif.Drv.Loop
def main : IO Unit := SkVerif.Drv.runLoop "C04" SkVerif.Drv.C04.handle
