import SkVerif.Drv.C05
import SkVerif.Drv.Loop
def main : IO Unit := SkVerif.Drv.runLoop "C05" SkVerif.Drv.C05.handle
