import SkVerif.Drv.C16
import SkVerif.Drv.Loop
def main : IO Unit := SkVerif.Drv.runLoop "C16" SkVerif.Drv.C16.handle
