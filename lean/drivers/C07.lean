import SkVerif.Drv.C07
import SkVerif.Drv.Loop
def main : IO Unit := SkVerif.Drv.runLoop "C07" SkVerif.Drv.C07.handle
