import SkVerif.Drv.C08
import SkVerif.Drv.Loop
def main : IO Unit := SkVerif.Drv.runLoop "C08" SkVerif.Drv.C08.handle
