import SkVerif.Drv.C09
import SkVerif.Drv.Loop
def main : IO Unit := SkVerif.Drv.runLoop "C09" SkVerif.Drv.C09.handle
