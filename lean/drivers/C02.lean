import SkVerif.Drv.C02
import SkVerif.Drv.Loop
def main : IO Unit := SkVerif.Drv.runLoop "C02" SkVerif.Drv.C02.handle
