import SkVerif.Drv.C18
import SkVerif.Drv.Loop
def main : IO Unit := SkVerif.Drv.runLoop "C18" SkVerif.Drv.C18.handle
