import SkVerif.Drv.C11
import SkVerif.Drv.Loop
def main : IO Unit := SkVerif.Drv.runLoop "C11" SkVerif.Drv.C11.handle
