import SkVerif.Drv.C06
import SkVerif.Drv.Loop
def main : IO Unit := SkVerif.Drv.runLoop "C06" SkVerif.Drv.C06.handle
