import SkVerif.Drv.C12
import SkVerif.Drv.Loop
def main : IO Unit := SkVerif.Drv.runLoop "C12" SkVerif.Drv.C12.handle
