import SkVerif.Drv.C19
import SkVerif.Drv.Loop
def main : IO Unit := SkVerif.Drv.runLoop "C19" SkVerif.Drv.C19.handle
