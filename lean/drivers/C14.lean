import SkVerif.Drv.C14
import SkVerif.Drv.Loop
def main : IO Unit := SkVerif.Drv.runLoop "C14" SkVerif.Drv.C14.handle
