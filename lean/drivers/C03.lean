import SkVerif.Drv.C10
import SkVerif.Drv.Loop
-- C03 shares the forecaster machine with C10; `SkVerif.Drv.C10.handle` adds the `pirun` op and falls back to `SkVerif.Drv.C03.handle`
def main : IO Unit := SkVerif.Drv.runLoop "C03" SkVerif.Drv.C10.handle
