import SkVerif.Drv.C03
import SkVerif.Drv.Loop
def main : IO Unit := SkVerif.Drv.runLoop "C03" SkVerif.Drv.C03.handle
