import SkVerif.Drv.C01
import SkVerif.Drv.Loop
def main : IO Unit := SkVerif.Drv.runLoop "C01" SkVerif.Drv.C01.handle
