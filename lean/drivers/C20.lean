import SkVerif.Drv.C20
import SkVerif.Drv.Loop
def main : IO Unit := SkVerif.Drv.runLoop "C20" SkVerif.Drv.C20.handle
