import SkVerif.Drv.C15
import SkVerif.Drv.Loop
def main : IO Unit := SkVerif.Drv.runLoop "C15" SkVerif.Drv.C15.handle
