import SkVerif.Drv.C17
import SkVerif.Drv.Loop
def main : IO Unit := SkVerif.Drv.runLoop "C17" SkVerif.Drv.C17.handle
