import SkVerif.Drv.C13
import SkVerif.Drv.Loop
def main : IO Unit := SkVerif.Drv.runLoop "C13" SkVerif.Drv.C13.handle
