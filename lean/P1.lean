import SkVerif.Model.Params
import SkVerif.Drv.C04
set_option maxRecDepth 100000
namespace SkVerif.Gen
open SkVerif.Params

/-- ARIMA  (sktime/forecasting/arima.py:357) -/
def c13 : ClassEntry Nat := {
  name := 13, external := false,
  mro := [13, 14, 15, 16, 17, 18, 19],
  init := some {
    params := [(20, true), (21, true), (22, true), (23, true), (24, true), (25, true), (26, true), (27, true), (28, true), (29, true), (30, true)],
    varargs := true,
    body := [.assign 20 (.param 20) false,
      .assign 21 (.param 21) false,
      .assign 22 (.param 22) false,
      .assign 23 (.param 23) false,
      .assign 24 (.param 24) false,
      .assign 25 (.param 25) false,
      .assign 26 (.param 26) false,
      .assign 27 (.param 27) false,
      .assign 28 (.param 28) false,
      .assign 29 (.param 29) false,
      .assign 30 (.param 30) false,
      .assign 31 (.const 1) false,
      .superCall none [] [] false false] },
  methods := [{ name := 32, isProp := false, events := [.use 20, .use 21, .use 22, .use 23, .use 24, .use 25, .use 26, .use 27, .use 28, .use 29, .use 30, .use 31, .ret false false] }],
  classAttrs := [],
  getImpl := .inherit, setImpl := .inherit,
  hooks := false }
/-- AutoARIMA  (sktime/forecasting/arima.py:14) -/
def c33 : ClassEntry Nat := {
  name := 33, external := false,
  mro := [33, 14, 15, 16, 17, 18, 19],
  init := some {
    params := [(34, true), (35, true), (36, true), (37, true), (38, true), (39, true), (40, true), (41, true), (42, true), (43, true), (44, true), (45, true), (46, true), (47, true), (48, true), (49, true), (50, true), (51, true), (52, true), (53, true), (54, true), (55, true), (22, true), (29, true), (23, true), (24, true), (56, true), (57, true), (25, true), (58, true), (59, true), (60, true), (61, true), (62, true), (26, true), (27, true), (28, true), (30, true)],
    varargs := true,
    body := [.assign 34 (.param 34) false,
      .assign 35 (.param 35) false,
      .assign 36 (.param 36) false,
      .assign 37 (.param 37) false,
      .assign 38 (.param 38) false,
      .assign 39 (.param 39) false,
      .assign 40 (.param 40) false,
      .assign 41 (.param 41) false,
      .assign 42 (.param 42) false,
      .assign 43 (.param 43) false,
      .assign 44 (.param 44) false,
      .assign 45 (.param 45) false,
      .assign 46 (.param 46) false,
      .assign 47 (.param 47) false,
      .assign 48 (.param 48) false,
      .assign 49 (.param 49) false,
      .assign 50 (.param 50) false,
      .assign 51 (.param 51) false,
      .assign 52 (.param 52) false,
      .assign 53 (.param 53) false,
      .assign 54 (.param 54) false,
      .assign 55 (.param 55) false,
      .assign 22 (.param 22) false,
      .assign 29 (.param 29) false,
      .assign 23 (.param 23) false,
      .assign 24 (.param 24) false,
      .assign 56 (.param 56) false,
      .assign 57 (.param 57) false,
      .assign 25 (.param 25) false,
      .assign 58 (.param 58) false,
      .assign 59 (.param 59) false,
      .assign 60 (.param 60) false,
      .assign 61 (.param 61) false,
      .assign 62 (.param 62) false,
      .assign 26 (.param 26) false,
      .assign 27 (.param 27) false,
      .assign 28 (.param 28) false,
      .assign 30 (.param 30) false,
      .assign 63 (.const 2) false,
      .superCall none [] [] false false] },
  methods := [{ name := 32, isProp := false, events := [.use 34, .use 35, .use 36, .use 37, .use 38, .use 39, .use 40, .use 41, .use 42, .use 43, .use 44, .use 45, .use 46, .use 47, .use 48, .use 49, .use 50, .use 51, .use 52, .use 53, .use 54, .use 55, .use 29, .use 23, .use 24, .use 56, .use 57, .use 25, .use 58, .use 59, .use 60, .use 61, .use 62, .use 26, .use 27, .use 28, .use 30, .use 63, .ret false false] }],
  classAttrs := [],
  getImpl := .inherit, setImpl := .inherit,
  hooks := false }
/-- AutoCorrelationTransformer  (sktime/transformations/series/acf.py:15) -/
def c64 : ClassEntry Nat := {
  name := 64, external := false,
  mro := [64, 65, 66, 18, 19],
  init := some {
    params := [(67, true), (68, true), (69, true), (70, true), (71, true)],
    varargs := false,
    body := [.assign 67 (.param 67) false,
      .assign 68 (.param 68) false,
      .assign 69 (.param 69) false,
      .assign 70 (.param 70) false,
      .assign 71 (.param 71) false,
      .superCall none [] [] false false] },
  methods := [{ name := 2, isProp := false, events := [.callSelf 10, .use 67, .use 68, .use 69, .use 70, .use 71, .ret false false] }],
  classAttrs := [72],
  getImpl := .inherit, setImpl := .inherit,
  hooks := false }
/-- AutoETS  (sktime/forecasting/ets.py:12) -/
def c73 : ClassEntry Nat := {
  name := 73, external := false,
  mro := [73, 74, 15, 16, 17, 18, 19],
  init := some {
    params := [(75, true), (29, true), (76, true), (48, true), (47, true), (77, true), (78, true), (79, true), (80, true), (81, true), (82, true), (83, true), (71, true), (22, true), (24, true), (84, true), (85, true), (86, true), (87, true), (88, true), (50, true), (89, true), (90, true), (91, true), (55, true)],
    varargs := true,
    body := [.assign 75 (.param 75) false,
      .assign 29 (.param 29) false,
      .assign 76 (.param 76) false,
      .assign 48 (.param 48) false,
      .assign 47 (.param 47) false,
      .assign 77 (.param 77) false,
      .assign 78 (.param 78) false,
      .assign 79 (.param 79) false,
      .assign 80 (.param 80) false,
      .assign 81 (.param 81) false,
      .assign 82 (.param 82) false,
      .assign 83 (.param 83) false,
      .assign 71 (.param 71) false,
      .assign 22 (.param 22) false,
      .assign 24 (.param 24) false,
      .assign 84 (.param 84) false,
      .assign 85 (.param 85) false,
      .assign 86 (.param 86) false,
      .assign 87 (.param 87) false,
      .assign 50 (.param 50) false,
      .assign 88 (.param 88) false,
      .assign 89 (.param 89) false,
      .assign 90 (.param 90) false,
      .assign 91 (.param 91) false,
      .assign 55 (.param 55) false,
      .superCall none [] [] false false] },
  methods := [{ name := 94, isProp := false, events := [.use 88, .use 89, .use 47, .use 47, .use 50, .raise true true, .use 90, .use 91, .use 47, .use 77, .use 78, .use 79, .use 80, .use 81, .use 82, .use 83, .use 71, .use 22, .use 24, .use 84, .use 85, .use 86, .use 87, .ret true false, .use 55, .use 50, .write 92, .write 93, .use 75, .use 29, .use 76, .use 48, .use 47, .use 77, .use 78, .use 79, .use 80, .use 81, .use 82, .use 83, .use 71, .write 92, .use 92, .use 22, .use 24, .use 84, .use 85, .use 86, .use 87, .write 93] },
    { name := 95, isProp := false, events := [.use 93, .ret false false] }],
  classAttrs := [],
  getImpl := .inherit, setImpl := .inherit,
  hooks := false }
/-- BATS  (sktime/forecasting/bats.py:14) -/
def c96 : ClassEntry Nat := {
  name := 96, external := false,
  mro := [96, 97, 15, 16, 17, 18, 19],
  init := none,
  methods := [],
  classAttrs := [98],
  getImpl := .inherit, setImpl := .inherit,
  hooks := false }
/-- BOSSEnsemble  (sktime/classification/dictionary_based/_boss.py:27) -/
def c99 : ClassEntry Nat := {
  name := 99, external := false,
  mro := [99, 100, 18, 19],
  init := some {
    params := [(101, true), (102, true), (103, true), (104, true), (55, true), (61, true)],
    varargs := false,
    body := [.assign 101 (.param 101) false,
      .assign 102 (.param 102) false,
      .assign 103 (.param 103) false,
      .assign 55 (.param 55) false,
      .assign 61 (.param 61) false,
      .assign 105 (.const 3) false,
      .assign 106 (.const 4) false,
      .assign 107 (.const 5) false,
      .assign 108 (.const 6) false,
      .assign 109 (.const 7) false,
      .assign 110 (.const 8) false,
      .assign 111 (.const 9) false,
      .assign 112 (.const 10) false,
      .assign 113 (.const 11) false,
      .assign 104 (.param 104) false,
      .assign 114 (.const 12) false,
      .superCall none [] [] false false] },
  methods := [{ name := 115, isProp := false, events := [.use 106, .use 106, .use 109, .use 106, .use 55, .use 105, .use 108, .use 106, .ret false false] },
    { name := 116, isProp := false, events := [.use 101, .use 102, .ret true false, .ret true false, .ret false false] },
    { name := 117, isProp := false, events := [.use 55, .use 55, .ret true false, .ret true false, .ret false false] },
    { name := 118, isProp := false, events := [.use 105, .ret false false] },
    { name := 7, isProp := false, events := [.write 111, .write 110, .write 106, .write 107, .use 107, .use 108, .write 108, .write 105, .use 110, .use 110, .use 103, .use 104, .use 104, .use 104, .use 110, .raise true true, .use 113, .use 104, .use 112, .use 114, .use 61, .use 112, .use 111, .callSelf 117, .use 105, .callSelf 116, .use 105, .use 105, .use 105, .use 101, .write 105, .callSelf 118, .use 105, .use 102, .use 105, .write 105, .callSelf 118, .use 105, .write 109, .write 11, .ret false true] },
    { name := 0, isProp := false, events := [.use 61, .callSelf 1, .use 107, .ret false false] },
    { name := 1, isProp := false, events := [.callSelf 10, .use 106, .use 105, .use 108, .use 106, .use 109, .ret false false] }],
  classAttrs := [119],
  getImpl := .inherit, setImpl := .inherit,
  hooks := false }
/-- BagOfPatterns  (sktime/contrib/dictionary_based/bop.py:15) -/
def c120 : ClassEntry Nat := {
  name := 120, external := false,
  mro := [120, 18, 19],
  init := none,
  methods := [{ name := 121, isProp := false, events := [.ret false false] }],
  classAttrs := [122],
  getImpl := .inherit, setImpl := .inherit,
  hooks := false }
/-- BaseClassifier  (sktime/classification/base.py:40) -/
def c100 : ClassEntry Nat := {
  name := 100, external := false,
  mro := [100, 18, 19],
  init := none,
  methods := [{ name := 7, isProp := false, events := [.raise false false] },
    { name := 0, isProp := false, events := [.callSelf 10, .callSelf 1, .use 123, .ret false false] },
    { name := 1, isProp := false, events := [.raise false false] },
    { name := 6, isProp := false, events := [.callSelf 0, .ret false false] }],
  classAttrs := [],
  getImpl := .inherit, setImpl := .inherit,
  hooks := false }
/-- BaseColumnEnsembleClassifier  (sktime/classification/compose/_column_ensemble.py:21) -/
def c124 : ClassEntry Nat := {
  name := 124, external := false,
  mro := [124, 100, 125, 18, 19],
  init := some {
    params := [(126, false), (127, true)],
    varargs := false,
    body := [.assign 127 (.param 127) false,
      .assign 126 (.param 126) false,
      .assign 128 (.const 13) false,
      .superCall none [] [] false false] },
  methods := [{ name := 130, isProp := false, events := [.callSelf 129, .ret false false] },
    { name := 131, isProp := true, events := [.use 126, .ret false false] },
    { name := 129, isProp := false, events := [.use 12, .use 132, .use 126, .use 133, .use 134, .use 134] },
    { name := 135, isProp := false, events := [.use 126, .write 133] },
    { name := 137, isProp := false, events := [.use 126, .ret true false, .use 126, .callSelf 136, .raise true false] },
    { name := 138, isProp := false, events := [.use 128, .use 128, .use 128, .use 128, .raise true true, .use 133, .use 128, .write 134] },
    { name := 7, isProp := false, events := [.use 126, .use 126, .raise true true, .callSelf 137, .callSelf 135, .callSelf 138, .write 139, .use 139, .write 107, .use 139, .callSelf 129, .write 132, .write 11, .ret false true] },
    { name := 0, isProp := false, events := [.callSelf 1, .use 139, .ret false false] },
    { name := 1, isProp := false, events := [.callSelf 10, .callSelf 130, .ret false false] }],
  classAttrs := [],
  getImpl := .inherit, setImpl := .inherit,
  hooks := false }
/-- BaseEstimator  (sktime/base/_base.py:15) -/
def c18 : ClassEntry Nat := {
  name := 18, external := false,
  mro := [18, 19],
  init := some {
    params := [],
    varargs := false,
    body := [.assign 11 (.lit false) false] },
  methods := [{ name := 140, isProp := false, events := [.ret false false] },
    { name := 10, isProp := false, events := [.check false] },
    { name := 12, isProp := true, events := [.ret false false] }],
  classAttrs := [],
  getImpl := .inherit, setImpl := .inherit,
  hooks := false }
/-- BaseForecaster  (sktime/forecasting/base/_base.py:14) -/
def c17 : ClassEntry Nat := {
  name := 17, external := false,
  mro := [17, 18, 19],
  init := some {
    params := [],
    varargs := false,
    body := [.assign 11 (.lit false) false,
      .superCall none [] [] false false] },
  methods := [{ name := 141, isProp := false, events := [.raise false false] },
    { name := 7, isProp := false, events := [.raise false false] },
    { name := 142, isProp := false, events := [.raise false false] },
    { name := 0, isProp := false, events := [.raise false false] },
    { name := 6, isProp := false, events := [.callSelf 0, .ret false false] },
    { name := 4, isProp := false, events := [.raise false false] },
    { name := 5, isProp := false, events := [.raise false false] },
    { name := 143, isProp := false, events := [.raise true false, .callSelf 4, .callSelf 0, .ret false false] }],
  classAttrs := [],
  getImpl := .inherit, setImpl := .inherit,
  hooks := false }
/-- BaseGridSearch  (sktime/forecasting/model_selection/_tune.py:26) -/
def c144 : ClassEntry Nat := {
  name := 144, external := false,
  mro := [144, 17, 18, 19],
  init := some {
    params := [(145, false), (146, false), (147, true), (55, true), (148, true), (149, true), (27, true), (127, true)],
    varargs := false,
    body := [.assign 145 (.param 145) false,
      .assign 146 (.param 146) false,
      .assign 147 (.param 147) false,
      .assign 55 (.param 55) false,
      .assign 148 (.param 148) false,
      .assign 149 (.param 149) false,
      .assign 27 (.param 27) false,
      .assign 127 (.param 127) false,
      .superCall none [] [] false false] },
  methods := [{ name := 150, isProp := false, events := [.raise false false] },
    { name := 10, isProp := false, events := [.callSuper 10, .use 149, .escape, .raise true true, .use 151] },
    { name := 141, isProp := false, events := [.callSelf 10, .use 151, .ret false false] },
    { name := 152, isProp := true, events := [.callSelf 10, .use 151, .ret false false] },
    { name := 7, isProp := false, events := [.use 146, .use 27, .use 55, .use 148, .use 145, .use 147, .ret true false, .use 127, .raise true false, .ret true false, .callSelf 150, .write 153, .write 154, .use 154, .write 155, .use 154, .write 156, .use 145, .use 156, .write 151, .use 149, .use 151, .write 11, .ret false true] },
    { name := 142, isProp := false, events := [.callSelf 10, .use 151, .ret false false] },
    { name := 3, isProp := false, events := [.callSelf 10, .use 151, .ret false false] },
    { name := 0, isProp := false, events := [.callSelf 10, .use 151, .ret false false] },
    { name := 6, isProp := false, events := [.callSelf 10, .use 27, .use 151, .ret true false, .use 151, .callSelf 27, .ret true false] },
    { name := 2, isProp := false, events := [.callSelf 10, .use 151, .ret false false] },
    { name := 4, isProp := false, events := [.callSelf 10, .use 151, .ret false true] },
    { name := 5, isProp := false, events := [.callSelf 10, .use 151, .ret false false] },
    { name := 143, isProp := false, events := [.callSelf 10, .use 151, .ret false false] }],
  classAttrs := [],
  getImpl := .inherit, setImpl := .inherit,
  hooks := false }
/-- BaseRegressor  (sktime/regression/base.py:11) -/
def c157 : ClassEntry Nat := {
  name := 157, external := false,
  mro := [157, 18, 19],
  init := none,
  methods := [{ name := 7, isProp := false, events := [.raise false false] },
    { name := 0, isProp := false, events := [.raise false false] },
    { name := 6, isProp := false, events := [.callSelf 0, .ret false false] }],
  classAttrs := [],
  getImpl := .inherit, setImpl := .inherit,
  hooks := false }
/-- BaseStrategy  (sktime/benchmarking/strategies.py:33) -/
def c158 : ClassEntry Nat := {
  name := 158, external := false,
  mro := [158, 18, 19],
  init := some {
    params := [(159, false), (160, true)],
    varargs := false,
    body := [.other,
      .assign 161 (.param 159) false,
      .assign 162 (.derived 14) false,
      .assign 163 (.const 15) false] },
  methods := [{ name := 165, isProp := false, events := [.use 164, .raise true true, .use 164, .ret false false] },
    { name := 168, isProp := false, events := [.use 166, .use 159, .callSelf 167, .ret false false] },
    { name := 169, isProp := false, events := [.escape, .use 164, .raise true true, .raise true true, .raise true false, .raise true false, .raise true false] },
    { name := 171, isProp := false, events := [.use 170, .raise true true, .raise true false] },
    { name := 172, isProp := false, events := [.raise true false] },
    { name := 159, isProp := true, events := [.use 161, .ret false false] },
    { name := 7, isProp := false, events := [.callSelf 172, .callSelf 171, .write 163, .use 163, .use 163, .callSelf 8, .ret false false] },
    { name := 173, isProp := false, events := [.ret false false] },
    { name := 160, isProp := true, events := [.use 162, .ret false false] },
    { name := 174, isProp := false, events := [.escape] }],
  classAttrs := [],
  getImpl := .inherit, setImpl := .inherit,
  hooks := false }
/-- BaseSupervisedLearningStrategy  (sktime/benchmarking/strategies.py:202) -/
def c175 : ClassEntry Nat := {
  name := 175, external := false,
  mro := [175, 158, 18, 19],
  init := none,
  methods := [{ name := 8, isProp := false, events := [.use 163, .use 163, .use 159, .ret false false] },
    { name := 0, isProp := false, events := [.use 163, .use 159, .ret false false] }],
  classAttrs := [],
  getImpl := .inherit, setImpl := .inherit,
  hooks := false }
/-- BaseTimeSeriesForest@series_as_features.base.estimators._ensemble  (sktime/series_as_features/base/estimators/_ensemble.py:82) -/
def c176 : ClassEntry Nat := {
  name := 176, external := false,
  mro := [176, 177],
  init := some {
    params := [(178, false), (109, true), (179, true), (180, true), (181, true), (55, true), (61, true), (127, true), (182, true), (183, true), (184, true)],
    varargs := false,
    body := [.superCall none [(.param 178)] [(109, (.param 109)), (179, (.param 179))] false false,
      .assign 180 (.param 180) false,
      .assign 181 (.param 181) false,
      .assign 55 (.param 55) false,
      .assign 61 (.param 61) false,
      .assign 127 (.param 127) false,
      .assign 182 (.param 182) false,
      .assign 183 (.param 183) false,
      .assign 184 (.param 184) false] },
  methods := [{ name := 186, isProp := false, events := [.use 185, .use 179, .escape, .use 132, .ret false false] },
    { name := 188, isProp := false, events := [.use 187, .use 187, .raise true true, .ret false false] },
    { name := 189, isProp := false, events := [.raise false false] },
    { name := 190, isProp := false, events := [.raise false false] },
    { name := 191, isProp := true, events := [.use 132, .raise true true, .use 132, .use 132, .use 132, .ret false false] },
    { name := 7, isProp := false, events := [.write 187, .write 192, .write 193, .callSelf 194, .use 184, .callSelf 195, .use 180, .use 181, .raise true true, .use 61, .use 182, .escape, .write 132, .use 109, .use 132, .use 109, .use 132, .raise true false, .use 182, .use 132, .use 132, .callSelf 186, .use 55, .use 127, .use 127, .use 183, .escape, .use 132, .use 181, .callSelf 196, .escape, .use 193, .use 197, .write 197, .use 107, .write 107, .write 11, .ret false true] }],
  classAttrs := [],
  getImpl := .inherit, setImpl := .inherit,
  hooks := false }
/-- BaseTimeSeriesForest@series_as_features.base.estimators.interval_based._tsf  (sktime/series_as_features/base/estimators/interval_based/_tsf.py:28) -/
def c198 : ClassEntry Nat := {
  name := 198, external := false,
  mro := [198],
  init := some {
    params := [(199, true), (109, true), (55, true), (61, true)],
    varargs := false,
    body := [.superCall none [] [(178, (.derived 16)), (109, (.param 109))] false false,
      .assign 61 (.param 61) false,
      .assign 109 (.param 109) false,
      .assign 199 (.param 199) false,
      .assign 55 (.param 55) false,
      .assign 106 (.const 17) false,
      .assign 110 (.const 18) false,
      .assign 200 (.const 19) false,
      .assign 132 (.const 20) false,
      .assign 201 (.const 21) false,
      .assign 107 (.const 22) false,
      .assign 11 (.lit false) false] },
  methods := [{ name := 7, isProp := false, events := [.use 119, .write 110, .use 61, .write 106, .write 107, .use 110, .write 200, .use 200, .write 200, .use 110, .use 199, .use 110, .write 199, .use 109, .use 200, .use 199, .use 110, .write 201, .use 55, .use 109, .use 178, .use 201, .use 61, .write 132, .write 11, .ret false true] }],
  classAttrs := [119],
  getImpl := .inherit, setImpl := .inherit,
  hooks := false }
/-- BaseTransformer  (sktime/transformations/base.py:36) -/
def c66 : ClassEntry Nat := {
  name := 66, external := false,
  mro := [66, 18, 19],
  init := some {
    params := [],
    varargs := false,
    body := [.superCall none [] [] false false] },
  methods := [{ name := 7, isProp := false, events := [.write 11, .ret false true] },
    { name := 202, isProp := false, events := [.callSelf 7, .ret true false, .callSelf 7, .ret true false] },
    { name := 2, isProp := false, events := [.raise false false] }],
  classAttrs := [],
  getImpl := .inherit, setImpl := .inherit,
  hooks := false }
/-- BoxCoxTransformer  (sktime/transformations/series/boxcox.py:24) -/
def c203 : ClassEntry Nat := {
  name := 203, external := false,
  mro := [203, 65, 66, 18, 19],
  init := some {
    params := [(81, true), (23, true)],
    varargs := false,
    body := [.assign 81 (.param 81) false,
      .assign 23 (.param 23) false,
      .assign 204 (.const 23) false,
      .superCall none [] [] false false] },
  methods := [{ name := 7, isProp := false, events := [.use 81, .use 23, .write 204, .write 11, .ret false true] },
    { name := 3, isProp := false, events := [.callSelf 10, .use 204, .ret false false] },
    { name := 2, isProp := false, events := [.callSelf 10, .use 204, .ret false false] }],
  classAttrs := [72],
  getImpl := .inherit, setImpl := .inherit,
  hooks := false }
/-- CanonicalIntervalForest  (sktime/classification/interval_based/_cif.py:27) -/
def c205 : ClassEntry Nat := {
  name := 205, external := false,
  mro := [205, 206, 100, 18, 19],
  init := some {
    params := [(199, true), (207, true), (109, true), (200, true), (208, true), (55, true), (61, true)],
    varargs := false,
    body := [.superCall none [] [(178, (.const 24)), (109, (.param 109))] false false,
      .assign 109 (.param 109) false,
      .assign 200 (.param 200) false,
      .assign 199 (.param 199) false,
      .assign 207 (.param 207) false,
      .assign 208 (.param 208) false,
      .assign 61 (.param 61) false,
      .assign 55 (.param 55) false,
      .assign 106 (.const 25) false,
      .assign 111 (.const 26) false,
      .assign 209 (.const 27) false,
      .assign 110 (.const 28) false,
      .assign 210 (.param 200) false,
      .assign 211 (.param 207) false,
      .assign 105 (.const 29) false,
      .assign 212 (.const 30) false,
      .assign 213 (.const 31) false,
      .assign 214 (.const 32) false,
      .assign 107 (.const 33) false,
      .assign 11 (.lit false) false] },
  methods := [{ name := 215, isProp := false, events := [.ret true false, .ret true false, .ret true false, .ret true false] },
    { name := 216, isProp := false, events := [.use 61, .use 61, .use 61, .use 208, .use 210, .use 111, .use 208, .use 209, .use 210, .use 210, .use 210, .use 110, .use 199, .use 110, .use 211, .use 199, .use 199, .use 110, .use 199, .use 199, .use 211, .use 199, .use 199, .use 199, .use 199, .use 208, .callSelf 215, .use 208, .use 178, .ret false false] },
    { name := 217, isProp := false, events := [.use 208, .use 210, .use 210, .use 208, .callSelf 215, .use 208, .ret false false] },
    { name := 7, isProp := false, events := [.write 111, .write 209, .write 110, .write 106, .write 107, .use 200, .use 110, .use 209, .write 210, .use 210, .write 210, .use 110, .use 199, .use 110, .write 199, .use 207, .use 110, .write 211, .use 211, .use 199, .use 199, .write 211, .use 55, .use 109, .use 216, .write 105, .write 213, .write 214, .write 212, .write 11, .ret false true] },
    { name := 0, isProp := false, events := [.use 61, .callSelf 1, .use 107, .ret false false] },
    { name := 1, isProp := false, events := [.callSelf 10, .use 110, .raise true true, .use 55, .use 109, .use 217, .use 105, .use 213, .use 214, .use 212, .use 106, .use 109, .ret false false] }],
  classAttrs := [119],
  getImpl := .inherit, setImpl := .inherit,
  hooks := false }
/-- Catch22  (sktime/transformations/panel/catch22_features.py:20) -/
def c218 : ClassEntry Nat := {
  name := 218, external := false,
  mro := [218, 219, 66, 18, 19],
  init := some {
    params := [],
    varargs := false,
    body := [.superCall none [] [] false false] },
  methods := [{ name := 220, isProp := false, events := [.raise true false, .raise true false, .raise true false, .ret false false] },
    { name := 2, isProp := false, events := [.callSelf 10, .ret false false] }],
  classAttrs := [],
  getImpl := .inherit, setImpl := .inherit,
  hooks := false }
/-- Catch22ForestClassifier  (sktime/classification/hybrid/_catch22_forest_classifier.py:21) -/
def c221 : ClassEntry Nat := {
  name := 221, external := false,
  mro := [221, 100, 18, 19],
  init := some {
    params := [(109, true), (55, true), (61, true)],
    varargs := false,
    body := [.assign 109 (.param 109) false,
      .assign 55 (.param 55) false,
      .assign 61 (.param 61) false,
      .assign 222 (.const 34) false,
      .assign 223 (.const 35) false,
      .assign 224 (.const 36) false,
      .assign 107 (.const 37) false,
      .superCall none [] [] false false] },
  methods := [{ name := 7, isProp := false, events := [.write 107, .use 55, .use 109, .use 61, .write 222, .use 222, .write 11, .ret false true] },
    { name := 0, isProp := false, events := [.callSelf 10, .use 222, .ret false false] },
    { name := 1, isProp := false, events := [.callSelf 10, .use 222, .ret false false] }],
  classAttrs := [],
  getImpl := .inherit, setImpl := .inherit,
  hooks := false }
/-- ColumnConcatenator  (sktime/transformations/panel/compose.py:191) -/
def c225 : ClassEntry Nat := {
  name := 225, external := false,
  mro := [225, 226, 66, 18, 19],
  init := none,
  methods := [{ name := 2, isProp := false, events := [.callSelf 10, .ret false false] }],
  classAttrs := [],
  getImpl := .inherit, setImpl := .inherit,
  hooks := false }
/-- ColumnEnsembleClassifier  (sktime/classification/compose/_column_ensemble.py:185) -/
def c227 : ClassEntry Nat := {
  name := 227, external := false,
  mro := [227, 124, 100, 125, 18, 19],
  init := some {
    params := [(126, false), (128, true), (127, true)],
    varargs := false,
    body := [.assign 128 (.param 128) false,
      .superCall none [(.param 126)] [(127, (.param 127))] false false] },
  methods := [{ name := 167, isProp := false, events := [.callSelf 228, .ret false false] },
    { name := 230, isProp := false, events := [.callSelf 229, .ret false true] }],
  classAttrs := [231],
  getImpl := .viaMeta 131, setImpl := .viaMeta 131,
  hooks := false }
/-- ColumnTransformer  (sktime/transformations/panel/compose.py:32) -/
def c232 : ClassEntry Nat := {
  name := 232, external := false,
  mro := [232, 233, 226, 66, 18, 19],
  init := some {
    params := [(234, false), (128, true), (235, true), (55, true), (236, true), (237, true)],
    varargs := false,
    body := [.superCall none [] [(234, (.param 234)), (128, (.param 128)), (235, (.param 235)), (55, (.param 55)), (236, (.param 236))] false false,
      .assign 237 (.param 237) false,
      .assign 11 (.lit false) false] },
  methods := [{ name := 239, isProp := false, events := [.use 238, .ret true false, .use 237, .ret true false, .ret false false] },
    { name := 240, isProp := false, events := [.callSelf 129, .raise true false] },
    { name := 7, isProp := false, events := [.callSuper 7, .write 11, .ret false true] },
    { name := 202, isProp := false, events := [.callSuper 202, .write 11, .ret false false] },
    { name := 2, isProp := false, events := [.callSelf 10, .callSuper 2, .ret false false] }],
  classAttrs := [231],
  getImpl := .inherit, setImpl := .inherit,
  hooks := false }
/-- ComposableTimeSeriesForestClassifier  (sktime/classification/compose/_ensemble.py:30) -/
def c241 : ClassEntry Nat := {
  name := 241, external := false,
  mro := [241, 176, 177, 100, 18, 19],
  init := some {
    params := [(159, true), (109, true), (242, true), (243, true), (244, true), (245, true), (246, true), (247, true), (248, true), (249, true), (250, true), (180, true), (181, true), (55, true), (61, true), (127, true), (182, true), (183, true), (184, true)],
    varargs := false,
    body := [.assign 159 (.param 159) false,
      .assign 242 (.param 242) false,
      .assign 243 (.param 243) false,
      .assign 244 (.param 244) false,
      .assign 245 (.param 245) false,
      .assign 246 (.param 246) false,
      .assign 247 (.param 247) false,
      .assign 248 (.param 248) false,
      .assign 249 (.param 249) false,
      .assign 250 (.param 250) false,
      .assign 184 (.param 184) false,
      .superCall none [] [(178, (.const 38)), (109, (.param 109)), (179, (.const 39)), (180, (.param 180)), (181, (.param 181)), (55, (.param 55)), (61, (.param 61)), (127, (.param 127)), (182, (.param 182)), (183, (.param 183)), (184, (.param 184))] false false,
      .assign 11 (.lit false) false] },
  methods := [{ name := 196, isProp := false, events := [.use 197, .use 193, .use 184, .use 132, .use 193, .use 193, .use 193, .use 193, .write 251, .write 251, .use 193, .write 252] },
    { name := 195, isProp := false, events := [.use 109, .use 109, .raise true true, .use 109, .use 109, .raise true true, .use 159, .use 61, .use 61, .write 185, .use 159, .raise true true, .use 159, .raise true true, .use 159, .write 185, .use 242, .use 243, .use 244, .use 245, .use 246, .use 247, .use 248, .use 249, .use 250, .use 185, .write 179, .use 179, .callSelf 253] },
    { name := 194, isProp := false, events := [.use 183, .write 107, .write 197, .use 193, .use 107, .use 197, .use 183, .use 183, .use 183, .use 183, .raise true true, .use 182, .use 183, .use 180, .use 183, .use 183, .ret false false] },
    { name := 0, isProp := false, events := [.callSelf 1, .use 193, .use 107, .ret true false, .use 107, .use 193, .use 193, .use 107, .ret true false] },
    { name := 254, isProp := false, events := [.callSelf 1, .use 193, .ret true false, .use 193, .ret true false] },
    { name := 1, isProp := false, events := [.callSelf 10, .callSelf 188, .use 109, .use 55, .use 127, .use 132, .use 132, .ret false false] }],
  classAttrs := [],
  getImpl := .inherit, setImpl := .inherit,
  hooks := false }
/-- ComposableTimeSeriesForestRegressor  (sktime/regression/compose/_ensemble.py:26) -/
def c255 : ClassEntry Nat := {
  name := 255, external := false,
  mro := [255, 176, 177, 157, 18, 19],
  init := some {
    params := [(159, true), (109, true), (242, true), (243, true), (244, true), (245, true), (246, true), (247, true), (248, true), (249, true), (250, true), (180, true), (181, true), (55, true), (61, true), (127, true), (182, true), (184, true)],
    varargs := false,
    body := [.assign 159 (.param 159) false,
      .assign 242 (.param 242) false,
      .assign 243 (.param 243) false,
      .assign 244 (.param 244) false,
      .assign 245 (.param 245) false,
      .assign 246 (.param 246) false,
      .assign 247 (.param 247) false,
      .assign 248 (.param 248) false,
      .assign 249 (.param 249) false,
      .assign 250 (.param 250) false,
      .assign 184 (.param 184) false,
      .superCall none [] [(178, (.const 40)), (109, (.param 109)), (179, (.const 41)), (180, (.param 180)), (181, (.param 181)), (55, (.param 55)), (61, (.param 61)), (127, (.param 127)), (182, (.param 182)), (184, (.param 184))] false false,
      .assign 11 (.lit false) false] },
  methods := [{ name := 196, isProp := false, events := [.use 193, .use 193, .use 184, .use 132, .use 193, .write 256, .use 193, .use 256, .write 256, .write 252, .use 193, .use 252, .write 252, .use 252, .use 193, .write 252] },
    { name := 195, isProp := false, events := [.use 109, .use 109, .raise true true, .use 109, .use 109, .raise true true, .use 159, .use 61, .use 61, .write 185, .use 159, .raise true true, .use 159, .raise true true, .use 159, .write 185, .use 242, .use 243, .use 244, .use 245, .use 246, .use 247, .use 248, .use 249, .use 250, .use 185, .write 179, .use 179, .callSelf 253] },
    { name := 194, isProp := false, events := [.ret false false] },
    { name := 0, isProp := false, events := [.callSelf 10, .callSelf 188, .use 109, .use 55, .use 127, .use 132, .use 132, .ret false false] }],
  classAttrs := [],
  getImpl := .inherit, setImpl := .inherit,
  hooks := false }
/-- ConditionalDeseasonalizer  (sktime/transformations/series/detrend/_deseasonalize.py:172) -/
def c257 : ClassEntry Nat := {
  name := 257, external := false,
  mro := [257, 258, 65, 66, 18, 19],
  init := some {
    params := [(259, true), (47, true), (260, true)],
    varargs := false,
    body := [.assign 259 (.param 259) false,
      .assign 261 (.const 42) false,
      .superCall none [] [(47, (.param 47)), (260, (.param 260))] false false] },
  methods := [{ name := 263, isProp := false, events := [.use 262, .use 262, .raise true true, .use 47, .callSelf 262, .raise true false, .ret false false] },
    { name := 7, isProp := false, events := [.callSelf 264, .use 47, .use 259, .write 262, .use 259, .write 262, .callSelf 263, .write 261, .use 261, .use 260, .write 265, .use 260, .use 47, .use 47, .write 265, .write 11, .ret false true] }],
  classAttrs := [],
  getImpl := .inherit, setImpl := .inherit,
  hooks := false }
/-- ContractableBOSS  (sktime/classification/dictionary_based/_cboss.py:23) -/
def c266 : ClassEntry Nat := {
  name := 266, external := false,
  mro := [266, 100, 18, 19],
  init := some {
    params := [(267, true), (102, true), (103, true), (268, true), (104, true), (55, true), (61, true)],
    varargs := false,
    body := [.assign 267 (.param 267) false,
      .assign 102 (.param 102) false,
      .assign 103 (.param 103) false,
      .assign 268 (.param 268) false,
      .assign 55 (.param 55) false,
      .assign 61 (.param 61) false,
      .assign 105 (.const 43) false,
      .assign 269 (.const 44) false,
      .assign 270 (.const 45) false,
      .assign 106 (.const 46) false,
      .assign 107 (.const 47) false,
      .assign 108 (.const 48) false,
      .assign 109 (.const 49) false,
      .assign 110 (.const 50) false,
      .assign 111 (.const 51) false,
      .assign 112 (.const 52) false,
      .assign 113 (.const 53) false,
      .assign 104 (.param 104) false,
      .assign 114 (.const 54) false,
      .superCall none [] [] false false] },
  methods := [{ name := 115, isProp := false, events := [.use 106, .use 106, .use 105, .use 55, .use 105, .use 269, .use 108, .use 269, .use 106, .use 106, .use 106, .ret false false] },
    { name := 117, isProp := false, events := [.use 55, .use 55, .ret true false, .ret true false, .ret false false] },
    { name := 271, isProp := false, events := [.use 113, .use 104, .use 112, .ret false false] },
    { name := 118, isProp := false, events := [.use 105, .ret false false] },
    { name := 7, isProp := false, events := [.use 268, .write 268, .write 111, .write 110, .write 106, .write 107, .use 107, .use 108, .write 108, .write 105, .write 269, .use 110, .use 110, .use 103, .use 104, .use 104, .use 104, .use 272, .use 110, .raise true true, .callSelf 271, .use 111, .use 61, .use 268, .write 267, .use 268, .use 267, .use 111, .use 114, .use 61, .callSelf 117, .use 102, .use 269, .use 105, .use 269, .write 269, .use 105, .write 105, .callSelf 118, .use 105, .write 109, .use 269, .write 270, .write 11, .ret false true] },
    { name := 0, isProp := false, events := [.use 61, .callSelf 1, .use 107, .ret false false] },
    { name := 1, isProp := false, events := [.callSelf 10, .use 106, .use 105, .use 269, .use 108, .use 106, .use 270, .ret false false] }],
  classAttrs := [119],
  getImpl := .inherit, setImpl := .inherit,
  hooks := false }
/-- ContractedShapeletTransform  (sktime/transformations/panel/shapelets.py:942) -/
def c273 : ClassEntry Nat := {
  name := 273, external := false,
  mro := [273, 274, 219, 66, 18, 19],
  init := some {
    params := [(275, true), (276, true), (277, true), (278, true), (279, true), (61, true), (127, true), (280, true)],
    varargs := false,
    body := [.assign 279 (.param 279) false,
      .assign 278 (.param 278) false,
      .assign 281 (.const 55) false,
      .assign 282 (.const 56) false,
      .superCall none [(.param 275), (.param 276), (.param 277), (.param 61), (.param 127), (.param 280)] [] false false] },
  methods := [],
  classAttrs := [],
  getImpl := .inherit, setImpl := .inherit,
  hooks := false }
/-- CosineTransformer  (sktime/transformations/series/cos.py:11) -/
def c283 : ClassEntry Nat := {
  name := 283, external := false,
  mro := [283, 65, 66, 18, 19],
  init := none,
  methods := [{ name := 2, isProp := false, events := [.callSelf 10, .ret false false] }],
  classAttrs := [72],
  getImpl := .inherit, setImpl := .inherit,
  hooks := false }
/-- DWTTransformer  (sktime/transformations/panel/dwt.py:12) -/
def c284 : ClassEntry Nat := {
  name := 284, external := false,
  mro := [284, 226, 66, 18, 19],
  init := some {
    params := [(285, true)],
    varargs := false,
    body := [.assign 285 (.param 285) false,
      .superCall none [] [] false false] },
  methods := [{ name := 286, isProp := false, events := [.use 285, .use 285, .raise true true, .use 285, .raise true true] },
    { name := 289, isProp := false, events := [.use 285, .callSelf 287, .callSelf 288, .ret false false] },
    { name := 287, isProp := false, events := [.ret true false, .ret false false] },
    { name := 288, isProp := false, events := [.ret true false, .ret false false] },
    { name := 2, isProp := false, events := [.callSelf 10, .callSelf 286, .callSelf 289, .ret false false] }],
  classAttrs := [],
  getImpl := .inherit, setImpl := .inherit,
  hooks := false }
/-- DerivativeSlopeTransformer  (sktime/transformations/panel/summarize/_extract.py:101) -/
def c290 : ClassEntry Nat := {
  name := 290, external := false,
  mro := [290, 226, 66, 18, 19],
  init := none,
  methods := [{ name := 291, isProp := false, events := [.ret true false, .ret false false] },
    { name := 2, isProp := false, events := [.callSelf 10, .callSelf 291, .ret false false] }],
  classAttrs := [],
  getImpl := .inherit, setImpl := .inherit,
  hooks := false }
/-- Deseasonalizer  (sktime/transformations/series/detrend/_deseasonalize.py:24) -/
def c258 : ClassEntry Nat := {
  name := 258, external := false,
  mro := [258, 65, 66, 18, 19],
  init := some {
    params := [(47, true), (260, true)],
    varargs := false,
    body := [.assign 47 (.derived 57) false,
      .raiseIf,
      .assign 260 (.param 260) false,
      .assign 292 (.const 58) false,
      .assign 265 (.const 59) false,
      .superCall none [] [] false false] },
  methods := [{ name := 293, isProp := false, events := [.use 292, .use 292, .use 47, .use 265, .ret false false] },
    { name := 294, isProp := false, events := [.use 260, .ret true false, .ret true false] },
    { name := 264, isProp := false, events := [.write 292] },
    { name := 295, isProp := false, events := [.use 260, .ret true false, .ret true false] },
    { name := 7, isProp := false, events := [.callSelf 264, .use 47, .use 260, .write 265, .write 11, .ret false true] },
    { name := 3, isProp := false, events := [.callSelf 10, .callSelf 293, .callSelf 294, .ret false false] },
    { name := 2, isProp := false, events := [.callSelf 10, .callSelf 293, .callSelf 295, .ret false false] },
    { name := 4, isProp := false, events := [.callSelf 10, .callSelf 264, .ret false true] }],
  classAttrs := [72],
  getImpl := .inherit, setImpl := .inherit,
  hooks := false }
/-- Detrender  (sktime/transformations/series/detrend/_detrend.py:16) -/
def c296 : ClassEntry Nat := {
  name := 296, external := false,
  mro := [296, 65, 66, 18, 19],
  init := some {
    params := [(145, true)],
    varargs := false,
    body := [.assign 145 (.param 145) false,
      .assign 297 (.const 60) false,
      .superCall none [] [] false false] },
  methods := [{ name := 7, isProp := false, events := [.use 145, .write 145, .use 145, .write 297, .write 11, .ret false true] },
    { name := 3, isProp := false, events := [.callSelf 10, .use 297, .ret false false] },
    { name := 2, isProp := false, events := [.callSelf 10, .use 297, .ret false false] },
    { name := 4, isProp := false, events := [.use 297, .ret false true] }],
  classAttrs := [231, 72],
  getImpl := .inherit, setImpl := .inherit,
  hooks := false }
/-- DirRecTabularRegressionForecaster  (sktime/forecasting/compose/_reduce.py:614) -/
def c298 : ClassEntry Nat := {
  name := 298, external := false,
  mro := [298, 299, 300, 301, 302, 16, 17, 18, 19],
  init := none,
  methods := [],
  classAttrs := [303],
  getImpl := .inherit, setImpl := .inherit,
  hooks := false }
/-- DirRecTimeSeriesRegressionForecaster  (sktime/forecasting/compose/_reduce.py:697) -/
def c304 : ClassEntry Nat := {
  name := 304, external := false,
  mro := [304, 299, 300, 301, 302, 16, 17, 18, 19],
  init := none,
  methods := [],
  classAttrs := [303],
  getImpl := .inherit, setImpl := .inherit,
  hooks := false }
/-- DirectTabularRegressionForecaster  (sktime/forecasting/compose/_reduce.py:554) -/
def c305 : ClassEntry Nat := {
  name := 305, external := false,
  mro := [305, 306, 300, 301, 302, 16, 17, 18, 19],
  init := none,
  methods := [],
  classAttrs := [303],
  getImpl := .inherit, setImpl := .inherit,
  hooks := false }
/-- DirectTimeSeriesRegressionForecaster  (sktime/forecasting/compose/_reduce.py:637) -/
def c307 : ClassEntry Nat := {
  name := 307, external := false,
  mro := [307, 306, 300, 301, 302, 16, 17, 18, 19],
  init := none,
  methods := [],
  classAttrs := [303],
  getImpl := .inherit, setImpl := .inherit,
  hooks := false }
/-- DrCIF  (sktime/classification/interval_based/_drcif.py:29) -/
def c308 : ClassEntry Nat := {
  name := 308, external := false,
  mro := [308, 206, 100, 18, 19],
  init := some {
    params := [(199, true), (207, true), (109, true), (200, true), (208, true), (55, true), (61, true)],
    varargs := false,
    body := [.superCall none [] [(178, (.const 61)), (109, (.param 109))] false false,
      .assign 109 (.param 109) false,
      .assign 200 (.param 200) false,
      .assign 199 (.param 199) false,
      .assign 207 (.param 207) false,
      .assign 208 (.param 208) false,
      .assign 61 (.param 61) false,
      .assign 55 (.param 55) false,
      .assign 106 (.const 62) false,
      .assign 111 (.const 63) false,
      .assign 209 (.const 64) false,
      .assign 110 (.const 65) false,
      .assign 210 (.param 200) false,
      .assign 211 (.param 207) false,
      .assign 309 (.const 66) false,
      .assign 105 (.const 67) false,
      .assign 212 (.const 68) false,
      .assign 213 (.const 69) false,
      .assign 214 (.const 70) false,
      .assign 107 (.const 71) false,
      .assign 11 (.lit false) false] },
  methods := [{ name := 310, isProp := false, events := [.ret true false, .ret true false, .ret true false, .ret true false, .ret true false, .ret true false, .ret true false, .ret true false] },
    { name := 216, isProp := false, events := [.use 61, .use 61, .use 61, .use 208, .use 309, .use 111, .use 208, .use 209, .use 309, .use 309, .use 210, .use 210, .use 199, .use 211, .use 199, .use 199, .use 199, .use 199, .use 211, .use 199, .use 199, .use 199, .use 199, .use 208, .callSelf 310, .use 178, .ret false false] },
    { name := 217, isProp := false, events := [.use 208, .use 309, .use 210, .use 210, .use 208, .callSelf 310, .ret false false] },
    { name := 7, isProp := false, events := [.write 111, .write 209, .write 110, .write 106, .write 107, .use 200, .use 110, .use 209, .write 210, .use 210, .write 210, .use 110, .use 199, .use 110, .write 199, .use 207, .use 110, .write 211, .use 211, .use 199, .use 199, .write 211, .use 210, .use 210, .write 309, .use 55, .use 109, .use 216, .write 105, .write 213, .write 214, .write 212, .write 11, .ret false true] },
    { name := 0, isProp := false, events := [.use 61, .callSelf 1, .use 107, .ret false false] },
    { name := 1, isProp := false, events := [.callSelf 10, .use 110, .raise true true, .use 55, .use 109, .use 217, .use 105, .use 213, .use 214, .use 212, .use 106, .use 109, .ret false false] }],
  classAttrs := [119],
  getImpl := .inherit, setImpl := .inherit,
  hooks := false }
/-- ElasticEnsemble  (sktime/classification/distance_based/_elastic_ensemble.py:39) -/
def c311 : ClassEntry Nat := {
  name := 311, external := false,
  mro := [311, 100, 18, 19],
  init := some {
    params := [(312, true), (313, true), (314, true), (315, true), (55, true), (61, true), (127, true)],
    varargs := false,
    body := [.assign 312 (.const 72) true,
      .assign 312 (.param 312) true,
      .assign 314 (.param 314) false,
      .assign 313 (.param 313) false,
      .assign 315 (.param 315) false,
      .assign 132 (.const 73) false,
      .assign 316 (.const 74) false,
      .assign 317 (.const 75) false,
      .assign 107 (.const 76) false,
      .assign 55 (.param 55) false,
      .assign 61 (.param 61) false,
      .assign 127 (.param 127) false,
      .assign 318 (.const 77) false,
      .assign 319 (.const 78) false,
      .superCall none [] [] false false] },
  methods := [{ name := 320, isProp := false, events := [.ret true false, .ret true false, .ret true false, .ret true false, .ret true false, .ret true false, .raise true false] },
    { name := 7, isProp := false, events := [.use 312, .use 312, .use 312, .write 316, .use 312, .write 317, .use 312, .write 132, .write 107, .use 61, .use 314, .use 127, .use 314, .use 127, .use 127, .write 319, .use 127, .use 313, .use 312, .use 312, .use 127, .use 312, .use 312, .use 312, .use 312, .use 313, .use 312, .use 55, .use 127, .use 312, .use 313, .use 55, .use 127, .use 127, .use 312, .use 319, .use 132, .write 132, .use 316, .write 316, .use 317, .write 317, .write 11, .ret false true] },
    { name := 321, isProp := false, events := [.use 132, .use 312, .use 132, .ret false false] },
    { name := 322, isProp := false, events := [.use 317, .use 107, .use 132, .use 107, .use 316, .use 317, .use 316, .ret false false] },
    { name := 0, isProp := false, events := [.callSelf 1, .use 107, .ret true false, .ret true false] },
    { name := 1, isProp := false, events := [.callSelf 10, .use 312, .use 312, .use 132, .use 312, .use 312, .use 316, .use 132, .ret false false] },
    { name := 323, isProp := false, events := [.use 132, .use 312, .use 61, .use 314, .use 132, .use 319, .use 313, .use 314, .use 316, .use 317] }],
  classAttrs := [119],
  getImpl := .inherit, setImpl := .inherit,
  hooks := false }
/-- EnsembleForecaster  (sktime/forecasting/compose/_ensemble.py:15) -/
def c324 : ClassEntry Nat := {
  name := 324, external := false,
  mro := [324, 15, 325, 16, 17, 125, 18, 19],
  init := some {
    params := [(326, false), (55, true), (327, true)],
    varargs := false,
    body := [.superCall none [] [(326, (.param 326)), (55, (.param 55))] false false,
      .assign 327 (.param 327) false] },
  methods := [{ name := 329, isProp := false, events := [.raise true false, .callSelf 328, .use 327, .raise true true, .use 327, .ret true false, .use 327, .ret true false, .use 327, .ret true false, .ret true false] },
    { name := 7, isProp := false, events := [.callSelf 330, .callSelf 331, .callSelf 332, .callSelf 333, .write 11, .ret false true] },
    { name := 4, isProp := false, events := [.callSelf 10, .callSelf 334, .use 335, .ret false true] }],
  classAttrs := [231],
  getImpl := .inherit, setImpl := .inherit,
  hooks := false }
/-- ExponentialSmoothing  (sktime/forecasting/exp_smoothing.py:10) -/
def c336 : ClassEntry Nat := {
  name := 336, external := false,
  mro := [336, 74, 15, 16, 17, 18, 19],
  init := some {
    params := [(29, true), (76, true), (48, true), (47, true), (78, true), (79, true), (80, true), (337, true), (77, true)],
    varargs := false,
    body := [.assign 29 (.param 29) false,
      .assign 76 (.param 76) false,
      .assign 48 (.param 48) false,
      .assign 47 (.param 47) false,
      .assign 337 (.param 337) false,
      .assign 78 (.param 78) false,
      .assign 79 (.param 79) false,
      .assign 80 (.param 80) false,
      .assign 77 (.param 77) false,
      .superCall none [] [] false false] },
  methods := [{ name := 94, isProp := false, events := [.use 29, .use 76, .use 48, .use 47, .use 337, .use 78, .use 79, .use 80, .use 77, .write 92, .use 92, .write 93] }],
  classAttrs := [338],
  getImpl := .inherit, setImpl := .inherit,
  hooks := false }
/-- FeatureUnion  (sktime/series_as_features/compose/_pipeline.py:17) -/
def c339 : ClassEntry Nat := {
  name := 339, external := false,
  mro := [339, 340, 226, 66, 18, 19],
  init := some {
    params := [(341, false), (55, true), (236, true), (237, true)],
    varargs := false,
    body := [.assign 237 (.param 237) false,
      .superCall none [(.param 341)] [(55, (.param 55)), (236, (.param 236))] false false,
      .assign 11 (.lit false) false] },
  methods := [{ name := 239, isProp := false, events := [.use 237, .ret true false, .ret true false] },
    { name := 7, isProp := false, events := [.callSuper 7, .write 11, .ret false true] },
    { name := 202, isProp := false, events := [.callSelf 342, .use 55, .callSelf 129, .ret true false, .callSelf 343, .callSelf 239, .write 11, .ret false false] },
    { name := 2, isProp := false, events := [.callSelf 10, .use 55, .callSelf 129, .ret true false, .callSelf 239, .ret true false] }],
  classAttrs := [231],
  getImpl := .inherit, setImpl := .inherit,
  hooks := false }
/-- FittedParamExtractor  (sktime/transformations/panel/summarize/_extract.py:293) -/
def c344 : ClassEntry Nat := {
  name := 344, external := false,
  mro := [344, 219, 66, 18, 19],
  init := some {
    params := [(145, false), (345, false), (55, true)],
    varargs := false,
    body := [.assign 145 (.param 145) false,
      .assign 345 (.param 345) false,
      .assign 55 (.param 55) false,
      .superCall none [] [] false false] },
  methods := [{ name := 346, isProp := false, events := [.raise true false, .raise true false, .ret false false] },
    { name := 2, isProp := false, events := [.callSelf 10, .use 345, .callSelf 346, .ret true false, .ret true false, .ret true false, .use 55, .use 145, .ret false false] }],
  classAttrs := [231, 72],
  getImpl := .inherit, setImpl := .inherit,
  hooks := false }
/-- ForecastingGridSearchCV  (sktime/forecasting/model_selection/_tune.py:317) -/
def c347 : ClassEntry Nat := {
  name := 347, external := false,
  mro := [347, 144, 17, 18, 19],
  init := some {
    params := [(145, false), (146, false), (348, false), (27, true), (147, true), (55, true), (149, true), (127, true), (148, true)],
    varargs := false,
    body := [.superCall none [] [(145, (.param 145)), (27, (.param 27)), (55, (.param 55)), (149, (.param 149)), (146, (.param 146)), (147, (.param 147)), (127, (.param 127)), (148, (.param 148))] false false,
      .assign 348 (.param 348) false] },
  methods := [{ name := 150, isProp := false, events := [.use 348, .use 348, .ret false false] }],
  classAttrs := [231],
  getImpl := .inherit, setImpl := .inherit,
  hooks := false }
/-- ForecastingRandomizedSearchCV  (sktime/forecasting/model_selection/_tune.py:429) -/
def c349 : ClassEntry Nat := {
  name := 349, external := false,
  mro := [349, 144, 17, 18, 19],
  init := some {
    params := [(145, false), (146, false), (350, false), (351, true), (27, true), (147, true), (55, true), (149, true), (127, true), (61, true), (148, true)],
    varargs := false,
    body := [.superCall none [] [(145, (.param 145)), (27, (.param 27)), (147, (.param 147)), (55, (.param 55)), (149, (.param 149)), (146, (.param 146)), (127, (.param 127)), (148, (.param 148))] false false,
      .assign 350 (.param 350) false,
      .assign 351 (.param 351) false,
      .assign 61 (.param 61) false] },
  methods := [{ name := 150, isProp := false, events := [.use 350, .use 351, .use 61, .ret false false] }],
  classAttrs := [231],
  getImpl := .inherit, setImpl := .inherit,
  hooks := false }
/-- GeometricMeanRelativeAbsoluteError  (sktime/performance_metrics/forecasting/_classes.py:1086) -/
def c352 : ClassEntry Nat := {
  name := 352, external := false,
  mro := [352, 353, 19],
  init := some {
    params := [],
    varargs := false,
    body := [.superCall none [] [(354, (.const 79)), (160, (.const 80)), (355, (.lit false))] false false] },
  methods := [],
  classAttrs := [],
  getImpl := .inherit, setImpl := .inherit,
  hooks := false }
/-- GeometricMeanRelativeSquaredError  (sktime/performance_metrics/forecasting/_classes.py:1119) -/
def c356 : ClassEntry Nat := {
  name := 356, external := false,
  mro := [356, 357, 358, 353, 19],
  init := some {
    params := [(359, true)],
    varargs := false,
    body := [.superCall none [] [(354, (.const 81)), (160, (.const 82)), (355, (.lit false)), (359, (.param 359))] false false] },
  methods := [],
  classAttrs := [],
  getImpl := .inherit, setImpl := .inherit,
  hooks := false }
/-- HCrystalBallForecaster  (sktime/forecasting/hcrystalball.py:97) -/
def c360 : ClassEntry Nat := {
  name := 360, external := false,
  mro := [360, 15, 16, 17, 18, 19],
  init := some {
    params := [(260, false)],
    varargs := false,
    body := [.assign 260 (.param 260) false,
      .superCall none [] [] false false] },
  methods := [{ name := 361, isProp := false, events := [.raise false false] },
    { name := 329, isProp := false, events := [.raise true false, .use 152, .use 152, .use 362, .ret false false] },
    { name := 7, isProp := false, events := [.callSelf 330, .callSelf 331, .use 363, .use 152, .use 260, .write 362, .use 362, .write 11, .ret false true] },
    { name := 142, isProp := false, events := [.raise false false] }],
  classAttrs := [],
  getImpl := .inherit, setImpl := .inherit,
  hooks := false }
/-- HIVECOTEV1  (sktime/classification/hybrid/_hivecote_v1.py:26) -/
def c364 : ClassEntry Nat := {
  name := 364, external := false,
  mro := [364, 100, 18, 19],
  init := some {
    params := [(365, true), (366, true), (367, true), (368, true), (127, true), (55, true), (61, true)],
    varargs := false,
    body := [.assign 365 (.derived 83) false,
      .assign 366 (.derived 84) false,
      .assign 367 (.derived 85) false,
      .assign 368 (.derived 86) false,
      .assign 127 (.param 127) false,
      .assign 55 (.param 55) false,
      .assign 61 (.param 61) false,
      .assign 369 (.const 87) false,
      .assign 370 (.const 88) false,
      .assign 371 (.const 89) false,
      .assign 372 (.const 90) false,
      .assign 373 (.const 91) false,
      .assign 374 (.const 92) false,
      .assign 375 (.const 93) false,
      .assign 376 (.const 94) false,
      .assign 106 (.const 95) false,
      .assign 107 (.const 96) false,
      .superCall none [] [] false false] },
  methods := [{ name := 7, isProp := false, events := [.write 106, .write 107, .use 365, .write 369, .use 369, .use 127, .use 365, .use 61, .use 55, .write 373, .use 127, .use 373, .use 366, .use 61, .use 55, .write 370, .use 370, .use 127, .use 366, .use 61, .use 55, .write 374, .use 127, .use 374, .use 367, .use 61, .use 55, .write 371, .use 371, .use 127, .use 367, .use 61, .use 55, .write 375, .use 127, .use 375, .use 368, .use 61, .use 55, .write 372, .use 372, .use 372, .use 372, .write 376, .use 127, .use 376, .write 11, .ret false true] },
    { name := 0, isProp := false, events := [.use 61, .callSelf 1, .use 107, .ret false false] },
    { name := 1, isProp := false, events := [.callSelf 10, .use 106, .use 369, .use 106, .use 373, .use 370, .use 106, .use 374, .use 371, .use 106, .use 375, .use 372, .use 106, .use 376, .ret false false] }],
  classAttrs := [119],
  getImpl := .inherit, setImpl := .inherit,
  hooks := false }
/-- HOG1DTransformer  (sktime/transformations/panel/hog1d.py:26) -/
def c377 : ClassEntry Nat := {
  name := 377, external := false,
  mro := [377, 226, 66, 18, 19],
  init := some {
    params := [(378, true), (379, true), (380, true)],
    varargs := false,
    body := [.assign 378 (.param 378) false,
      .assign 379 (.param 379) false,
      .assign 380 (.param 380) false,
      .superCall none [] [] false false] },
  methods := [{ name := 383, isProp := false, events := [.callSelf 381, .callSelf 382, .ret false false] },
    { name := 286, isProp := false, events := [.use 378, .use 378, .raise true true, .use 378, .raise true true, .use 378, .raise true true, .use 379, .use 379, .raise true true, .use 379, .raise true true, .use 380, .use 380, .raise true true] },
    { name := 382, isProp := false, events := [.use 379, .use 380, .use 379, .use 379, .use 379, .ret false false] },
    { name := 381, isProp := false, events := [.use 378, .ret false false] },
    { name := 2, isProp := false, events := [.callSelf 10, .callSelf 286, .callSelf 383, .ret false false] }],
  classAttrs := [],
  getImpl := .inherit, setImpl := .inherit,
  hooks := false }
/-- HampelFilter  (sktime/transformations/series/outlier_detection.py:16) -/
def c384 : ClassEntry Nat := {
  name := 384, external := false,
  mro := [384, 65, 66, 18, 19],
  init := some {
    params := [(385, true), (386, true), (387, true), (388, true)],
    varargs := false,
    body := [.assign 385 (.param 385) false,
      .assign 386 (.param 386) false,
      .assign 387 (.param 387) false,
      .assign 388 (.param 388) false,
      .superCall none [] [] false false] },
  methods := [{ name := 389, isProp := false, events := [.use 385, .use 385, .use 386, .use 387, .use 388, .ret false false] },
    { name := 2, isProp := false, events := [.callSelf 10, .callSelf 389, .callSelf 389, .ret false false] }],
  classAttrs := [72],
  getImpl := .inherit, setImpl := .inherit,
  hooks := false }
/-- Imputer  (sktime/transformations/series/impute.py:16) -/
def c390 : ClassEntry Nat := {
  name := 390, external := false,
  mro := [390, 65, 66, 18, 19],
  init := some {
    params := [(23, true), (61, true), (391, true), (145, true), (392, true)],
    varargs := false,
    body := [.assign 23 (.param 23) false,
      .assign 392 (.param 392) false,
      .assign 391 (.param 391) false,
      .assign 145 (.param 145) false,
      .assign 61 (.param 61) false,
      .superCall none [] [] false false] },
  methods := [{ name := 393, isProp := false, events := [.use 391, .use 23, .use 23, .use 391, .raise true true, .use 145, .use 23, .use 23, .use 145, .raise true true] },
    { name := 394, isProp := false, events := [.use 61, .ret true false, .ret true false] },
    { name := 2, isProp := false, events := [.callSelf 10, .callSelf 393, .use 392, .use 392, .use 23, .callSelf 394, .callSelf 394, .use 23, .use 391, .use 23, .use 23, .use 23, .use 23, .use 145, .use 23, .use 23, .use 23, .use 23, .use 23, .raise true true, .ret false false] }],
  classAttrs := [72],
  getImpl := .inherit, setImpl := .inherit,
  hooks := false }
/-- IndividualBOSS  (sktime/classification/dictionary_based/_boss.py:328) -/
def c395 : ClassEntry Nat := {
  name := 395, external := false,
  mro := [395, 100, 18, 19],
  init := some {
    params := [(396, true), (397, true), (398, true), (114, true), (399, true), (55, true), (61, true)],
    varargs := false,
    body := [.assign 396 (.param 396) false,
      .assign 397 (.param 397) false,
      .assign 398 (.param 398) false,
      .assign 114 (.param 114) false,
      .assign 399 (.param 399) false,
      .assign 55 (.param 55) false,
      .assign 61 (.param 61) false,
      .assign 400 (.derived 97) false,
      .assign 401 (.const 98) false,
      .assign 402 (.const 99) false,
      .assign 403 (.const 100) false,
      .assign 404 (.const 101) false,
      .assign 405 (.const 102) false,
      .assign 107 (.const 103) false,
      .assign 108 (.const 104) false,
      .superCall none [] [] false false] },
  methods := [{ name := 406, isProp := false, events := [.use 400, .write 400, .use 400, .write 400] },
    { name := 407, isProp := false, events := [.write 397, .use 400, .write 400] },
    { name := 408, isProp := false, events := [.use 396, .use 398, .use 114, .use 399, .use 61, .use 400, .use 400, .use 404, .use 405, .use 107, .use 108, .ret false false] },
    { name := 409, isProp := false, events := [.use 61, .use 401, .use 404, .ret false false] },
    { name := 410, isProp := false, events := [.use 401, .use 401, .use 404, .ret false false] },
    { name := 7, isProp := false, events := [.use 400, .write 401, .write 404, .write 405, .write 107, .use 107, .use 108, .write 108, .write 11, .ret false true] },
    { name := 0, isProp := false, events := [.callSelf 10, .use 400, .use 55, .use 409, .ret false false] },
    { name := 1, isProp := false, events := [.callSelf 0, .use 405, .use 108, .ret false false] }],
  classAttrs := [],
  getImpl := .inherit, setImpl := .inherit,
  hooks := false }
/-- IndividualTDE  (sktime/classification/dictionary_based/_tde.py:404) -/
def c411 : ClassEntry Nat := {
  name := 411, external := false,
  mro := [411, 100, 18, 19],
  init := some {
    params := [(396, true), (397, true), (398, true), (412, true), (413, true), (114, true), (414, true), (415, true), (416, true), (55, true), (61, true)],
    varargs := false,
    body := [.assign 396 (.param 396) false,
      .assign 397 (.param 397) false,
      .assign 398 (.param 398) false,
      .assign 412 (.param 412) false,
      .assign 413 (.param 413) false,
      .assign 114 (.param 114) false,
      .assign 414 (.param 414) false,
      .assign 415 (.param 415) false,
      .assign 416 (.param 416) false,
      .assign 55 (.param 55) false,
      .assign 61 (.param 61) false,
      .assign 234 (.const 105) false,
      .assign 401 (.const 106) false,
      .assign 402 (.const 107) false,
      .assign 403 (.const 108) false,
      .assign 111 (.const 109) false,
      .assign 209 (.const 110) false,
      .assign 110 (.const 111) false,
      .assign 417 (.const 112) false,
      .assign 214 (.const 113) false,
      .assign 404 (.const 114) false,
      .assign 405 (.const 115) false,
      .assign 107 (.const 116) false,
      .assign 108 (.const 117) false,
      .superCall none [] [] false false] },
  methods := [{ name := 418, isProp := false, events := [.use 209, .write 417, .use 209, .use 214, .use 397, .use 114, .use 396, .use 398, .use 412, .use 413, .use 414, .use 55, .use 111, .use 110, .use 111, .callSelf 410, .use 209, .use 415, .use 416, .use 61, .use 416, .ret false false] },
    { name := 409, isProp := false, events := [.use 61, .use 401, .use 404, .ret false false] },
    { name := 410, isProp := false, events := [.use 401, .use 404, .ret false false] },
    { name := 7, isProp := false, events := [.write 111, .write 209, .write 110, .write 404, .write 405, .write 107, .use 107, .use 108, .write 108, .use 209, .callSelf 418, .write 214, .write 234, .use 111, .use 214, .use 111, .use 110, .use 234, .use 111, .use 417, .write 401, .use 234, .use 397, .use 114, .use 396, .use 398, .use 412, .use 413, .use 414, .use 55, .use 234, .write 401, .write 11, .ret false true] },
    { name := 0, isProp := false, events := [.callSelf 10, .use 209, .use 214, .use 110, .use 234, .use 417, .use 234, .use 55, .use 409, .ret false false] },
    { name := 1, isProp := false, events := [.callSelf 0, .use 405, .use 108, .ret false false] }],
  classAttrs := [],
  getImpl := .inherit, setImpl := .inherit,
  hooks := false }
/-- IntervalSegmenter  (sktime/transformations/panel/segment.py:16) -/
def c419 : ClassEntry Nat := {
  name := 419, external := false,
  mro := [419, 226, 66, 18, 19],
  init := some {
    params := [(213, true)],
    varargs := false,
    body := [.assign 213 (.param 213) false,
      .assign 420 (.const 118) false,
      .assign 421 (.const 119) false,
      .superCall none [] [] false false] },
  methods := [{ name := 7, isProp := false, events := [.write 421, .write 420, .use 213, .use 213, .write 201, .use 213, .use 213, .raise true true, .use 420, .use 213, .write 201, .use 213, .raise true true, .write 11, .ret false true] },
    { name := 2, isProp := false, events := [.callSelf 10, .use 201, .ret false false] }],
  classAttrs := [72],
  getImpl := .inherit, setImpl := .inherit,
  hooks := false }
/-- KNeighborsTimeSeriesClassifier  (sktime/classification/distance_based/_time_series_neighbors.py:63) -/
def c422 : ClassEntry Nat := {
  name := 422, external := false,
  mro := [422, 423, 100, 18, 19],
  init := some {
    params := [(424, true), (269, true), (425, true), (426, true)],
    varargs := true,
    body := [.assign 427 (.lit false) false,
      .assign 425 (.param 425) false,
      .assign 426 (.param 426) false,
      .pure,
      .assign 427 (.lit true) true,
      .assign 428 (.const 120) true,
      .raiseIf,
      .superCall none [] [(424, (.param 424)), (429, (.const 121)), (430, (.derived 122)), (431, (.param 426))] true false,
      .assign 269 (.derived 123) false,
      .assign 11 (.lit false) false] },
  methods := [{ name := 432, isProp := false, events := [.ret false false] },
    { name := 7, isProp := false, events := [.use 119, .use 427, .use 430, .use 428, .write 426, .write 433, .write 433, .write 107, .write 434, .use 434, .use 434, .write 434, .use 107, .use 433, .use 107, .write 107, .use 434, .write 434, .callSelf 8, .write 11, .ret false false] },
    { name := 440, isProp := false, events := [.callSelf 10, .use 119, .use 424, .raise true false, .raise true false, .use 435, .use 435, .raise true false, .use 55, .use 436, .use 437, .use 438, .use 439, .use 435, .use 438, .raise true true, .ret true false, .ret true false, .ret true false] },
    { name := 0, isProp := false, events := [.callSelf 10, .callSelf 440, .use 107, .use 434, .use 433, .use 434, .use 107, .use 269, .use 433, .ret false false] },
    { name := 1, isProp := false, events := [.callSelf 10, .callSelf 440, .use 107, .use 434, .use 433, .use 434, .use 107, .use 269, .use 433, .ret false false] }],
  classAttrs := [119],
  getImpl := .inherit, setImpl := .inherit,
  hooks := false }
/-- LogTransformer  (sktime/transformations/series/boxcox.py:62) -/
def c441 : ClassEntry Nat := {
  name := 441, external := false,
  mro := [441, 65, 66, 18, 19],
  init := none,
  methods := [{ name := 3, isProp := false, events := [.callSelf 10, .ret false false] },
    { name := 2, isProp := false, events := [.callSelf 10, .ret false false] }],
  classAttrs := [72],
  getImpl := .inherit, setImpl := .inherit,
  hooks := false }
/-- MUSE  (sktime/classification/dictionary_based/_muse.py:29) -/
def c442 : ClassEntry Nat := {
  name := 442, external := false,
  mro := [442, 100, 18, 19],
  init := some {
    params := [(443, true), (414, true), (444, true), (445, true), (446, true), (61, true)],
    varargs := false,
    body := [.assign 114 (.const 124) false,
      .assign 445 (.param 445) false,
      .assign 443 (.param 443) false,
      .assign 446 (.param 446) false,
      .assign 113 (.const 125) false,
      .assign 112 (.const 126) false,
      .assign 414 (.param 414) false,
      .assign 447 (.const 127) false,
      .assign 61 (.param 61) false,
      .assign 104 (.const 128) false,
      .assign 272 (.const 129) false,
      .assign 444 (.param 444) false,
      .assign 448 (.const 130) false,
      .assign 449 (.const 131) false,
      .assign 450 (.const 132) false,
      .assign 417 (.const 133) false,
      .assign 451 (.const 134) false,
      .assign 452 (.const 135) false,
      .assign 453 (.const 136) false,
      .assign 107 (.const 137) false,
      .superCall none [] [] false false] },
  methods := [{ name := 455, isProp := false, events := [.callSelf 10, .use 446, .callSelf 454, .use 450, .use 449, .use 452, .use 451, .use 417, .ret false false] },
    { name := 454, isProp := false, events := [.ret false false] },
    { name := 456, isProp := false, events := [.use 444, .ret false false] },
    { name := 7, isProp := false, events := [.write 107, .use 446, .callSelf 454, .write 450, .use 61, .use 450, .write 209, .use 209, .write 417, .use 209, .write 451, .use 209, .write 452, .use 450, .callSelf 456, .use 272, .write 272, .use 104, .use 272, .use 104, .use 272, .use 110, .raise true true, .use 449, .use 104, .use 272, .use 272, .use 451, .write 451, .use 449, .use 112, .use 114, .use 113, .use 443, .use 447, .use 414, .use 452, .use 445, .use 445, .use 451, .use 417, .use 61, .write 453, .use 453, .write 11, .ret false true] },
    { name := 0, isProp := false, events := [.callSelf 455, .use 453, .ret false false] },
    { name := 1, isProp := false, events := [.callSelf 455, .use 453, .ret false false] },
    { name := 457, isProp := false, events := [.ret false false] }],
  classAttrs := [119],
  getImpl := .inherit, setImpl := .inherit,
  hooks := false }
/-- MatrixProfile  (sktime/transformations/panel/matrix_profile.py:203) -/
def c458 : ClassEntry Nat := {
  name := 458, external := false,
  mro := [458, 219, 66, 18, 19],
  init := some {
    params := [(459, true)],
    varargs := false,
    body := [.assign 459 (.param 459) false,
      .superCall none [] [] false false] },
  methods := [{ name := 2, isProp := false, events := [.callSelf 10, .use 459, .ret false false] }],
  classAttrs := [72],
  getImpl := .inherit, setImpl := .inherit,
  hooks := false }
/-- MatrixProfileTransformer  (sktime/transformations/series/matrix_profile.py:18) -/
def c460 : ClassEntry Nat := {
  name := 460, external := false,
  mro := [460, 65, 66, 18, 19],
  init := some {
    params := [(385, true)],
    varargs := false,
    body := [.assign 385 (.param 385) false,
      .superCall none [] [] false false] },
  methods := [{ name := 2, isProp := false, events := [.callSelf 10, .use 385, .ret false false] }],
  classAttrs := [72],
  getImpl := .inherit, setImpl := .inherit,
  hooks := false }
/-- MeanAbsoluteError  (sktime/performance_metrics/forecasting/_classes.py:579) -/
def c461 : ClassEntry Nat := {
  name := 461, external := false,
  mro := [461, 353, 19],
  init := some {
    params := [],
    varargs := false,
    body := [.superCall none [] [(354, (.const 138)), (160, (.const 139)), (355, (.lit false))] false false] },
  methods := [],
  classAttrs := [],
  getImpl := .inherit, setImpl := .inherit,
  hooks := false }
/-- MeanAbsolutePercentageError  (sktime/performance_metrics/forecasting/_classes.py:770) -/
def c462 : ClassEntry Nat := {
  name := 462, external := false,
  mro := [462, 463, 464, 353, 19],
  init := some {
    params := [(465, true)],
    varargs := false,
    body := [.superCall none [] [(354, (.const 140)), (160, (.const 141)), (355, (.lit false)), (465, (.param 465))] false false] },
  methods := [],
  classAttrs := [],
  getImpl := .inherit, setImpl := .inherit,
  hooks := false }
/-- MeanAbsoluteScaledError  (sktime/performance_metrics/forecasting/_classes.py:316) -/
def c466 : ClassEntry Nat := {
  name := 466, external := false,
  mro := [466, 467, 353, 19],
  init := some {
    params := [(47, true)],
    varargs := false,
    body := [.superCall none [] [(354, (.const 142)), (160, (.const 143)), (355, (.lit false)), (47, (.param 47))] false false] },
  methods := [],
  classAttrs := [],
  getImpl := .inherit, setImpl := .inherit,
  hooks := false }
/-- MeanAsymmetricError  (sktime/performance_metrics/forecasting/_classes.py:1166) -/
def c468 : ClassEntry Nat := {
  name := 468, external := false,
  mro := [468, 469, 470, 353, 19],
  init := some {
    params := [(471, true), (472, true), (473, true)],
    varargs := false,
    body := [.superCall none [] [(354, (.const 144)), (160, (.const 145)), (355, (.lit false)), (471, (.param 471)), (472, (.param 472)), (473, (.param 473))] false false] },
  methods := [],
  classAttrs := [],
  getImpl := .inherit, setImpl := .inherit,
  hooks := false }
/-- MeanRelativeAbsoluteError  (sktime/performance_metrics/forecasting/_classes.py:1020) -/
def c474 : ClassEntry Nat := {
  name := 474, external := false,
  mro := [474, 353, 19],
  init := some {
    params := [],
    varargs := false,
    body := [.superCall none [] [(354, (.const 146)), (160, (.const 147)), (355, (.lit false))] false false] },
  methods := [],
  classAttrs := [],
  getImpl := .inherit, setImpl := .inherit,
  hooks := false }
/-- MeanSquaredError  (sktime/performance_metrics/forecasting/_classes.py:659) -/
def c475 : ClassEntry Nat := {
  name := 475, external := false,
  mro := [475, 357, 358, 353, 19],
  init := some {
    params := [(359, true)],
    varargs := false,
    body := [.superCall none [] [(354, (.const 148)), (160, (.const 149)), (355, (.lit false)), (359, (.param 359))] false false] },
  methods := [],
  classAttrs := [],
  getImpl := .inherit, setImpl := .inherit,
  hooks := false }
/-- MeanSquaredPercentageError  (sktime/performance_metrics/forecasting/_classes.py:886) -/
def c476 : ClassEntry Nat := {
  name := 476, external := false,
  mro := [476, 477, 478, 353, 19],
  init := some {
    params := [(465, true), (359, true)],
    varargs := false,
    body := [.superCall none [] [(354, (.const 150)), (160, (.const 151)), (355, (.lit false)), (465, (.param 465)), (359, (.param 359))] false false] },
  methods := [],
  classAttrs := [],
  getImpl := .inherit, setImpl := .inherit,
  hooks := false }
/-- MeanSquaredScaledError  (sktime/performance_metrics/forecasting/_classes.py:441) -/
def c479 : ClassEntry Nat := {
  name := 479, external := false,
  mro := [479, 480, 358, 353, 19],
  init := some {
    params := [(47, true), (359, true)],
    varargs := false,
    body := [.superCall none [] [(354, (.const 152)), (160, (.const 153)), (355, (.lit false)), (47, (.const 154)), (359, (.param 359))] false false] },
  methods := [],
  classAttrs := [],
  getImpl := .inherit, setImpl := .inherit,
  hooks := false }
/-- MeanTransformer  (sktime/transformations/series/summarize.py:13) -/
def c481 : ClassEntry Nat := {
  name := 481, external := false,
  mro := [481, 482, 66, 18, 19],
  init := none,
  methods := [{ name := 2, isProp := false, events := [.callSelf 10, .ret false false] }],
  classAttrs := [],
  getImpl := .inherit, setImpl := .inherit,
  hooks := false }
/-- MedianAbsoluteError  (sktime/performance_metrics/forecasting/_classes.py:617) -/
def c483 : ClassEntry Nat := {
  name := 483, external := false,
  mro := [483, 353, 19],
  init := some {
    params := [],
    varargs := false,
    body := [.superCall none [] [(354, (.const 155)), (160, (.const 156)), (355, (.lit false))] false false] },
  methods := [],
  classAttrs := [],
  getImpl := .inherit, setImpl := .inherit,
  hooks := false }
/-- MedianAbsolutePercentageError  (sktime/performance_metrics/forecasting/_classes.py:826) -/
def c484 : ClassEntry Nat := {
  name := 484, external := false,
  mro := [484, 463, 464, 353, 19],
  init := some {
    params := [(465, true)],
    varargs := false,
    body := [.superCall none [] [(354, (.const 157)), (160, (.const 158)), (355, (.lit false)), (465, (.param 465))] false false] },
  methods := [],
  classAttrs := [],
  getImpl := .inherit, setImpl := .inherit,
  hooks := false }
/-- MedianAbsoluteScaledError  (sktime/performance_metrics/forecasting/_classes.py:376) -/
def c485 : ClassEntry Nat := {
  name := 485, external := false,
  mro := [485, 467, 353, 19],
  init := some {
    params := [(47, true)],
    varargs := false,
    body := [.superCall none [] [(354, (.const 159)), (160, (.const 160)), (355, (.lit false)), (47, (.param 47))] false false] },
  methods := [],
  classAttrs := [],
  getImpl := .inherit, setImpl := .inherit,
  hooks := false }
/-- MedianRelativeAbsoluteError  (sktime/performance_metrics/forecasting/_classes.py:1053) -/
def c486 : ClassEntry Nat := {
  name := 486, external := false,
  mro := [486, 353, 19],
  init := some {
    params := [],
    varargs := false,
    body := [.superCall none [] [(354, (.const 161)), (160, (.const 162)), (355, (.lit false))] false false] },
  methods := [],
  classAttrs := [],
  getImpl := .inherit, setImpl := .inherit,
  hooks := false }
/-- MedianSquaredError  (sktime/performance_metrics/forecasting/_classes.py:712) -/
def c487 : ClassEntry Nat := {
  name := 487, external := false,
  mro := [487, 357, 358, 353, 19],
  init := some {
    params := [(359, true)],
    varargs := false,
    body := [.superCall none [] [(354, (.const 163)), (160, (.const 164)), (355, (.lit false)), (359, (.param 359))] false false] },
  methods := [],
  classAttrs := [],
  getImpl := .inherit, setImpl := .inherit,
  hooks := false }
/-- MedianSquaredPercentageError  (sktime/performance_metrics/forecasting/_classes.py:951) -/
def c488 : ClassEntry Nat := {
  name := 488, external := false,
  mro := [488, 477, 478, 353, 19],
  init := some {
    params := [(465, true), (359, true)],
    varargs := false,
    body := [.superCall none [] [(354, (.const 165)), (160, (.const 166)), (355, (.lit false)), (465, (.param 465)), (359, (.param 359))] false false] },
  methods := [],
  classAttrs := [],
  getImpl := .inherit, setImpl := .inherit,
  hooks := false }
/-- MedianSquaredScaledError  (sktime/performance_metrics/forecasting/_classes.py:510) -/
def c489 : ClassEntry Nat := {
  name := 489, external := false,
  mro := [489, 480, 358, 353, 19],
  init := some {
    params := [(47, true), (359, true)],
    varargs := false,
    body := [.superCall none [] [(354, (.const 167)), (160, (.const 168)), (355, (.lit false)), (47, (.param 47)), (359, (.param 359))] false false] },
  methods := [],
  classAttrs := [],
  getImpl := .inherit, setImpl := .inherit,
  hooks := false }
/-- MiniRocket  (sktime/transformations/panel/rocket/_minirocket.py:15) -/
def c490 : ClassEntry Nat := {
  name := 490, external := false,
  mro := [490, 219, 66, 18, 19],
  init := some {
    params := [(491, true), (492, true), (61, true)],
    varargs := false,
    body := [.assign 491 (.param 491) false,
      .assign 492 (.param 492) false,
      .assign 61 (.derived 169) false,
      .superCall none [] [] false false] },
  methods := [{ name := 7, isProp := false, events := [.raise true false, .use 491, .use 492, .use 61, .write 493, .write 11, .ret false true] },
    { name := 2, isProp := false, events := [.callSelf 10, .use 493, .ret false false] }],
  classAttrs := [72],
  getImpl := .inherit, setImpl := .inherit,
  hooks := false }
/-- MiniRocketMultivariate  (sktime/transformations/panel/rocket/_minirocket_multivariate.py:15) -/
def c494 : ClassEntry Nat := {
  name := 494, external := false,
  mro := [494, 219, 66, 18, 19],
  init := some {
    params := [(491, true), (492, true), (61, true)],
    varargs := false,
    body := [.assign 491 (.param 491) false,
      .assign 492 (.param 492) false,
      .assign 61 (.derived 170) false,
      .superCall none [] [] false false] },
  methods := [{ name := 7, isProp := false, events := [.raise true false, .use 491, .use 492, .use 61, .write 493, .write 11, .ret false true] },
    { name := 2, isProp := false, events := [.callSelf 10, .use 493, .ret false false] }],
  classAttrs := [],
  getImpl := .inherit, setImpl := .inherit,
  hooks := false }
/-- MultioutputTabularRegressionForecaster  (sktime/forecasting/compose/_reduce.py:574) -/
def c495 : ClassEntry Nat := {
  name := 495, external := false,
  mro := [495, 496, 300, 301, 302, 16, 17, 18, 19],
  init := none,
  methods := [],
  classAttrs := [303],
  getImpl := .inherit, setImpl := .inherit,
  hooks := false }
/-- MultioutputTimeSeriesRegressionForecaster  (sktime/forecasting/compose/_reduce.py:657) -/
def c497 : ClassEntry Nat := {
  name := 497, external := false,
  mro := [497, 496, 300, 301, 302, 16, 17, 18, 19],
  init := none,
  methods := [],
  classAttrs := [303],
  getImpl := .inherit, setImpl := .inherit,
  hooks := false }
/-- MultiplexForecaster  (sktime/forecasting/compose/_multiplexer.py:14) -/
def c498 : ClassEntry Nat := {
  name := 498, external := false,
  mro := [498, 15, 325, 16, 17, 125, 18, 19],
  init := some {
    params := [(326, false), (499, true)],
    varargs := false,
    body := [.superCall none [] [(326, (.param 326)), (55, (.const 171))] false false,
      .assign 499 (.param 499) false,
      .assign 92 (.const 172) false] },
  methods := [{ name := 500, isProp := false, events := [.use 499, .ret true false, .use 326, .raise true false, .use 499, .use 499, .ret true false, .ret true false] },
    { name := 501, isProp := false, events := [.use 326, .use 499, .raise true true] },
    { name := 329, isProp := false, events := [.use 92, .ret false false] },
    { name := 502, isProp := false, events := [.callSelf 501, .use 499, .use 326, .use 499, .write 92] },
    { name := 7, isProp := false, events := [.callSelf 330, .callSelf 331, .callSelf 332, .callSelf 502, .callSelf 500, .use 92, .write 11, .ret false true] },
    { name := 4, isProp := false, events := [.callSelf 10, .callSelf 334, .use 92, .ret false true] }],
  classAttrs := [],
  getImpl := .inherit, setImpl := .inherit,
  hooks := false }
/-- NaiveForecaster  (sktime/forecasting/naive.py:19) -/
def c503 : ClassEntry Nat := {
  name := 503, external := false,
  mro := [503, 15, 302, 16, 17, 18, 19],
  init := some {
    params := [(147, true), (385, true), (47, true)],
    varargs := false,
    body := [.superCall none [] [] false false,
      .assign 147 (.param 147) false,
      .assign 47 (.param 47) false,
      .assign 385 (.param 385) false] },
  methods := [{ name := 508, isProp := false, events := [.callSelf 504, .use 152, .callSelf 505, .ret true false, .use 147, .use 47, .ret true false, .use 506, .use 506, .use 152, .ret true false, .use 147, .use 47, .ret true false, .use 507, .use 506, .use 506, .use 507, .use 506, .use 506, .use 506, .use 506, .use 152, .ret true false, .use 507, .use 147, .raise true true, .use 507, .use 152, .ret true false] },
    { name := 7, isProp := false, events := [.callSelf 330, .callSelf 331, .use 147, .use 47, .use 385, .write 507, .use 47, .write 506, .use 506, .write 507, .use 147, .use 385, .use 47, .use 385, .use 47, .use 385, .use 47, .raise true true, .use 385, .write 507, .use 47, .write 506, .use 385, .write 507, .use 147, .use 47, .use 385, .write 507, .use 385, .write 507, .use 385, .use 385, .raise true true, .use 147, .raise true true, .use 507, .use 434, .use 147, .use 47, .use 507, .raise true true, .write 11, .ret false true] }],
  classAttrs := [],
  getImpl := .inherit, setImpl := .inherit,
  hooks := false }
/-- OnlineEnsembleForecaster  (sktime/forecasting/online_learning/_online_ensemble.py:12) -/
def c509 : ClassEntry Nat := {
  name := 509, external := false,
  mro := [509, 324, 15, 325, 16, 17, 125, 18, 19],
  init := some {
    params := [(326, false), (510, true), (55, true)],
    varargs := false,
    body := [.assign 55 (.param 55) false,
      .assign 510 (.param 510) false,
      .superCall none [] [(326, (.param 326)), (55, (.param 55))] false false] },
  methods := [{ name := 511, isProp := false, events := [.callSelf 328, .use 510] },
    { name := 329, isProp := false, events := [.raise true false, .use 510, .use 510, .write 269, .callSelf 328, .use 269, .ret false false] },
    { name := 7, isProp := false, events := [.callSelf 330, .callSelf 331, .callSelf 332, .write 269, .callSelf 333, .write 11, .ret false true] },
    { name := 4, isProp := false, events := [.callSelf 10, .callSelf 334, .use 510, .callSelf 511, .use 335, .ret false true] },
    { name := 5, isProp := false, events := [.raise true false, .callSelf 512, .ret false false] }],
  classAttrs := [231],
  getImpl := .inherit, setImpl := .inherit,
  hooks := false }
/-- OptionalPassthrough  (sktime/transformations/series/compose.py:15) -/
def c513 : ClassEntry Nat := {
  name := 513, external := false,
  mro := [513, 65, 66, 18, 19],
  init := some {
    params := [(400, false), (514, true)],
    varargs := false,
    body := [.assign 400 (.param 400) false,
      .assign 515 (.const 173) false,
      .assign 514 (.param 514) false,
      .assign 11 (.lit false) false,
      .superCall none [] [] false false] },
  methods := [{ name := 7, isProp := false, events := [.use 514, .use 400, .write 515, .use 515, .write 11, .ret false true] },
    { name := 3, isProp := false, events := [.callSelf 10, .use 514, .use 515, .ret false false] },
    { name := 2, isProp := false, events := [.callSelf 10, .use 514, .use 515, .ret false false] }],
  classAttrs := [231, 72],
  getImpl := .inherit, setImpl := .inherit,
  hooks := false }
/-- PAA  (sktime/transformations/panel/dictionary_based/_paa.py:10) -/
def c516 : ClassEntry Nat := {
  name := 516, external := false,
  mro := [516, 226, 66, 18, 19],
  init := some {
    params := [(378, true)],
    varargs := false,
    body := [.assign 378 (.param 378) false,
      .superCall none [] [] false false] },
  methods := [{ name := 286, isProp := false, events := [.use 378, .use 378, .raise true true, .use 378, .raise true true, .use 378, .raise true true] },
    { name := 517, isProp := false, events := [.use 378, .use 378, .ret false false] },
    { name := 518, isProp := false, events := [.write 378] },
    { name := 2, isProp := false, events := [.callSelf 10, .callSelf 286, .callSelf 517, .ret false false] }],
  classAttrs := [],
  getImpl := .inherit, setImpl := .inherit,
  hooks := false }
/-- PCATransformer  (sktime/transformations/panel/pca.py:13) -/
def c519 : ClassEntry Nat := {
  name := 519, external := false,
  mro := [519, 226, 66, 18, 19],
  init := some {
    params := [(520, true)],
    varargs := true,
    body := [.assign 520 (.param 520) false,
      .assign 521 (.derived 174) false,
      .superCall none [] [] false false] },
  methods := [{ name := 7, isProp := false, events := [.use 521, .write 11, .ret false true] },
    { name := 2, isProp := false, events := [.callSelf 10, .use 521, .ret false false] }],
  classAttrs := [72],
  getImpl := .inherit, setImpl := .inherit,
  hooks := false }
/-- PaddingTransformer  (sktime/transformations/panel/padder.py:11) -/
def c522 : ClassEntry Nat := {
  name := 522, external := false,
  mro := [522, 226, 66, 18, 19],
  init := some {
    params := [(523, true), (524, true)],
    varargs := false,
    body := [.assign 523 (.param 523) false,
      .assign 524 (.param 524) false,
      .superCall none [] [] false false] },
  methods := [{ name := 526, isProp := false, events := [.use 525, .use 524, .ret false false] },
    { name := 7, isProp := false, events := [.use 523, .write 525, .use 523, .write 525, .write 11, .ret false true] },
    { name := 2, isProp := false, events := [.callSelf 10, .use 525, .raise true true, .callSelf 526, .ret false false] }],
  classAttrs := [],
  getImpl := .inherit, setImpl := .inherit,
  hooks := false }
/-- PartialAutoCorrelationTransformer  (sktime/transformations/series/acf.py:64) -/
def c527 : ClassEntry Nat := {
  name := 527, external := false,
  mro := [527, 65, 66, 18, 19],
  init := some {
    params := [(68, true), (23, true)],
    varargs := false,
    body := [.assign 68 (.param 68) false,
      .assign 23 (.param 23) false,
      .superCall none [] [] false false] },
  methods := [{ name := 2, isProp := false, events := [.callSelf 10, .use 68, .use 23, .ret false false] }],
  classAttrs := [72],
  getImpl := .inherit, setImpl := .inherit,
  hooks := false }
/-- PlateauFinder  (sktime/transformations/panel/summarize/_extract.py:17) -/
def c528 : ClassEntry Nat := {
  name := 528, external := false,
  mro := [528, 226, 66, 18, 19],
  init := some {
    params := [(391, true), (529, true)],
    varargs := false,
    body := [.assign 391 (.param 391) false,
      .assign 529 (.param 529) false,
      .superCall none [] [] false false] },
  methods := [{ name := 2, isProp := false, events := [.callSelf 10, .write 530, .write 531, .use 391, .use 391, .use 391, .use 529, .use 529, .use 530, .use 531, .use 391, .use 391, .use 530, .use 531, .ret false false] }],
  classAttrs := [72],
  getImpl := .inherit, setImpl := .inherit,
  hooks := false }
/-- PolynomialTrendForecaster  (sktime/forecasting/trend.py:20) -/
def c532 : ClassEntry Nat := {
  name := 532, external := false,
  mro := [532, 15, 16, 17, 18, 19],
  init := some {
    params := [(533, true), (534, true), (30, true)],
    varargs := false,
    body := [.assign 533 (.param 533) false,
      .assign 534 (.param 534) false,
      .assign 30 (.param 30) false,
      .assign 535 (.const 175) false,
      .superCall none [] [] false false] },
  methods := [{ name := 329, isProp := false, events := [.raise true false, .use 363, .use 434, .use 152, .use 535, .use 363, .use 152, .ret false false] },
    { name := 7, isProp := false, events := [.raise true false, .callSelf 330, .callSelf 331, .use 533, .use 533, .use 534, .use 30, .write 535, .use 434, .use 535, .write 11, .ret false true] }],
  classAttrs := [],
  getImpl := .inherit, setImpl := .inherit,
  hooks := false }
/-- Prophet  (sktime/forecasting/fbprophet.py:15) -/
def c536 : ClassEntry Nat := {
  name := 536, external := false,
  mro := [536, 537, 15, 16, 17, 18, 19],
  init := some {
    params := [(83, true), (538, true), (539, true), (540, true), (541, true), (542, true), (543, true), (544, true), (545, true), (546, true), (547, true), (548, true), (549, true), (550, true), (551, true), (552, true), (51, true), (553, true), (554, true), (127, true)],
    varargs := false,
    body := [.assign 83 (.param 83) false,
      .assign 538 (.param 538) false,
      .assign 539 (.param 539) false,
      .assign 540 (.param 540) false,
      .assign 541 (.param 541) false,
      .assign 542 (.param 542) false,
      .assign 543 (.param 543) false,
      .assign 544 (.param 544) false,
      .assign 545 (.param 545) false,
      .assign 546 (.param 546) false,
      .assign 547 (.param 547) false,
      .assign 548 (.param 548) false,
      .assign 549 (.derived 176) false,
      .assign 551 (.derived 177) false,
      .assign 550 (.derived 178) false,
      .assign 552 (.param 552) false,
      .assign 51 (.param 51) false,
      .assign 553 (.param 553) false,
      .assign 554 (.param 554) false,
      .assign 127 (.param 127) false,
      .assign 98 (.const 179) false,
      .superCall none [] [] false false] },
  methods := [{ name := 32, isProp := false, events := [.use 540, .use 541, .use 542, .use 543, .use 544, .use 545, .use 546, .use 547, .use 548, .use 549, .use 550, .use 551, .use 552, .use 51, .use 553, .use 554, .callSelf 98, .write 92, .ret false true] }],
  classAttrs := [],
  getImpl := .inherit, setImpl := .inherit,
  hooks := false }
/-- ProximityForest  (sktime/classification/distance_based/_proximity_forest.py:1171) -/
def c555 : ClassEntry Nat := {
  name := 555, external := false,
  mro := [555, 100, 18, 19],
  init := some {
    params := [(61, true), (109, true), (556, true), (557, true), (558, true), (559, true), (560, true), (243, true), (561, true), (55, true), (562, true), (563, true), (564, true)],
    varargs := false,
    body := [.assign 561 (.param 561) false,
      .assign 560 (.param 560) false,
      .assign 243 (.param 243) false,
      .assign 558 (.param 558) false,
      .assign 559 (.param 559) false,
      .assign 61 (.param 61) false,
      .assign 109 (.param 109) false,
      .assign 55 (.param 55) false,
      .assign 562 (.param 562) false,
      .assign 557 (.param 557) false,
      .assign 564 (.param 564) false,
      .assign 556 (.param 556) false,
      .assign 563 (.param 563) false,
      .assign 123 (.const 180) false,
      .assign 565 (.const 181) false,
      .assign 566 (.const 182) false,
      .assign 567 (.const 183) false,
      .assign 107 (.const 184) false,
      .superCall none [] [] false false] },
  methods := [{ name := 568, isProp := false, events := [.use 560, .use 560, .use 558, .use 559, .use 556, .use 564, .use 557, .use 243, .use 561, .use 563, .use 562, .ret false false] },
    { name := 569, isProp := false, events := [.ret false false] },
    { name := 7, isProp := false, events := [.write 566, .use 61, .write 61, .use 123, .write 123, .use 123, .write 567, .use 123, .write 107, .use 556, .use 557, .escape, .callSelf 564, .write 557, .escape, .callSelf 557, .write 556, .use 55, .use 55, .use 55, .use 109, .use 568, .use 61, .use 109, .write 565, .use 109, .use 61, .use 109, .callSelf 568, .write 565, .write 11, .ret false true] },
    { name := 1, isProp := false, events := [.use 55, .use 55, .use 55, .use 565, .use 569, .use 565, .callSelf 569, .ret false false] }],
  classAttrs := [119],
  getImpl := .inherit, setImpl := .inherit,
  hooks := false }
/-- ProximityStump  (sktime/classification/distance_based/_proximity_forest.py:759) -/
def c570 : ClassEntry Nat := {
  name := 570, external := false,
  mro := [570, 100, 18, 19],
  init := some {
    params := [(61, true), (558, true), (571, true), (557, true), (556, true), (559, true), (560, true), (55, true)],
    varargs := false,
    body := [.assign 571 (.param 571) false,
      .assign 61 (.param 61) false,
      .assign 557 (.param 557) false,
      .assign 556 (.param 556) false,
      .assign 572 (.param 558) false,
      .assign 559 (.param 559) false,
      .assign 560 (.param 560) false,
      .assign 55 (.param 55) false,
      .assign 123 (.const 185) false,
      .assign 573 (.const 186) false,
      .assign 574 (.const 187) false,
      .assign 575 (.const 188) false,
      .assign 576 (.const 189) false,
      .assign 566 (.const 190) false,
      .assign 567 (.const 191) false,
      .assign 107 (.const 192) false,
      .assign 577 (.const 193) false,
      .superCall none [] [] false false] },
  methods := [{ name := 578, isProp := false, events := [.ret false false] },
    { name := 579, isProp := false, events := [.use 55, .use 55, .use 55, .use 578, .use 574, .use 556, .use 574, .use 556, .callSelf 578, .ret false false] },
    { name := 580, isProp := false, events := [.callSelf 579, .use 61, .ret false false] },
    { name := 7, isProp := false, events := [.write 566, .use 61, .write 61, .use 123, .write 123, .use 123, .write 567, .use 123, .write 107, .use 556, .use 557, .escape, .callSelf 571, .write 557, .escape, .callSelf 557, .write 556, .escape, .callSelf 572, .write 574, .write 573, .write 11, .ret false true] },
    { name := 581, isProp := false, events := [.use 573, .use 566, .callSelf 580, .write 575, .write 576, .use 566, .use 575, .write 575, .use 567, .use 576, .write 576, .use 567, .use 576, .callSelf 559, .write 577, .ret false true] },
    { name := 1, isProp := false, events := [.callSelf 579, .ret false false] }],
  classAttrs := [122],
  getImpl := .inherit, setImpl := .inherit,
  hooks := false }
/-- ProximityTree  (sktime/classification/distance_based/_proximity_forest.py:974) -/
def c582 : ClassEntry Nat := {
  name := 582, external := false,
  mro := [582, 100, 18, 19],
  init := some {
    params := [(61, true), (558, true), (556, true), (557, true), (571, true), (559, true), (243, true), (561, true), (560, true), (55, true), (562, true), (563, true)],
    varargs := false,
    body := [.assign 560 (.param 560) false,
      .assign 562 (.param 562) false,
      .assign 563 (.param 563) false,
      .assign 243 (.param 243) false,
      .assign 557 (.param 556) false,
      .assign 61 (.param 61) false,
      .assign 561 (.param 561) false,
      .assign 557 (.param 557) false,
      .assign 571 (.param 571) false,
      .assign 558 (.param 558) false,
      .assign 559 (.param 559) false,
      .assign 55 (.param 55) false,
      .assign 583 (.const 194) false,
      .assign 123 (.const 195) false,
      .assign 556 (.const 196) false,
      .assign 584 (.const 197) false,
      .assign 585 (.const 198) false,
      .assign 566 (.const 199) false,
      .assign 567 (.const 200) false,
      .assign 107 (.const 201) false,
      .superCall none [] [] false false] },
  methods := [{ name := 7, isProp := false, events := [.write 566, .use 61, .write 61, .use 563, .use 562, .write 563, .use 123, .write 123, .use 123, .write 567, .use 123, .write 107, .use 556, .use 557, .escape, .callSelf 571, .write 557, .escape, .callSelf 557, .write 556, .escape, .callSelf 563, .write 584, .use 584, .write 585, .use 583, .use 243, .use 584, .callSelf 561, .use 61, .use 558, .use 556, .use 571, .use 557, .use 559, .use 561, .use 560, .use 243, .use 55, .use 123, .use 583, .use 585, .write 585, .use 584, .write 11, .ret false true] },
    { name := 1, isProp := false, events := [.use 584, .use 123, .use 585, .use 585, .use 584, .ret false false] }],
  classAttrs := [],
  getImpl := .inherit, setImpl := .inherit,
  hooks := false }
/-- ROCKETClassifier  (sktime/classification/shapelet_based/_rocket_classifier.py:26) -/
def c586 : ClassEntry Nat := {
  name := 586, external := false,
  mro := [586, 100, 18, 19],
  init := some {
    params := [(587, true), (588, true), (589, true), (61, true), (109, true), (55, true)],
    varargs := false,
    body := [.assign 587 (.param 587) false,
      .assign 61 (.param 61) false,
      .assign 55 (.param 55) false,
      .assign 109 (.param 109) false,
      .assign 588 (.param 588) false,
      .assign 589 (.param 589) false,
      .assign 109 (.param 589) true,
      .pure,
      .assign 132 (.const 202) false,
      .assign 269 (.const 203) false,
      .assign 270 (.const 204) false,
      .assign 106 (.const 205) false,
      .assign 107 (.const 206) false,
      .assign 108 (.const 207) false,
      .superCall none [] [] false false] },
  methods := [{ name := 105, isProp := true, events := [.use 132, .ret false false] },
    { name := 7, isProp := false, events := [.use 55, .write 106, .write 107, .use 107, .use 108, .write 108, .use 109, .use 109, .use 587, .use 61, .use 109, .use 61, .write 132, .use 132, .use 269, .use 270, .write 270, .use 587, .use 61, .write 132, .write 11, .ret false true] },
    { name := 0, isProp := false, events := [.use 109, .use 61, .callSelf 1, .use 107, .ret true false, .callSelf 10, .use 132, .ret true false] },
    { name := 1, isProp := false, events := [.callSelf 10, .use 109, .use 106, .use 132, .use 269, .use 108, .use 106, .use 270, .use 106, .use 132, .use 107, .ret false false] }],
  classAttrs := [119],
  getImpl := .inherit, setImpl := .inherit,
  hooks := false }
/-- RandomIntervalFeatureExtractor  (sktime/transformations/panel/summarize/_extract.py:139) -/
def c590 : ClassEntry Nat := {
  name := 590, external := false,
  mro := [590, 219, 66, 18, 19],
  init := some {
    params := [(200, true), (529, true), (591, true), (592, true), (61, true)],
    varargs := false,
    body := [.assign 200 (.param 200) false,
      .assign 529 (.param 529) false,
      .assign 591 (.param 591) false,
      .assign 61 (.param 61) false,
      .assign 592 (.param 592) false,
      .superCall none [] [] false false] },
  methods := [{ name := 7, isProp := false, events := [.use 200, .use 529, .use 591, .use 61, .write 593, .use 593, .use 593, .write 201, .use 593, .write 421, .use 593, .write 420, .write 11, .ret false true] },
    { name := 2, isProp := false, events := [.callSelf 10, .use 592, .use 421, .raise true true, .use 201, .raise true false, .ret false false] }],
  classAttrs := [72],
  getImpl := .inherit, setImpl := .inherit,
  hooks := false }
/-- RandomIntervalSegmenter  (sktime/transformations/panel/segment.py:124) -/
def c594 : ClassEntry Nat := {
  name := 594, external := false,
  mro := [594, 419, 226, 66, 18, 19],
  init := some {
    params := [(200, true), (529, true), (591, true), (61, true)],
    varargs := false,
    body := [.assign 200 (.param 200) false,
      .assign 529 (.param 529) false,
      .assign 591 (.param 591) false,
      .assign 61 (.param 61) false,
      .superCall none [] [] false false] },
  methods := [{ name := 7, isProp := false, events := [.use 529, .use 591, .use 529, .use 529, .use 591, .use 591, .raise true true, .write 421, .write 420, .use 200, .use 529, .use 591, .raise true true, .use 420, .use 61, .write 201, .use 420, .use 200, .use 591, .use 61, .write 201, .write 11, .ret false true] }],
  classAttrs := [],
  getImpl := .inherit, setImpl := .inherit,
  hooks := false }
/-- RandomIntervalSpectralForest  (sktime/classification/interval_based/_rise.py:78) -/
def c595 : ClassEntry Nat := {
  name := 595, external := false,
  mro := [595, 206, 100, 18, 19],
  init := some {
    params := [(109, true), (199, true), (596, true), (597, true), (55, true), (61, true)],
    varargs := false,
    body := [.superCall none [] [(178, (.derived 208)), (109, (.param 109))] false false,
      .assign 109 (.param 109) false,
      .assign 199 (.param 199) false,
      .assign 596 (.param 596) false,
      .assign 597 (.param 597) false,
      .assign 55 (.param 55) false,
      .assign 61 (.param 61) false,
      .assign 11 (.lit false) false] },
  methods := [{ name := 191, isProp := true, events := [.raise false false] },
    { name := 7, isProp := false, events := [.write 110, .use 61, .write 132, .write 106, .write 107, .use 109, .write 213, .use 213, .write 213, .use 110, .use 213, .write 213, .use 109, .use 110, .use 199, .use 213, .write 213, .use 213, .use 199, .use 110, .use 213, .write 213, .use 596, .write 598, .use 596, .use 110, .use 597, .use 110, .use 597, .write 598, .use 596, .write 598, .use 109, .write 599, .use 109, .use 178, .use 55, .use 213, .use 598, .use 597, .use 599, .write 599, .use 132, .write 11, .ret false true] },
    { name := 0, isProp := false, events := [.callSelf 1, .use 107, .ret false false] },
    { name := 1, isProp := false, events := [.callSelf 10, .use 110, .raise true true, .use 109, .use 55, .use 109, .use 132, .use 213, .use 599, .use 109, .ret false false] }],
  classAttrs := [119],
  getImpl := .inherit, setImpl := .inherit,
  hooks := false }
/-- RecursiveTabularRegressionForecaster  (sktime/forecasting/compose/_reduce.py:594) -/
def c600 : ClassEntry Nat := {
  name := 600, external := false,
  mro := [600, 601, 15, 301, 302, 16, 17, 18, 19],
  init := none,
  methods := [],
  classAttrs := [303],
  getImpl := .inherit, setImpl := .inherit,
  hooks := false }
/-- RecursiveTimeSeriesRegressionForecaster  (sktime/forecasting/compose/_reduce.py:677) -/
def c602 : ClassEntry Nat := {
  name := 602, external := false,
  mro := [602, 601, 15, 301, 302, 16, 17, 18, 19],
  init := none,
  methods := [],
  classAttrs := [303],
  getImpl := .inherit, setImpl := .inherit,
  hooks := false }
/-- RelativeLoss  (sktime/performance_metrics/forecasting/_classes.py:1248) -/
def c603 : ClassEntry Nat := {
  name := 603, external := false,
  mro := [603, 604, 605, 353, 19],
  init := some {
    params := [(606, true)],
    varargs := false,
    body := [.superCall none [] [(354, (.const 209)), (160, (.const 210)), (355, (.lit false)), (606, (.param 606))] false false] },
  methods := [],
  classAttrs := [],
  getImpl := .inherit, setImpl := .inherit,
  hooks := false }
/-- Rocket  (sktime/transformations/panel/rocket/_rocket.py:15) -/
def c607 : ClassEntry Nat := {
  name := 607, external := false,
  mro := [607, 219, 66, 18, 19],
  init := some {
    params := [(587, true), (608, true), (61, true)],
    varargs := false,
    body := [.assign 587 (.param 587) false,
      .assign 608 (.param 608) false,
      .assign 61 (.derived 211) false,
      .superCall none [] [] false false] },
  methods := [{ name := 7, isProp := false, events := [.write 187, .use 587, .use 187, .use 61, .write 609, .write 11, .ret false true] },
    { name := 2, isProp := false, events := [.callSelf 10, .use 608, .use 609, .ret false false] }],
  classAttrs := [],
  getImpl := .inherit, setImpl := .inherit,
  hooks := false }
/-- RotationForest  (sktime/contrib/rotation_forest/rotation_forest_dev.py:14) -/
def c610 : ClassEntry Nat := {
  name := 610, external := false,
  mro := [610, 206],
  init := some {
    params := [(109, true), (611, true), (612, true), (613, true), (61, true), (127, true)],
    varargs := false,
    body := [.superCall none [] [(178, (.const 212)), (109, (.param 109))] false false,
      .assign 127 (.param 127) false,
      .assign 61 (.param 61) false,
      .assign 611 (.param 611) false,
      .assign 612 (.param 612) false,
      .assign 613 (.param 613) false,
      .assign 614 (.const 213) false,
      .assign 178 (.const 214) false,
      .assign 615 (.const 215) false,
      .assign 616 (.const 216) false,
      .assign 617 (.const 217) false,
      .assign 618 (.const 218) false,
      .assign 619 (.const 219) false,
      .assign 620 (.const 220) false,
      .assign 107 (.const 221) false,
      .assign 621 (.derived 222) false,
      .assign 622 (.derived 223) false,
      .pure] },
  methods := [{ name := 623, isProp := false, events := [.ret false false] },
    { name := 624, isProp := false, events := [.ret false false] },
    { name := 626, isProp := false, events := [.callSelf 625, .ret false false] },
    { name := 627, isProp := false, events := [.use 107, .use 620, .ret false false] },
    { name := 625, isProp := false, events := [.use 621, .use 622, .ret false false] },
    { name := 7, isProp := false, events := [.write 620, .write 619, .write 107, .use 619, .use 620, .write 615, .write 628, .write 617, .use 628, .use 615, .use 617, .callSelf 627, .use 109, .callSelf 629, .use 621, .write 621, .use 622, .write 622, .use 621, .callSelf 630, .use 613, .use 614, .callSelf 623, .callSelf 623, .use 622, .callSelf 626, .use 178, .use 618] },
    { name := 629, isProp := false, events := [.use 612, .use 611, .use 620, .use 619, .callSelf 624, .use 611, .use 611, .ret false false] },
    { name := 0, isProp := false, events := [.callSelf 1, .use 107, .ret false false] },
    { name := 1, isProp := false, events := [.write 615, .write 628, .write 617, .use 628, .use 615, .use 617, .use 619, .use 618, .callSelf 626, .use 619, .use 109, .ret false false] },
    { name := 630, isProp := false, events := [.use 619, .use 619, .use 619, .ret false false] }],
  classAttrs := [],
  getImpl := .inherit, setImpl := .inherit,
  hooks := false }
/-- RotationForestClassifier  (sktime/contrib/rotation_forest/rotation_forest_reworked.py:20) -/
def c631 : ClassEntry Nat := {
  name := 631, external := false,
  mro := [631, 100, 18, 19, 206],
  init := some {
    params := [(109, true), (632, true), (633, true), (61, true), (127, true)],
    varargs := false,
    body := [.superCall none [] [(178, (.const 224)), (109, (.param 109))] false false,
      .assign 127 (.param 127) false,
      .assign 109 (.param 109) false,
      .assign 61 (.param 61) false,
      .assign 633 (.param 633) false,
      .assign 632 (.param 632) false,
      .assign 634 (.derived 225) false,
      .assign 635 (.derived 226) false,
      .assign 178 (.derived 227) false,
      .assign 132 (.const 228) false,
      .assign 636 (.const 229) false,
      .assign 637 (.const 230) false,
      .assign 638 (.const 231) false,
      .assign 107 (.const 232) false,
      .assign 193 (.const 233) false,
      .assign 639 (.const 234) false,
      .assign 640 (.const 235) false] },
  methods := [{ name := 641, isProp := false, events := [.use 634, .use 107, .use 107, .use 640, .ret false false] },
    { name := 642, isProp := false, events := [.ret false false] },
    { name := 7, isProp := false, events := [.write 639, .write 638, .write 107, .write 193, .use 639, .use 633, .write 640, .use 638, .use 632, .use 640, .raise true true, .callSelf 642, .use 639, .use 638, .use 109, .use 638, .use 634, .use 632, .use 636, .write 636, .use 637, .write 637, .use 636, .callSelf 641, .use 635, .use 637, .use 178, .use 132, .write 11, .ret false true] },
    { name := 1, isProp := false, events := [.callSelf 10, .callSelf 642, .use 132, .use 636, .use 637, .use 132, .ret false false] }],
  classAttrs := [],
  getImpl := .inherit, setImpl := .inherit,
  hooks := false }
/-- SAX  (sktime/transformations/panel/dictionary_based/_sax.py:21) -/
def c643 : ClassEntry Nat := {
  name := 643, external := false,
  mro := [643, 226, 66, 18, 19],
  init := some {
    params := [(397, true), (114, true), (396, true), (644, true), (399, true), (645, true)],
    varargs := false,
    body := [.assign 397 (.param 397) false,
      .assign 114 (.param 114) false,
      .assign 396 (.param 396) false,
      .assign 644 (.param 644) false,
      .assign 399 (.param 399) false,
      .assign 645 (.param 645) false,
      .assign 646 (.const 236) false,
      .superCall none [] [] false false] },
  methods := [{ name := 647, isProp := false, events := [.use 644, .ret true false, .ret false false] },
    { name := 648, isProp := false, events := [.use 397, .use 114, .ret false false] },
    { name := 649, isProp := false, events := [.use 114, .ret false false] },
    { name := 2, isProp := false, events := [.callSelf 10, .use 114, .use 114, .raise true true, .use 397, .use 397, .raise true true, .callSelf 649, .use 396, .use 396, .use 397, .callSelf 648, .callSelf 647, .use 399, .use 646, .use 645, .ret false false] }],
  classAttrs := [72],
  getImpl := .inherit, setImpl := .inherit,
  hooks := false }
/-- SFA  (sktime/transformations/panel/dictionary_based/_sfa.py:29) -/
def c650 : ClassEntry Nat := {
  name := 650, external := false,
  mro := [650, 226, 66, 18, 19],
  init := some {
    params := [(397, true), (114, true), (396, true), (398, true), (651, true), (443, true), (414, true), (652, true), (644, true), (412, true), (653, true), (399, true), (654, true), (645, true), (55, true)],
    varargs := false,
    body := [.assign 646 (.const 237) false,
      .assign 655 (.const 238) false,
      .assign 397 (.derived 239) false,
      .assign 656 (.derived 240) false,
      .assign 656 (.derived 241) false,
      .assign 657 (.derived 242) false,
      .assign 114 (.param 114) false,
      .assign 396 (.param 396) false,
      .assign 653 (.param 653) false,
      .assign 658 (.derived 243) false,
      .assign 398 (.param 398) false,
      .assign 644 (.param 644) false,
      .assign 399 (.param 399) false,
      .assign 412 (.param 412) false,
      .assign 654 (.param 654) false,
      .assign 659 (.const 244) false,
      .assign 651 (.param 651) false,
      .assign 443 (.param 443) false,
      .assign 414 (.param 414) false,
      .assign 652 (.param 652) false,
      .assign 660 (.const 245) false,
      .assign 111 (.const 246) false,
      .assign 110 (.const 247) false,
      .assign 645 (.param 645) false,
      .assign 55 (.param 55) false,
      .superCall none [] [] false false] },
  methods := [{ name := 661, isProp := false, events := [.use 114, .use 651, .use 397, .use 114, .use 397, .use 114, .ret false false] },
    { name := 647, isProp := false, events := [.use 644, .ret true false, .ret false false] },
    { name := 662, isProp := false, events := [.use 644, .ret true false, .use 412, .use 110, .use 396, .use 660, .ret false false] },
    { name := 666, isProp := false, events := [.use 110, .use 396, .use 111, .callSelf 663, .use 654, .write 659, .use 656, .use 443, .use 397, .use 397, .write 657, .use 657, .use 657, .write 656, .use 656, .use 656, .write 656, .use 651, .callSelf 664, .ret true false, .use 651, .callSelf 661, .ret true false, .callSelf 665, .ret true false] },
    { name := 667, isProp := false, events := [.ret false false] },
    { name := 648, isProp := false, events := [.ret false false] },
    { name := 668, isProp := false, events := [.use 398, .use 656, .use 658, .ret false false] },
    { name := 664, isProp := false, events := [.use 397, .use 114, .use 114, .use 114, .use 397, .use 114, .ret false false] },
    { name := 669, isProp := false, events := [] },
    { name := 665, isProp := false, events := [.use 110, .use 396, .use 111, .use 397, .use 114, .use 397, .use 111, .use 651, .use 114, .use 114, .use 651, .use 114, .use 114, .use 114, .ret false false] },
    { name := 663, isProp := false, events := [.use 396, .use 396, .use 110, .use 396, .use 110, .use 656, .callSelf 668, .ret false false] },
    { name := 671, isProp := false, events := [.callSelf 670, .use 396, .use 396, .use 396, .use 396, .use 658, .use 396, .use 658, .use 443, .use 657, .ret false false] },
    { name := 670, isProp := false, events := [.use 398, .use 656, .use 656, .use 396, .ret false false] },
    { name := 408, isProp := false, events := [.use 645, .use 646, .use 646, .use 397, .callSelf 672, .use 412, .callSelf 662, .callSelf 647, .use 414, .use 396, .use 646, .use 396, .use 397, .callSelf 672, .use 397, .callSelf 673, .use 412, .use 645, .ret false false] },
    { name := 674, isProp := false, events := [.callSelf 671, .use 397, .use 114, .use 655, .use 412, .callSelf 662, .callSelf 647, .use 414, .use 396, .use 396, .use 397, .callSelf 673, .use 412, .use 652, .use 396, .use 396, .use 397, .callSelf 673, .use 412, .use 645, .use 399, .ret false false] },
    { name := 673, isProp := false, events := [.ret false false] },
    { name := 7, isProp := false, events := [.use 114, .use 114, .raise true true, .use 397, .use 397, .raise true true, .use 651, .raise true true, .use 651, .raise true true, .write 111, .write 110, .callSelf 666, .write 655, .write 11, .ret false true] },
    { name := 675, isProp := false, events := [.ret false false] },
    { name := 672, isProp := false, events := [.ret false false] },
    { name := 2, isProp := false, events := [.callSelf 10, .use 55, .use 674, .use 399, .write 646, .use 645, .ret false false] },
    { name := 676, isProp := false, events := [.ret false false] }],
  classAttrs := [72],
  getImpl := .inherit, setImpl := .inherit,
  hooks := false }
/-- SeriesToPrimitivesRowTransformer  (sktime/transformations/panel/compose.py:267) -/
def c677 : ClassEntry Nat := {
  name := 677, external := false,
  mro := [677, 678, 219, 66, 18, 19],
  init := none,
  methods := [{ name := 2, isProp := false, events := [.callSelf 679, .use 515, .ret false false] }],
  classAttrs := [680],
  getImpl := .inherit, setImpl := .inherit,
  hooks := false }
/-- SeriesToSeriesRowTransformer  (sktime/transformations/panel/compose.py:280) -/
def c681 : ClassEntry Nat := {
  name := 681, external := false,
  mro := [681, 678, 226, 66, 18, 19],
  init := none,
  methods := [{ name := 2, isProp := false, events := [.callSelf 679, .use 515, .ret false false] }],
  classAttrs := [680],
  getImpl := .inherit, setImpl := .inherit,
  hooks := false }
/-- ShapeDTW  (sktime/classification/distance_based/_shape_dtw.py:29) -/
def c682 : ClassEntry Nat := {
  name := 682, external := false,
  mro := [682, 100, 18, 19],
  init := some {
    params := [(424, true), (683, true), (684, true), (685, true), (431, true)],
    varargs := false,
    body := [.assign 424 (.param 424) false,
      .assign 683 (.param 683) false,
      .assign 684 (.param 684) false,
      .assign 685 (.param 685) false,
      .assign 431 (.param 431) false,
      .superCall none [] [] false false] },
  methods := [{ name := 687, isProp := false, events := [.use 431, .write 431, .use 431, .use 431, .write 686, .write 428, .use 424, .use 683, .use 684, .use 685, .raise true true, .use 431, .use 428, .write 686] },
    { name := 688, isProp := false, events := [.raise true false] },
    { name := 689, isProp := false, events := [.ret false false] },
    { name := 691, isProp := false, events := [.use 684, .use 684, .callSelf 690, .write 400, .write 400, .use 685, .use 400, .callSelf 690, .use 400, .raise true true, .use 400, .use 684, .use 686, .callSelf 689, .ret false false] },
    { name := 690, isProp := false, events := [.use 431, .callSelf 688, .ret true false, .ret true false, .ret true false, .ret true false, .ret true false, .ret true false, .ret true false, .ret true false, .ret true false, .ret true false, .ret true false, .ret true false, .ret true false, .ret true false, .ret true false, .ret true false, .raise true false] },
    { name := 693, isProp := false, events := [.use 692, .callSelf 691, .ret false false] },
    { name := 7, isProp := false, events := [.use 684, .use 684, .raise true true, .use 431, .write 431, .use 684, .callSelf 687, .use 683, .write 692, .callSelf 693, .use 424, .write 694, .use 694, .use 694, .write 107, .ret false true] },
    { name := 0, isProp := false, events := [.callSelf 693, .use 694, .ret false false] },
    { name := 1, isProp := false, events := [.callSelf 693, .use 694, .ret false false] }],
  classAttrs := [119],
  getImpl := .inherit, setImpl := .inherit,
  hooks := false }
/-- ShapeletTransform  (sktime/transformations/panel/shapelets.py:53) -/
def c274 : ClassEntry Nat := {
  name := 274, external := false,
  mro := [274, 219, 66, 18, 19],
  init := some {
    params := [(275, true), (276, true), (277, true), (61, true), (127, true), (280, true)],
    varargs := false,
    body := [.assign 275 (.param 275) false,
      .assign 276 (.param 276) false,
      .assign 277 (.param 277) false,
      .assign 61 (.param 61) false,
      .assign 127 (.param 127) false,
      .assign 280 (.param 280) false,
      .assign 281 (.const 248) false,
      .assign 282 (.const 249) false,
      .assign 695 (.lit false) false,
      .superCall none [] [] false false] },
  methods := [{ name := 696, isProp := false, events := [.ret false false] },
    { name := 697, isProp := false, events := [.ret false false] },
    { name := 698, isProp := false, events := [.ret false false] },
    { name := 699, isProp := false, events := [.ret true false, .ret false false] },
    { name := 7, isProp := false, events := [.escape, .use 278, .raise true true, .escape, .use 700, .use 61, .write 701, .ret true false, .escape, .escape, .use 701, .ret true false, .use 127, .escape, .use 276, .use 276, .use 275, .use 275, .escape, .use 279, .use 701, .use 281, .use 277, .raise true false, .use 127, .use 277, .escape, .use 278, .use 127, .use 278, .use 127, .use 127, .use 278, .use 278, .use 278, .use 278, .use 278, .use 278, .escape, .use 127, .write 282, .use 280, .use 277, .use 277, .use 282, .use 282, .write 695, .use 282, .write 11, .ret false true] },
    { name := 702, isProp := false, events := [.use 282, .ret false false] },
    { name := 703, isProp := false, events := [.ret true false, .ret true false, .ret true false, .ret false false] },
    { name := 2, isProp := false, events := [.callSelf 10, .use 282, .raise true true, .use 282, .use 282, .use 282, .use 282, .ret false false] },
    { name := 704, isProp := false, events := [.ret false false] }],
  classAttrs := [72],
  getImpl := .inherit, setImpl := .inherit,
  hooks := false }
/-- ShapeletTransformClassifier  (sktime/classification/shapelet_based/_stc.py:24) -/
def c705 : ClassEntry Nat := {
  name := 705, external := false,
  mro := [705, 100, 18, 19],
  init := some {
    params := [(278, true), (109, true), (61, true)],
    varargs := false,
    body := [.assign 278 (.param 278) false,
      .assign 109 (.param 109) false,
      .assign 61 (.param 61) false,
      .superCall none [] [] false false] },
  methods := [{ name := 7, isProp := false, events := [.use 278, .use 61, .use 109, .use 61, .write 706, .write 197, .write 107, .use 706, .write 11, .ret false true] },
    { name := 0, isProp := false, events := [.callSelf 10, .use 706, .ret false false] },
    { name := 1, isProp := false, events := [.callSelf 10, .use 706, .ret false false] }],
  classAttrs := [119],
  getImpl := .inherit, setImpl := .inherit,
  hooks := false }
/-- SlidingWindowSegmenter  (sktime/transformations/panel/segment.py:286) -/
def c707 : ClassEntry Nat := {
  name := 707, external := false,
  mro := [707, 226, 66, 18, 19],
  init := some {
    params := [(385, true)],
    varargs := false,
    body := [.assign 385 (.param 385) false,
      .superCall none [] [] false false] },
  methods := [{ name := 286, isProp := false, events := [.use 385, .use 385, .raise true true, .use 385, .raise true true] },
    { name := 708, isProp := false, events := [.use 385, .ret false false] },
    { name := 2, isProp := false, events := [.callSelf 10, .callSelf 286, .use 385, .use 385, .callSelf 708, .ret false false] }],
  classAttrs := [72],
  getImpl := .inherit, setImpl := .inherit,
  hooks := false }
/-- SlopeTransformer  (sktime/transformations/panel/slope.py:11) -/
def c709 : ClassEntry Nat := {
  name := 709, external := false,
  mro := [709, 226, 66, 18, 19],
  init := some {
    params := [(378, true)],
    varargs := false,
    body := [.assign 378 (.param 378) false,
      .superCall none [] [] false false] },
  methods := [{ name := 286, isProp := false, events := [.use 378, .use 378, .raise true true, .use 378, .raise true true, .use 378, .raise true true] },
    { name := 710, isProp := false, events := [.ret false false] },
    { name := 711, isProp := false, events := [.callSelf 381, .callSelf 710, .ret false false] },
    { name := 381, isProp := false, events := [.use 378, .ret false false] },
    { name := 2, isProp := false, events := [.callSelf 10, .callSelf 286, .callSelf 711, .ret false false] }],
  classAttrs := [],
  getImpl := .inherit, setImpl := .inherit,
  hooks := false }
/-- StackingForecaster  (sktime/forecasting/compose/_stack.py:21) -/
def c712 : ClassEntry Nat := {
  name := 712, external := false,
  mro := [712, 300, 325, 16, 17, 125, 18, 19],
  init := some {
    params := [(326, false), (713, false), (55, true)],
    varargs := false,
    body := [.superCall none [] [(326, (.param 326)), (55, (.param 55))] false false,
      .assign 713 (.param 713) false,
      .assign 714 (.const 250) false] },
  methods := [{ name := 715, isProp := false, events := [.use 713, .use 713, .raise true true] },
    { name := 329, isProp := false, events := [.raise true false, .callSelf 328, .use 714, .use 363, .use 152, .ret false false] },
    { name := 7, isProp := false, events := [.callSelf 330, .raise true false, .callSelf 331, .callSelf 332, .callSelf 715, .use 363, .use 152, .use 363, .callSelf 333, .callSelf 328, .use 713, .write 714, .use 714, .use 363, .callSelf 333, .write 11, .ret false true] },
    { name := 4, isProp := false, events := [.callSelf 10, .callSelf 334, .use 335, .ret false true] }],
  classAttrs := [231],
  getImpl := .inherit, setImpl := .inherit,
  hooks := false }
/-- SupervisedTimeSeriesForest  (sktime/classification/interval_based/_stsf.py:27) -/
def c716 : ClassEntry Nat := {
  name := 716, external := false,
  mro := [716, 206, 100, 18, 19],
  init := some {
    params := [(109, true), (55, true), (61, true)],
    varargs := false,
    body := [.superCall none [] [(178, (.const 251)), (109, (.param 109))] false false,
      .assign 61 (.param 61) false,
      .assign 109 (.param 109) false,
      .assign 55 (.param 55) false,
      .assign 717 (.const 252) false,
      .assign 106 (.const 253) false,
      .assign 132 (.const 254) false,
      .assign 201 (.const 255) false,
      .assign 107 (.const 256) false,
      .assign 11 (.lit false) false] },
  methods := [{ name := 216, isProp := false, events := [.use 178, .use 61, .use 61, .use 61, .callSelf 718, .callSelf 295, .callSelf 718, .callSelf 295, .callSelf 718, .callSelf 295, .ret false false] },
    { name := 718, isProp := false, events := [.use 717, .callSelf 719, .callSelf 719, .ret false false] },
    { name := 217, isProp := false, events := [.callSelf 295, .callSelf 295, .callSelf 295, .ret false false] },
    { name := 719, isProp := false, events := [.ret true false, .callSelf 719, .callSelf 719] },
    { name := 295, isProp := false, events := [.use 717, .use 717, .ret false false] },
    { name := 7, isProp := false, events := [.use 61, .write 106, .write 107, .use 109, .write 201, .use 106, .use 55, .use 109, .use 216, .write 132, .write 201, .write 11, .ret false true] },
    { name := 0, isProp := false, events := [.callSelf 1, .use 107, .ret false false] },
    { name := 1, isProp := false, events := [.callSelf 10, .use 55, .use 109, .use 217, .use 201, .use 132, .use 106, .use 109, .ret false false] }],
  classAttrs := [119],
  getImpl := .inherit, setImpl := .inherit,
  hooks := false }
/-- TBATS  (sktime/forecasting/tbats.py:14) -/
def c720 : ClassEntry Nat := {
  name := 720, external := false,
  mro := [720, 97, 15, 16, 17, 18, 19],
  init := none,
  methods := [],
  classAttrs := [98],
  getImpl := .inherit, setImpl := .inherit,
  hooks := false }
/-- TSCStrategy  (sktime/benchmarking/strategies.py:256) -/
def c721 : ClassEntry Nat := {
  name := 721, external := false,
  mro := [721, 175, 158, 18, 19],
  init := some {
    params := [(159, false), (160, true)],
    varargs := false,
    body := [.assign 170 (.const 257) false,
      .assign 164 (.const 258) false,
      .superCall none [(.param 159)] [(160, (.param 160))] false false] },
  methods := [],
  classAttrs := [],
  getImpl := .inherit, setImpl := .inherit,
  hooks := false }
/-- TSFreshFeatureExtractor  (sktime/transformations/panel/tsfresh.py:134) -/
def c722 : ClassEntry Nat := {
  name := 722, external := false,
  mro := [722, 723, 219, 66, 18, 19],
  init := none,
  methods := [{ name := 2, isProp := false, events := [.callSelf 10, .callSelf 724, .ret false false] }],
  classAttrs := [],
  getImpl := .inherit, setImpl := .inherit,
  hooks := false }
/-- TSFreshRelevantFeatureExtractor  (sktime/transformations/panel/tsfresh.py:191) -/
def c725 : ClassEntry Nat := {
  name := 725, external := false,
  mro := [725, 723, 219, 66, 18, 19],
  init := some {
    params := [(726, true), (727, true), (728, true), (55, true), (729, true), (730, true), (731, true), (732, true), (733, true), (734, true), (735, true), (736, true), (737, true), (738, true), (739, true), (740, true), (741, true), (742, true)],
    varargs := false,
    body := [.superCall none [] [(726, (.param 726)), (727, (.param 727)), (728, (.param 728)), (55, (.param 55)), (729, (.param 729)), (730, (.param 730)), (731, (.param 731)), (732, (.param 732)), (733, (.param 733)), (734, (.param 734)), (735, (.param 735))] false false,
      .assign 736 (.param 736) false,
      .assign 737 (.param 737) false,
      .assign 738 (.param 738) false,
      .assign 739 (.param 739) false,
      .assign 740 (.param 740) false,
      .assign 741 (.param 741) false,
      .assign 742 (.param 742) false] },
  methods := [{ name := 743, isProp := false, events := [.escape, .ret false false] },
    { name := 7, isProp := false, events := [.use 166, .raise true false, .use 726, .use 727, .use 728, .use 55, .use 729, .use 730, .use 732, .use 733, .use 734, .write 744, .callSelf 743, .callSelf 724, .use 742, .write 745, .use 744, .use 745, .write 11, .ret false true] },
    { name := 2, isProp := false, events := [.callSelf 10, .use 744, .use 745, .ret false false] }],
  classAttrs := [],
  getImpl := .inherit, setImpl := .inherit,
  hooks := false }
/-- TSInterpolator  (sktime/transformations/panel/interpolate.py:9) -/
def c746 : ClassEntry Nat := {
  name := 746, external := false,
  mro := [746, 226, 66, 18, 19],
  init := some {
    params := [(747, false)],
    varargs := false,
    body := [.raiseIf,
      .assign 747 (.param 747) false,
      .superCall none [] [] false false] },
  methods := [{ name := 748, isProp := false, events := [.use 747, .ret false false] },
    { name := 749, isProp := false, events := [.use 748, .ret false false] },
    { name := 2, isProp := false, events := [.callSelf 10, .use 749, .ret false false] }],
  classAttrs := [750],
  getImpl := .inherit, setImpl := .inherit,
  hooks := false }
/-- TSRStrategy  (sktime/benchmarking/strategies.py:274) -/
def c751 : ClassEntry Nat := {
  name := 751, external := false,
  mro := [751, 175, 158, 18, 19],
  init := some {
    params := [(159, false), (160, true)],
    varargs := false,
    body := [.assign 170 (.const 259) false,
      .assign 164 (.const 260) false,
      .superCall none [(.param 159)] [(160, (.param 160))] false false] },
  methods := [],
  classAttrs := [],
  getImpl := .inherit, setImpl := .inherit,
  hooks := false }
/-- TabularToSeriesAdaptor  (sktime/transformations/series/adapt.py:34) -/
def c752 : ClassEntry Nat := {
  name := 752, external := false,
  mro := [752, 65, 66, 18, 19],
  init := some {
    params := [(400, false)],
    varargs := false,
    body := [.assign 400 (.param 400) false,
      .assign 515 (.const 261) false,
      .superCall none [] [] false false] },
  methods := [{ name := 7, isProp := false, events := [.use 400, .write 515, .use 515, .write 11, .ret false true] },
    { name := 3, isProp := false, events := [.callSelf 10, .use 515, .ret false false] },
    { name := 2, isProp := false, events := [.callSelf 10, .use 515, .ret false false] }],
  classAttrs := [231, 72],
  getImpl := .inherit, setImpl := .inherit,
  hooks := false }
/-- Tabularizer  (sktime/transformations/panel/reduce.py:18) -/
def c753 : ClassEntry Nat := {
  name := 753, external := false,
  mro := [753, 219, 66, 18, 19],
  init := none,
  methods := [{ name := 3, isProp := false, events := [.callSelf 10, .ret false false] },
    { name := 2, isProp := false, events := [.callSelf 10, .ret true false, .ret true false] }],
  classAttrs := [],
  getImpl := .inherit, setImpl := .inherit,
  hooks := false }
/-- TemporalDictionaryEnsemble  (sktime/classification/dictionary_based/_tde.py:26) -/
def c754 : ClassEntry Nat := {
  name := 754, external := false,
  mro := [754, 100, 18, 19],
  init := some {
    params := [(267, true), (102, true), (268, true), (103, true), (104, true), (755, true), (414, true), (415, true), (416, true), (55, true), (61, true)],
    varargs := false,
    body := [.assign 267 (.param 267) false,
      .assign 102 (.param 102) false,
      .assign 103 (.param 103) false,
      .assign 268 (.param 268) false,
      .assign 755 (.param 755) false,
      .assign 414 (.param 414) false,
      .assign 55 (.param 55) false,
      .assign 61 (.param 61) false,
      .assign 415 (.param 415) false,
      .assign 416 (.param 416) false,
      .assign 105 (.const 262) false,
      .assign 269 (.const 263) false,
      .assign 270 (.const 264) false,
      .assign 106 (.const 265) false,
      .assign 107 (.const 266) false,
      .assign 108 (.const 267) false,
      .assign 109 (.const 268) false,
      .assign 110 (.const 269) false,
      .assign 209 (.const 270) false,
      .assign 111 (.const 271) false,
      .assign 756 (.const 272) false,
      .assign 757 (.const 273) false,
      .assign 112 (.const 274) false,
      .assign 113 (.const 275) false,
      .assign 104 (.param 104) false,
      .assign 412 (.const 276) false,
      .assign 758 (.const 277) false,
      .assign 114 (.const 278) false,
      .superCall none [] [] false false] },
  methods := [{ name := 115, isProp := false, events := [.use 106, .use 106, .use 105, .use 55, .use 105, .use 269, .use 108, .use 269, .use 106, .use 106, .use 106, .ret false false] },
    { name := 117, isProp := false, events := [.use 55, .use 55, .ret true false, .ret true false, .ret false false] },
    { name := 271, isProp := false, events := [.use 113, .use 104, .use 112, .use 412, .use 758, .ret false false] },
    { name := 118, isProp := false, events := [.use 105, .ret false false] },
    { name := 7, isProp := false, events := [.use 268, .write 268, .write 111, .write 209, .write 110, .write 106, .write 107, .use 107, .use 108, .write 108, .write 105, .write 269, .write 756, .write 757, .use 110, .use 110, .use 103, .use 104, .callSelf 271, .use 111, .use 268, .write 267, .use 104, .use 104, .use 272, .use 110, .raise true true, .use 61, .use 414, .use 209, .use 414, .use 268, .use 267, .use 755, .use 61, .use 756, .use 757, .use 111, .use 114, .use 415, .use 416, .use 61, .callSelf 117, .use 102, .use 269, .use 105, .use 269, .write 269, .use 105, .write 105, .callSelf 118, .use 756, .use 757, .use 105, .write 109, .use 269, .write 270, .write 11, .ret false true] },
    { name := 0, isProp := false, events := [.use 61, .callSelf 1, .use 107, .ret false false] },
    { name := 1, isProp := false, events := [.callSelf 10, .use 106, .use 105, .use 269, .use 108, .use 106, .use 270, .ret false false] }],
  classAttrs := [119],
  getImpl := .inherit, setImpl := .inherit,
  hooks := false }
/-- ThetaForecaster  (sktime/forecasting/theta.py:19) -/
def c759 : ClassEntry Nat := {
  name := 759, external := false,
  mro := [759, 336, 74, 15, 16, 17, 18, 19],
  init := some {
    params := [(78, true), (760, true), (47, true)],
    varargs := false,
    body := [.assign 47 (.param 47) false,
      .assign 760 (.param 760) false,
      .assign 761 (.const 279) false,
      .assign 762 (.const 280) false,
      .assign 763 (.const 281) false,
      .assign 764 (.const 282) false,
      .assign 765 (.const 283) false,
      .superCall none [] [(78, (.param 78)), (47, (.param 47))] false false] },
  methods := [{ name := 766, isProp := false, events := [.use 363, .use 152, .use 763, .use 762, .use 434, .use 762, .use 763, .use 763, .ret false false] },
    { name := 361, isProp := false, events := [.callSelf 10, .use 434, .use 93, .write 767, .use 767, .use 363, .use 152, .use 763, .use 363, .use 152, .ret false false] },
    { name := 768, isProp := false, events := [.ret false false] },
    { name := 329, isProp := false, events := [.callSuper 329, .callSelf 766, .use 760, .use 761, .callSelf 141, .ret true false, .ret false false] },
    { name := 7, isProp := false, events := [.use 47, .use 760, .use 760, .use 47, .write 761, .use 761, .use 78, .write 77, .callSuper 7, .use 93, .write 763, .callSelf 768, .write 762, .write 11, .ret false true] },
    { name := 4, isProp := false, events := [.callSuper 4, .use 760, .use 761, .use 434, .use 93, .write 763, .callSelf 768, .write 762, .ret false true] }],
  classAttrs := [338],
  getImpl := .inherit, setImpl := .inherit,
  hooks := false }
/-- TimeSeriesForestClassifier  (sktime/classification/interval_based/_tsf.py:23) -/
def c769 : ClassEntry Nat := {
  name := 769, external := false,
  mro := [769, 198, 206, 100, 18, 19],
  init := none,
  methods := [{ name := 0, isProp := false, events := [.callSelf 1, .use 107, .ret false false] },
    { name := 1, isProp := false, events := [.callSelf 10, .use 110, .raise true true, .use 55, .use 109, .use 132, .use 201, .use 106, .use 109, .ret false false] }],
  classAttrs := [770],
  getImpl := .inherit, setImpl := .inherit,
  hooks := false }
/-- TimeSeriesForestRegressor  (sktime/regression/interval_based/_tsf.py:23) -/
def c771 : ClassEntry Nat := {
  name := 771, external := false,
  mro := [771, 198, 772, 157, 18, 19],
  init := none,
  methods := [{ name := 0, isProp := false, events := [.callSelf 10, .use 110, .raise true true, .use 55, .use 109, .use 132, .use 201, .ret false false] }],
  classAttrs := [770],
  getImpl := .inherit, setImpl := .inherit,
  hooks := false }
/-- TransformedTargetForecaster  (sktime/forecasting/compose/_pipeline.py:21) -/
def c773 : ClassEntry Nat := {
  name := 773, external := false,
  mro := [773, 15, 16, 17, 125, 65, 66, 18, 19],
  init := some {
    params := [(774, false)],
    varargs := false,
    body := [.assign 774 (.param 774) false,
      .assign 775 (.const 284) false,
      .superCall none [] [] false false] },
  methods := [{ name := 776, isProp := false, events := [.use 774, .ret false false] },
    { name := 777, isProp := false, events := [.use 774, .callSelf 136, .raise true false, .use 166, .raise true false, .use 774, .ret false false] },
    { name := 778, isProp := false, events := [.use 775] },
    { name := 329, isProp := false, events := [.use 775, .callSelf 778, .ret false false] },
    { name := 7, isProp := false, events := [.callSelf 777, .write 775, .callSelf 330, .callSelf 331, .callSelf 778, .use 775, .write 775, .use 774, .use 775, .write 775, .write 11, .ret false true] },
    { name := 167, isProp := false, events := [.callSelf 228, .ret false false] },
    { name := 3, isProp := false, events := [.callSelf 10, .callSelf 778, .ret false false] },
    { name := 779, isProp := true, events := [.use 774, .ret false false] },
    { name := 230, isProp := false, events := [.callSelf 229, .ret false true] },
    { name := 2, isProp := false, events := [.callSelf 10, .callSelf 778, .ret false false] },
    { name := 4, isProp := false, events := [.callSelf 10, .callSelf 334, .callSelf 778, .use 775, .write 775, .use 775, .use 775, .write 775, .ret false true] }],
  classAttrs := [231, 72],
  getImpl := .viaMeta 774, setImpl := .viaMeta 774,
  hooks := false }
/-- TruncationTransformer  (sktime/transformations/panel/truncation.py:11) -/
def c780 : ClassEntry Nat := {
  name := 780, external := false,
  mro := [780, 226, 66, 18, 19],
  init := some {
    params := [(781, true), (782, true)],
    varargs := false,
    body := [.assign 781 (.param 781) false,
      .assign 782 (.param 782) false,
      .assign 529 (.param 781) false,
      .superCall none [] [] false false] },
  methods := [{ name := 7, isProp := false, events := [.use 781, .callSelf 783, .write 784, .use 781, .write 784, .write 11, .ret false true] },
    { name := 783, isProp := false, events := [.ret true false, .ret false false] },
    { name := 2, isProp := false, events := [.callSelf 10, .callSelf 783, .use 784, .raise true true, .use 782, .use 784, .use 784, .use 782, .ret false false] }],
  classAttrs := [],
  getImpl := .inherit, setImpl := .inherit,
  hooks := false }
/-- WEASEL  (sktime/classification/dictionary_based/_weasel.py:30) -/
def c785 : ClassEntry Nat := {
  name := 785, external := false,
  mro := [785, 100, 18, 19],
  init := some {
    params := [(443, true), (414, true), (786, true), (444, true), (445, true), (55, true), (61, true)],
    varargs := false,
    body := [.assign 114 (.const 285) false,
      .assign 445 (.param 445) false,
      .assign 443 (.param 443) false,
      .assign 113 (.const 286) false,
      .assign 112 (.const 287) false,
      .assign 414 (.param 414) false,
      .assign 786 (.param 786) false,
      .assign 61 (.param 61) false,
      .assign 104 (.const 288) false,
      .assign 272 (.const 289) false,
      .assign 444 (.param 444) false,
      .assign 448 (.const 290) false,
      .assign 449 (.const 291) false,
      .assign 110 (.const 292) false,
      .assign 111 (.const 293) false,
      .assign 452 (.const 294) false,
      .assign 453 (.const 295) false,
      .assign 55 (.param 55) false,
      .assign 107 (.const 296) false,
      .superCall none [] [] false false] },
  methods := [{ name := 455, isProp := false, events := [.callSelf 10, .use 452, .use 448, .ret false false] },
    { name := 456, isProp := false, events := [.use 444, .use 110, .ret false false] },
    { name := 7, isProp := false, events := [.write 111, .write 110, .write 107, .callSelf 456, .use 110, .use 272, .write 272, .use 104, .use 272, .use 104, .use 272, .use 110, .raise true true, .use 104, .use 272, .write 449, .use 272, .write 448, .use 112, .use 114, .use 113, .use 443, .use 786, .use 414, .use 445, .use 445, .use 448, .ret true false, .use 55, .use 449, .use 452, .use 61, .write 453, .use 453, .write 11, .ret false true] },
    { name := 0, isProp := false, events := [.callSelf 10, .callSelf 455, .use 453, .ret false false] },
    { name := 1, isProp := false, events := [.callSelf 10, .callSelf 455, .use 453, .ret false false] },
    { name := 457, isProp := false, events := [.ret false false] }],
  classAttrs := [119],
  getImpl := .inherit, setImpl := .inherit,
  hooks := false }
/-- _AsymmetricErrorMixin  (sktime/performance_metrics/forecasting/_classes.py:165) -/
def c470 : ClassEntry Nat := {
  name := 470, external := false,
  mro := [470],
  init := none,
  methods := [{ name := 789, isProp := false, events := [.use 787, .use 472, .use 473, .callSelf 788, .ret false false] }],
  classAttrs := [],
  getImpl := .inherit, setImpl := .inherit,
  hooks := false }
/-- _AsymmetricMetricFunctionWrapper  (sktime/performance_metrics/forecasting/_classes.py:264) -/
def c469 : ClassEntry Nat := {
  name := 469, external := false,
  mro := [469, 470, 353, 19],
  init := some {
    params := [(354, false), (160, true), (355, true), (471, true), (472, true), (473, true)],
    varargs := false,
    body := [.assign 471 (.param 471) false,
      .assign 472 (.param 472) false,
      .assign 473 (.param 473) false,
      .superCall none [] [(354, (.param 354)), (160, (.param 160)), (355, (.param 355))] false false] },
  methods := [],
  classAttrs := [],
  getImpl := .inherit, setImpl := .inherit,
  hooks := false }
/-- _BaseWindowForecaster  (sktime/forecasting/base/_sktime.py:589) -/
def c302 : ClassEntry Nat := {
  name := 302, external := false,
  mro := [302, 16, 17, 18, 19],
  init := some {
    params := [(385, true)],
    varargs := false,
    body := [.superCall none [] [] false false,
      .assign 385 (.param 385) false,
      .assign 507 (.const 297) false] },
  methods := [{ name := 504, isProp := false, events := [.use 152, .use 507, .use 434, .use 790, .use 790, .ret false false] },
    { name := 329, isProp := false, events := [.raise true false, .use 152, .use 152, .callSelf 791, .ret true false, .use 152, .use 152, .callSelf 792, .ret true false, .use 152, .callSelf 792, .use 152, .callSelf 791, .ret true false] },
    { name := 791, isProp := false, events := [.callSelf 508, .use 152, .ret false false] },
    { name := 792, isProp := false, events := [.use 434, .use 152, .use 507, .callSelf 512, .ret false false] },
    { name := 508, isProp := false, events := [.raise false false] },
    { name := 505, isProp := false, events := [.ret false false] },
    { name := 793, isProp := false, events := [.raise true false, .callSelf 4, .callSelf 329, .ret false false] },
    { name := 5, isProp := false, events := [.use 363, .use 152, .use 507, .callSelf 512, .ret false false] }],
  classAttrs := [],
  getImpl := .inherit, setImpl := .inherit,
  hooks := false }
/-- _CachedTransformer  (sktime/classification/distance_based/_proximity_forest.py:55) -/
def c794 : ClassEntry Nat := {
  name := 794, external := false,
  mro := [794, 226, 66, 18, 19],
  init := some {
    params := [(400, false)],
    varargs := false,
    body := [.assign 795 (.const 298) false,
      .assign 400 (.param 400) false,
      .superCall none [] [] false false] },
  methods := [{ name := 796, isProp := false, events := [.use 400, .ret false false] },
    { name := 797, isProp := false, events := [.write 795] },
    { name := 2, isProp := false, events := [.use 795, .use 400, .use 795, .ret false false] }],
  classAttrs := [231],
  getImpl := .inherit, setImpl := .inherit,
  hooks := false }
/-- _DirRecReducer  (sktime/forecasting/compose/_reduce.py:440) -/
def c299 : ClassEntry Nat := {
  name := 299, external := false,
  mro := [299, 300, 301, 302, 16, 17, 18, 19],
  init := none,
  methods := [{ name := 8, isProp := false, events := [.use 166, .raise true false, .use 363, .use 152, .raise true true, .callSelf 295, .use 303, .write 132, .use 363, .use 159, .use 303, .use 132, .write 11, .ret false true] },
    { name := 508, isProp := false, events := [.use 166, .raise true false, .callSelf 504, .callSelf 798, .callSelf 505, .ret true false, .use 507, .use 363, .use 363, .use 303, .use 132, .ret false false] },
    { name := 295, isProp := false, events := [.use 363, .use 152, .use 385, .use 303, .ret false false] }],
  classAttrs := [147],
  getImpl := .inherit, setImpl := .inherit,
  hooks := false }
/-- _DirectReducer  (sktime/forecasting/compose/_reduce.py:204) -/
def c306 : ClassEntry Nat := {
  name := 306, external := false,
  mro := [306, 300, 301, 302, 16, 17, 18, 19],
  init := none,
  methods := [{ name := 8, isProp := false, events := [.use 363, .use 152, .raise true true, .callSelf 295, .write 132, .use 363, .use 159, .use 132, .ret false true] },
    { name := 508, isProp := false, events := [.callSelf 504, .callSelf 798, .callSelf 505, .ret true false, .use 790, .use 790, .use 507, .use 790, .use 303, .use 132, .ret false false] },
    { name := 295, isProp := false, events := [.use 363, .use 152, .use 385, .use 303, .ret false false] }],
  classAttrs := [147],
  getImpl := .inherit, setImpl := .inherit,
  hooks := false }
/-- _HeterogenousEnsembleForecaster  (sktime/forecasting/base/_meta.py:18) -/
def c325 : ClassEntry Nat := {
  name := 325, external := false,
  mro := [325, 16, 17, 125, 18, 19],
  init := some {
    params := [(326, false), (55, true)],
    varargs := false,
    body := [.assign 326 (.param 326) false,
      .assign 335 (.const 299) false,
      .assign 55 (.param 55) false,
      .superCall none [] [] false false] },
  methods := [{ name := 332, isProp := false, events := [.use 326, .use 326, .use 326, .raise true true, .use 326, .callSelf 136, .raise true false, .raise true false, .ret false false] },
    { name := 333, isProp := false, events := [.ret true false, .use 55, .write 335] },
    { name := 328, isProp := false, events := [.raise true false, .use 335, .ret false false] },
    { name := 167, isProp := false, events := [.callSelf 228, .ret false false] },
    { name := 230, isProp := false, events := [.callSelf 229, .ret false true] }],
  classAttrs := [231],
  getImpl := .viaMeta 326, setImpl := .viaMeta 326,
  hooks := false }
/-- _HeterogenousMetaEstimator  (sktime/base/_meta.py:13) -/
def c125 : ClassEntry Nat := {
  name := 125, external := false,
  mro := [125, 18, 19],
  init := none,
  methods := [{ name := 136, isProp := false, events := [.raise true false, .callSelf 167, .raise true false, .raise true false] },
    { name := 228, isProp := false, events := [.callSuper 167, .ret true false, .escape, .ret false false] },
    { name := 799, isProp := false, events := [.escape, .escape] },
    { name := 229, isProp := false, events := [.escape, .escape, .callSelf 799, .callSuper 230, .ret false true] },
    { name := 167, isProp := false, events := [.raise false false] },
    { name := 230, isProp := false, events := [.raise false false] }],
  classAttrs := [],
  getImpl := .abstr, setImpl := .abstr,
  hooks := false }
/-- _MetricFunctionWrapper  (sktime/performance_metrics/forecasting/_classes.py:48) -/
def c353 : ClassEntry Nat := {
  name := 353, external := false,
  mro := [353, 19],
  init := some {
    params := [(354, false), (160, true), (355, true)],
    varargs := false,
    body := [.assign 788 (.param 354) false,
      .assign 160 (.derived 300) false,
      .assign 355 (.param 355) false] },
  methods := [{ name := 789, isProp := false, events := [.callSelf 788, .ret false false] }],
  classAttrs := [],
  getImpl := .inherit, setImpl := .inherit,
  hooks := false }
/-- _MultioutputReducer  (sktime/forecasting/compose/_reduce.py:288) -/
def c496 : ClassEntry Nat := {
  name := 496, external := false,
  mro := [496, 300, 301, 302, 16, 17, 18, 19],
  init := none,
  methods := [{ name := 8, isProp := false, events := [.use 363, .use 152, .raise true true, .callSelf 295, .use 159, .write 185, .use 185, .ret false true] },
    { name := 508, isProp := false, events := [.callSelf 504, .callSelf 798, .callSelf 505, .ret true false, .use 790, .use 790, .use 507, .use 790, .use 303, .use 185, .ret false false] },
    { name := 295, isProp := false, events := [.use 363, .use 152, .use 385, .use 303, .ret false false] }],
  classAttrs := [147],
  getImpl := .inherit, setImpl := .inherit,
  hooks := false }
/-- _OptionalForecastingHorizonMixin  (sktime/forecasting/base/_sktime.py:502) -/
def c15 : ClassEntry Nat := {
  name := 15, external := false,
  mro := [15],
  init := none,
  methods := [{ name := 331, isProp := false, events := [.use 12, .use 800, .raise true true, .write 800] }],
  classAttrs := [],
  getImpl := .inherit, setImpl := .inherit,
  hooks := false }
/-- _PanelToPanelTransformer  (sktime/transformations/base.py:121) -/
def c226 : ClassEntry Nat := {
  name := 226, external := false,
  mro := [226, 66, 18, 19],
  init := none,
  methods := [{ name := 2, isProp := false, events := [.raise false false] }],
  classAttrs := [],
  getImpl := .inherit, setImpl := .inherit,
  hooks := false }
/-- _PanelToTabularTransformer  (sktime/transformations/base.py:114) -/
def c219 : ClassEntry Nat := {
  name := 219, external := false,
  mro := [219, 66, 18, 19],
  init := none,
  methods := [{ name := 2, isProp := false, events := [.raise false false] }],
  classAttrs := [],
  getImpl := .inherit, setImpl := .inherit,
  hooks := false }
/-- _PercentageErrorMixin  (sktime/performance_metrics/forecasting/_classes.py:78) -/
def c464 : ClassEntry Nat := {
  name := 464, external := false,
  mro := [464],
  init := none,
  methods := [{ name := 789, isProp := false, events := [.use 465, .callSelf 788, .ret false false] }],
  classAttrs := [],
  getImpl := .inherit, setImpl := .inherit,
  hooks := false }
/-- _PercentageMetricFunctionWrapper  (sktime/performance_metrics/forecasting/_classes.py:236) -/
def c463 : ClassEntry Nat := {
  name := 463, external := false,
  mro := [463, 464, 353, 19],
  init := some {
    params := [(354, false), (160, true), (355, true), (465, true)],
    varargs := false,
    body := [.assign 465 (.param 465) false,
      .superCall none [] [(354, (.param 354)), (160, (.param 160)), (355, (.param 355))] false false] },
  methods := [],
  classAttrs := [],
  getImpl := .inherit, setImpl := .inherit,
  hooks := false }
/-- _PmdArimaAdapter  (sktime/forecasting/base/adapters/_pmdarima.py:15) -/
def c14 : ClassEntry Nat := {
  name := 14, external := false,
  mro := [14, 15, 16, 17, 18, 19],
  init := some {
    params := [],
    varargs := false,
    body := [.assign 92 (.const 301) false,
      .superCall none [] [] false false] },
  methods := [{ name := 801, isProp := false, events := [.use 92, .use 92, .ret true false, .use 92, .use 92, .ret true false, .raise true true] },
    { name := 802, isProp := false, events := [.use 92, .use 92, .ret true false, .use 92, .use 92, .ret true false, .raise true true] },
    { name := 32, isProp := false, events := [.raise false false] },
    { name := 329, isProp := false, events := [.use 152, .use 152, .use 152, .callSelf 791, .ret true false, .use 152, .callSelf 792, .ret true false, .callSelf 792, .callSelf 791, .ret true false] },
    { name := 791, isProp := false, events := [.use 152, .use 92, .use 152, .use 152, .ret true false, .ret true false] },
    { name := 792, isProp := false, events := [.raise true false, .use 434, .use 152, .use 92, .use 152, .use 152, .ret true false, .ret true false] },
    { name := 7, isProp := false, events := [.callSelf 330, .callSelf 331, .callSelf 32, .write 92, .use 92, .write 11, .ret false true] },
    { name := 142, isProp := false, events := [.callSelf 10, .callSelf 801, .callSelf 802, .ret false false] },
    { name := 95, isProp := false, events := [.use 92, .ret false false] }],
  classAttrs := [],
  getImpl := .inherit, setImpl := .inherit,
  hooks := false }
/-- _ProphetAdapter  (sktime/forecasting/base/adapters/_fbprophet.py:18) -/
def c537 : ClassEntry Nat := {
  name := 537, external := false,
  mro := [537, 15, 16, 17, 18, 19],
  init := none,
  methods := [{ name := 804, isProp := false, events := [.use 541, .use 541, .write 541, .use 541, .write 542, .write 803, .write 803, .ret false true] },
    { name := 805, isProp := false, events := [.use 92, .write 92, .use 553, .use 92, .write 92] },
    { name := 7, isProp := false, events := [.callSelf 32, .callSelf 804, .callSelf 330, .callSelf 331, .use 538, .use 92, .use 538, .use 539, .use 92, .use 539, .use 92, .use 127, .use 92, .use 92, .write 11, .ret false true] },
    { name := 142, isProp := false, events := [.callSelf 10, .use 92, .use 92, .ret false false] },
    { name := 0, isProp := false, events := [.callSelf 10, .callSelf 331, .callSelf 806, .use 363, .use 152, .raise true false, .callSelf 805, .use 92, .ret true false, .ret true false] }],
  classAttrs := [],
  getImpl := .inherit, setImpl := .inherit,
  hooks := false }
/-- _RandomEnumerationShapeletTransform  (sktime/transformations/panel/shapelets.py:1011) -/
def c807 : ClassEntry Nat := {
  name := 807, external := false,
  mro := [807, 274, 219, 66, 18, 19],
  init := none,
  methods := [],
  classAttrs := [],
  getImpl := .inherit, setImpl := .inherit,
  hooks := false }
/-- _RecursiveReducer  (sktime/forecasting/compose/_reduce.py:364) -/
def c601 : ClassEntry Nat := {
  name := 601, external := false,
  mro := [601, 15, 301, 302, 16, 17, 18, 19],
  init := none,
  methods := [{ name := 8, isProp := false, events := [.callSelf 295, .use 159, .write 185, .use 185, .ret false true] },
    { name := 508, isProp := false, events := [.use 790, .raise true true, .callSelf 504, .callSelf 798, .callSelf 505, .ret true false, .use 507, .use 152, .use 303, .use 185, .use 152, .ret false false] },
    { name := 295, isProp := false, events := [.use 507, .use 303, .ret false false] }],
  classAttrs := [147],
  getImpl := .inherit, setImpl := .inherit,
  hooks := false }
/-- _Reducer  (sktime/forecasting/compose/_reduce.py:144) -/
def c301 : ClassEntry Nat := {
  name := 301, external := false,
  mro := [301, 302, 16, 17, 18, 19],
  init := some {
    params := [(159, false), (385, true), (808, true)],
    varargs := false,
    body := [.superCall none [] [(385, (.param 385))] false false,
      .assign 159 (.param 159) false,
      .assign 808 (.param 808) false,
      .assign 809 (.const 302) false,
      .assign 810 (.const 303) false] },
  methods := [{ name := 8, isProp := false, events := [.raise false false] },
    { name := 798, isProp := false, events := [.use 507, .ret false false] },
    { name := 792, isProp := false, events := [.use 166, .raise false false] },
    { name := 7, isProp := false, events := [.callSelf 330, .callSelf 331, .use 808, .write 809, .use 385, .write 507, .callSelf 8, .write 11, .ret false true] }],
  classAttrs := [231],
  getImpl := .inherit, setImpl := .inherit,
  hooks := false }
/-- _RelativeLossMetricFunctionWrapper  (sktime/performance_metrics/forecasting/_classes.py:280) -/
def c604 : ClassEntry Nat := {
  name := 604, external := false,
  mro := [604, 605, 353, 19],
  init := some {
    params := [(354, false), (160, true), (355, true), (606, true)],
    varargs := false,
    body := [.assign 606 (.param 606) false,
      .superCall none [] [(354, (.param 354)), (160, (.param 160)), (355, (.param 355))] false false] },
  methods := [],
  classAttrs := [],
  getImpl := .inherit, setImpl := .inherit,
  hooks := false }
/-- _RelativeLossMixin  (sktime/performance_metrics/forecasting/_classes.py:194) -/
def c605 : ClassEntry Nat := {
  name := 605, external := false,
  mro := [605],
  init := none,
  methods := [{ name := 789, isProp := false, events := [.use 811, .callSelf 788, .ret false false] }],
  classAttrs := [],
  getImpl := .inherit, setImpl := .inherit,
  hooks := false }
/-- _RequiredForecastingHorizonMixin  (sktime/forecasting/base/_sktime.py:539) -/
def c300 : ClassEntry Nat := {
  name := 300, external := false,
  mro := [300],
  init := none,
  methods := [{ name := 331, isProp := false, events := [.use 166, .use 12, .raise true true, .use 12, .use 800, .raise true true, .write 800] }],
  classAttrs := [],
  getImpl := .inherit, setImpl := .inherit,
  hooks := false }
/-- _RowTransformer  (sktime/transformations/panel/compose.py:238) -/
def c678 : ClassEntry Nat := {
  name := 678, external := false,
  mro := [678, 66, 18, 19],
  init := some {
    params := [(400, false), (812, true)],
    varargs := false,
    body := [.assign 400 (.param 400) false,
      .assign 812 (.param 812) false,
      .superCall none [] [] false false] },
  methods := [{ name := 813, isProp := false, events := [.escape, .use 812, .use 400, .use 680, .use 680, .raise true true] },
    { name := 679, isProp := false, events := [.callSelf 10, .callSelf 813, .use 400, .write 515, .ret false false] }],
  classAttrs := [231, 72],
  getImpl := .inherit, setImpl := .inherit,
  hooks := false }
/-- _ScaledMetricFunctionWrapper  (sktime/performance_metrics/forecasting/_classes.py:221) -/
def c467 : ClassEntry Nat := {
  name := 467, external := false,
  mro := [467, 353, 19],
  init := some {
    params := [(354, false), (160, true), (355, true), (47, true)],
    varargs := false,
    body := [.assign 47 (.param 47) false,
      .superCall none [] [(354, (.param 354)), (160, (.param 160)), (355, (.param 355))] false false] },
  methods := [],
  classAttrs := [],
  getImpl := .inherit, setImpl := .inherit,
  hooks := false }
/-- _ScaledSquaredMetricFunctionWrapper  (sktime/performance_metrics/forecasting/_classes.py:227) -/
def c480 : ClassEntry Nat := {
  name := 480, external := false,
  mro := [480, 358, 353, 19],
  init := some {
    params := [(354, false), (160, true), (355, true), (47, true), (359, true)],
    varargs := false,
    body := [.assign 47 (.param 47) false,
      .assign 359 (.param 359) false,
      .superCall none [] [(354, (.param 354)), (160, (.param 160)), (355, (.param 355))] false false] },
  methods := [],
  classAttrs := [],
  getImpl := .inherit, setImpl := .inherit,
  hooks := false }
/-- _SeriesToPrimitivesTransformer  (sktime/transformations/base.py:100) -/
def c482 : ClassEntry Nat := {
  name := 482, external := false,
  mro := [482, 66, 18, 19],
  init := none,
  methods := [{ name := 2, isProp := false, events := [.raise false false] }],
  classAttrs := [],
  getImpl := .inherit, setImpl := .inherit,
  hooks := false }
/-- _SeriesToSeriesTransformer  (sktime/transformations/base.py:107) -/
def c65 : ClassEntry Nat := {
  name := 65, external := false,
  mro := [65, 66, 18, 19],
  init := none,
  methods := [{ name := 2, isProp := false, events := [.raise false false] }],
  classAttrs := [],
  getImpl := .inherit, setImpl := .inherit,
  hooks := false }
/-- _SktimeForecaster  (sktime/forecasting/base/_sktime.py:27) -/
def c16 : ClassEntry Nat := {
  name := 16, external := false,
  mro := [16, 17, 18, 19],
  init := some {
    params := [],
    varargs := false,
    body := [.assign 434 (.const 304) false,
      .assign 790 (.const 305) false,
      .assign 800 (.const 306) false,
      .assign 814 (.const 307) false,
      .superCall none [] [] false false] },
  methods := [{ name := 361, isProp := false, events := [.raise false false] },
    { name := 816, isProp := false, events := [.use 152, .callSelf 815] },
    { name := 817, isProp := false, events := [.use 363, .use 152, .use 434, .use 434, .use 434, .use 152, .use 152, .ret false false] },
    { name := 818, isProp := false, events := [.use 363, .use 152, .use 363, .use 152, .ret false false] },
    { name := 329, isProp := false, events := [.raise false false] },
    { name := 512, isProp := false, events := [.raise true false, .callSelf 816, .callSelf 815, .callSelf 793, .use 152, .ret false false] },
    { name := 815, isProp := false, events := [.write 814] },
    { name := 331, isProp := false, events := [.raise false false] },
    { name := 330, isProp := false, events := [.write 434, .write 790, .callSelf 815] },
    { name := 806, isProp := false, events := [.use 790, .write 790] },
    { name := 793, isProp := false, events := [.callSelf 4, .callSelf 0, .ret false false] },
    { name := 334, isProp := false, events := [.use 434, .write 434, .callSelf 815, .use 790, .write 790] },
    { name := 141, isProp := false, events := [.callSelf 361, .ret true false, .ret false false] },
    { name := 152, isProp := true, events := [.use 814, .ret false false] },
    { name := 363, isProp := true, events := [.use 800, .raise true true, .use 800, .ret false false] },
    { name := 7, isProp := false, events := [.raise false false] },
    { name := 0, isProp := false, events := [.callSelf 10, .callSelf 331, .use 363, .callSelf 329, .ret false false] },
    { name := 4, isProp := false, events := [.callSelf 10, .callSelf 334, .use 166, .use 166, .use 434, .use 790, .use 363, .callSelf 7, .ret false true] },
    { name := 5, isProp := false, events := [.raise true false, .use 363, .callSelf 512, .ret false false] },
    { name := 143, isProp := false, events := [.callSelf 10, .callSelf 331, .use 363, .callSelf 793, .ret false false] }],
  classAttrs := [],
  getImpl := .inherit, setImpl := .inherit,
  hooks := false }
/-- _SquaredErrorMixin  (sktime/performance_metrics/forecasting/_classes.py:105) -/
def c358 : ClassEntry Nat := {
  name := 358, external := false,
  mro := [358],
  init := none,
  methods := [{ name := 789, isProp := false, events := [.use 359, .callSelf 788, .ret false false] }],
  classAttrs := [],
  getImpl := .inherit, setImpl := .inherit,
  hooks := false }
/-- _SquaredMetricFunctionWrapper  (sktime/performance_metrics/forecasting/_classes.py:242) -/
def c357 : ClassEntry Nat := {
  name := 357, external := false,
  mro := [357, 358, 353, 19],
  init := some {
    params := [(354, false), (160, true), (355, true), (359, true)],
    varargs := false,
    body := [.assign 359 (.param 359) false,
      .superCall none [] [(354, (.param 354)), (160, (.param 160)), (355, (.param 355))] false false] },
  methods := [],
  classAttrs := [],
  getImpl := .inherit, setImpl := .inherit,
  hooks := false }
/-- _SquaredPercentageErrorMixin  (sktime/performance_metrics/forecasting/_classes.py:132) -/
def c478 : ClassEntry Nat := {
  name := 478, external := false,
  mro := [478],
  init := none,
  methods := [{ name := 789, isProp := false, events := [.use 465, .use 359, .callSelf 788, .ret false false] }],
  classAttrs := [],
  getImpl := .inherit, setImpl := .inherit,
  hooks := false }
/-- _SquaredPercentageMetricFunctionWrapper  (sktime/performance_metrics/forecasting/_classes.py:248) -/
def c477 : ClassEntry Nat := {
  name := 477, external := false,
  mro := [477, 478, 353, 19],
  init := some {
    params := [(354, false), (160, true), (355, true), (359, true), (465, true)],
    varargs := false,
    body := [.assign 359 (.param 359) false,
      .assign 465 (.param 465) false,
      .superCall none [] [(354, (.param 354)), (160, (.param 160)), (355, (.param 355))] false false] },
  methods := [],
  classAttrs := [],
  getImpl := .inherit, setImpl := .inherit,
  hooks := false }
/-- _StatsModelsAdapter  (sktime/forecasting/base/adapters/_statsmodels.py:15) -/
def c74 : ClassEntry Nat := {
  name := 74, external := false,
  mro := [74, 15, 16, 17, 18, 19],
  init := some {
    params := [],
    varargs := false,
    body := [.assign 92 (.const 308) false,
      .assign 93 (.const 309) false,
      .superCall none [] [] false false] },
  methods := [{ name := 94, isProp := false, events := [.raise false false] },
    { name := 801, isProp := false, events := [.use 338, .ret false false] },
    { name := 329, isProp := false, events := [.raise true false, .use 434, .use 152, .use 93, .use 152, .ret false false] },
    { name := 7, isProp := false, events := [.callSelf 330, .callSelf 331, .callSelf 94, .write 11, .ret false true] },
    { name := 142, isProp := false, events := [.callSelf 10, .callSelf 801, .use 93, .ret false false] }],
  classAttrs := [338],
  getImpl := .inherit, setImpl := .inherit,
  hooks := false }
/-- _TSFreshFeatureExtractor  (sktime/transformations/panel/tsfresh.py:20) -/
def c723 : ClassEntry Nat := {
  name := 723, external := false,
  mro := [723, 219, 66, 18, 19],
  init := some {
    params := [(726, true), (727, true), (728, true), (55, true), (729, true), (730, true), (731, true), (732, true), (733, true), (734, true), (735, true)],
    varargs := false,
    body := [.assign 726 (.param 726) false,
      .assign 727 (.param 727) false,
      .assign 55 (.param 55) false,
      .assign 728 (.param 728) false,
      .assign 729 (.param 729) false,
      .assign 730 (.param 730) false,
      .assign 731 (.param 731) false,
      .assign 732 (.param 732) false,
      .assign 734 (.param 734) false,
      .assign 733 (.param 733) false,
      .assign 735 (.param 735) false,
      .assign 819 (.const 310) false,
      .superCall none [] [] false false] },
  methods := [{ name := 724, isProp := false, events := [.use 55, .write 55, .use 727, .escape, .escape, .use 726, .use 726, .use 726, .raise true true, .use 726, .use 726, .ret false false] },
    { name := 7, isProp := false, events := [.callSelf 724, .write 819, .write 11, .ret false true] }],
  classAttrs := [],
  getImpl := .inherit, setImpl := .inherit,
  hooks := false }
/-- _TbatsAdapter  (sktime/forecasting/base/adapters/_tbats.py:18) -/
def c97 : ClassEntry Nat := {
  name := 97, external := false,
  mro := [97, 15, 16, 17, 18, 19],
  init := some {
    params := [(820, true), (821, true), (822, true), (823, true), (47, true), (824, true), (729, true), (55, true), (825, true), (826, true)],
    varargs := false,
    body := [.assign 820 (.param 820) false,
      .assign 821 (.param 821) false,
      .assign 822 (.param 822) false,
      .assign 823 (.param 823) false,
      .assign 47 (.param 47) false,
      .assign 824 (.param 824) false,
      .assign 729 (.param 729) false,
      .assign 55 (.param 55) false,
      .assign 825 (.param 825) false,
      .assign 826 (.param 826) false,
      .assign 92 (.const 311) false,
      .superCall none [] [] false false] },
  methods := [{ name := 32, isProp := false, events := [.use 55, .use 47, .use 820, .use 821, .use 822, .use 823, .use 824, .use 729, .use 825, .use 826, .callSelf 98, .ret false false] },
    { name := 329, isProp := false, events := [.use 152, .use 152, .use 152, .use 92, .callSelf 817, .use 92, .callSelf 818, .ret true false, .ret true false] },
    { name := 7, isProp := false, events := [.callSelf 330, .callSelf 331, .callSelf 32, .write 92, .use 92, .write 92, .write 11, .ret false true] }],
  classAttrs := [],
  getImpl := .inherit, setImpl := .inherit,
  hooks := false }
/-- ext:sklearn.base.BaseEstimator  (None:0) -/
def c19 : ClassEntry Nat := {
  name := 19, external := true,
  mro := [19],
  init := none,
  methods := [],
  classAttrs := [],
  getImpl := .inherit, setImpl := .inherit,
  hooks := false }
/-- ext:sklearn.compose.ColumnTransformer  (None:0) -/
def c233 : ClassEntry Nat := {
  name := 233, external := true,
  mro := [233],
  init := none,
  methods := [],
  classAttrs := [],
  getImpl := .viaMeta 827, setImpl := .viaMeta 827,
  hooks := false }
/-- ext:sklearn.ensemble._forest.BaseForest  (None:0) -/
def c177 : ClassEntry Nat := {
  name := 177, external := true,
  mro := [177],
  init := none,
  methods := [],
  classAttrs := [],
  getImpl := .inherit, setImpl := .inherit,
  hooks := false }
/-- ext:sklearn.ensemble._forest.ForestClassifier  (None:0) -/
def c206 : ClassEntry Nat := {
  name := 206, external := true,
  mro := [206],
  init := none,
  methods := [],
  classAttrs := [],
  getImpl := .inherit, setImpl := .inherit,
  hooks := false }
/-- ext:sklearn.ensemble._forest.ForestRegressor  (None:0) -/
def c772 : ClassEntry Nat := {
  name := 772, external := true,
  mro := [772],
  init := none,
  methods := [],
  classAttrs := [],
  getImpl := .inherit, setImpl := .inherit,
  hooks := false }
/-- ext:sklearn.neighbors.KNeighborsClassifier  (None:0) -/
def c423 : ClassEntry Nat := {
  name := 423, external := true,
  mro := [423],
  init := none,
  methods := [],
  classAttrs := [],
  getImpl := .inherit, setImpl := .inherit,
  hooks := false }
/-- ext:sklearn.pipeline.FeatureUnion  (None:0) -/
def c340 : ClassEntry Nat := {
  name := 340, external := true,
  mro := [340],
  init := none,
  methods := [],
  classAttrs := [],
  getImpl := .viaMeta 341, setImpl := .viaMeta 341,
  hooks := false }

def tbl : Table Nat := [c13, c33, c64, c73, c96, c99, c120, c100, c124, c18, c17, c144, c157, c158, c175, c176, c198, c66, c203, c205, c218, c221, c225, c227, c232, c241, c255, c257, c266, c273, c283, c284, c290, c258, c296, c298, c304, c305, c307, c308, c311, c324, c336, c339, c344, c347, c349, c352, c356, c360, c364, c377, c384, c390, c395, c411, c419, c422, c441, c442, c458, c460, c461, c462, c466, c468, c474, c475, c476, c479, c481, c483, c484, c485, c486, c487, c488, c489, c490, c494, c495, c497, c498, c503, c509, c513, c516, c519, c522, c527, c528, c532, c536, c555, c570, c582, c586, c590, c594, c595, c600, c602, c603, c607, c610, c631, c643, c650, c677, c681, c682, c274, c705, c707, c709, c712, c716, c720, c721, c722, c725, c746, c751, c752, c753, c754, c759, c769, c771, c773, c780, c785, c470, c469, c302, c794, c299, c306, c325, c125, c353, c496, c15, c226, c219, c464, c463, c14, c537, c807, c601, c301, c604, c605, c300, c678, c467, c480, c482, c65, c16, c358, c357, c478, c477, c74, c723, c97, c19, c233, c177, c206, c772, c423, c340]

#eval IO.println ("S 13 " ++ SkVerif.Drv.C04.showSummary (summarize tbl 11 7 [0, 1, 2, 3, 4, 5, 6] 13))
#eval IO.println ("S 33 " ++ SkVerif.Drv.C04.showSummary (summarize tbl 11 7 [0, 1, 2, 3, 4, 5, 6] 33))
#eval IO.println ("S 64 " ++ SkVerif.Drv.C04.showSummary (summarize tbl 11 7 [0, 1, 2, 3, 4, 5, 6] 64))
#eval IO.println ("S 73 " ++ SkVerif.Drv.C04.showSummary (summarize tbl 11 7 [0, 1, 2, 3, 4, 5, 6] 73))
#eval IO.println ("S 96 " ++ SkVerif.Drv.C04.showSummary (summarize tbl 11 7 [0, 1, 2, 3, 4, 5, 6] 96))
#eval IO.println ("S 99 " ++ SkVerif.Drv.C04.showSummary (summarize tbl 11 7 [0, 1, 2, 3, 4, 5, 6] 99))
#eval IO.println ("S 120 " ++ SkVerif.Drv.C04.showSummary (summarize tbl 11 7 [0, 1, 2, 3, 4, 5, 6] 120))
#eval IO.println ("S 100 " ++ SkVerif.Drv.C04.showSummary (summarize tbl 11 7 [0, 1, 2, 3, 4, 5, 6] 100))
#eval IO.println ("S 124 " ++ SkVerif.Drv.C04.showSummary (summarize tbl 11 7 [0, 1, 2, 3, 4, 5, 6] 124))
#eval IO.println ("S 18 " ++ SkVerif.Drv.C04.showSummary (summarize tbl 11 7 [0, 1, 2, 3, 4, 5, 6] 18))
#eval IO.println ("S 17 " ++ SkVerif.Drv.C04.showSummary (summarize tbl 11 7 [0, 1, 2, 3, 4, 5, 6] 17))
#eval IO.println ("S 144 " ++ SkVerif.Drv.C04.showSummary (summarize tbl 11 7 [0, 1, 2, 3, 4, 5, 6] 144))
#eval IO.println ("S 157 " ++ SkVerif.Drv.C04.showSummary (summarize tbl 11 7 [0, 1, 2, 3, 4, 5, 6] 157))
#eval IO.println ("S 158 " ++ SkVerif.Drv.C04.showSummary (summarize tbl 11 7 [0, 1, 2, 3, 4, 5, 6] 158))
#eval IO.println ("S 175 " ++ SkVerif.Drv.C04.showSummary (summarize tbl 11 7 [0, 1, 2, 3, 4, 5, 6] 175))
#eval IO.println ("S 176 " ++ SkVerif.Drv.C04.showSummary (summarize tbl 11 7 [0, 1, 2, 3, 4, 5, 6] 176))
#eval IO.println ("S 66 " ++ SkVerif.Drv.C04.showSummary (summarize tbl 11 7 [0, 1, 2, 3, 4, 5, 6] 66))
#eval IO.println ("S 203 " ++ SkVerif.Drv.C04.showSummary (summarize tbl 11 7 [0, 1, 2, 3, 4, 5, 6] 203))
#eval IO.println ("S 205 " ++ SkVerif.Drv.C04.showSummary (summarize tbl 11 7 [0, 1, 2, 3, 4, 5, 6] 205))
#eval IO.println ("S 218 " ++ SkVerif.Drv.C04.showSummary (summarize tbl 11 7 [0, 1, 2, 3, 4, 5, 6] 218))
#eval IO.println ("S 221 " ++ SkVerif.Drv.C04.showSummary (summarize tbl 11 7 [0, 1, 2, 3, 4, 5, 6] 221))
#eval IO.println ("S 225 " ++ SkVerif.Drv.C04.showSummary (summarize tbl 11 7 [0, 1, 2, 3, 4, 5, 6] 225))
#eval IO.println ("S 227 " ++ SkVerif.Drv.C04.showSummary (summarize tbl 11 7 [0, 1, 2, 3, 4, 5, 6] 227))
#eval IO.println ("S 232 " ++ SkVerif.Drv.C04.showSummary (summarize tbl 11 7 [0, 1, 2, 3, 4, 5, 6] 232))
#eval IO.println ("S 241 " ++ SkVerif.Drv.C04.showSummary (summarize tbl 11 7 [0, 1, 2, 3, 4, 5, 6] 241))
#eval IO.println ("S 255 " ++ SkVerif.Drv.C04.showSummary (summarize tbl 11 7 [0, 1, 2, 3, 4, 5, 6] 255))
#eval IO.println ("S 257 " ++ SkVerif.Drv.C04.showSummary (summarize tbl 11 7 [0, 1, 2, 3, 4, 5, 6] 257))
#eval IO.println ("S 266 " ++ SkVerif.Drv.C04.showSummary (summarize tbl 11 7 [0, 1, 2, 3, 4, 5, 6] 266))
#eval IO.println ("S 273 " ++ SkVerif.Drv.C04.showSummary (summarize tbl 11 7 [0, 1, 2, 3, 4, 5, 6] 273))
#eval IO.println ("S 283 " ++ SkVerif.Drv.C04.showSummary (summarize tbl 11 7 [0, 1, 2, 3, 4, 5, 6] 283))
#eval IO.println ("S 284 " ++ SkVerif.Drv.C04.showSummary (summarize tbl 11 7 [0, 1, 2, 3, 4, 5, 6] 284))
#eval IO.println ("S 290 " ++ SkVerif.Drv.C04.showSummary (summarize tbl 11 7 [0, 1, 2, 3, 4, 5, 6] 290))
#eval IO.println ("S 258 " ++ SkVerif.Drv.C04.showSummary (summarize tbl 11 7 [0, 1, 2, 3, 4, 5, 6] 258))
#eval IO.println ("S 296 " ++ SkVerif.Drv.C04.showSummary (summarize tbl 11 7 [0, 1, 2, 3, 4, 5, 6] 296))
#eval IO.println ("S 298 " ++ SkVerif.Drv.C04.showSummary (summarize tbl 11 7 [0, 1, 2, 3, 4, 5, 6] 298))
#eval IO.println ("S 304 " ++ SkVerif.Drv.C04.showSummary (summarize tbl 11 7 [0, 1, 2, 3, 4, 5, 6] 304))
#eval IO.println ("S 305 " ++ SkVerif.Drv.C04.showSummary (summarize tbl 11 7 [0, 1, 2, 3, 4, 5, 6] 305))
#eval IO.println ("S 307 " ++ SkVerif.Drv.C04.showSummary (summarize tbl 11 7 [0, 1, 2, 3, 4, 5, 6] 307))
#eval IO.println ("S 308 " ++ SkVerif.Drv.C04.showSummary (summarize tbl 11 7 [0, 1, 2, 3, 4, 5, 6] 308))
#eval IO.println ("S 311 " ++ SkVerif.Drv.C04.showSummary (summarize tbl 11 7 [0, 1, 2, 3, 4, 5, 6] 311))
#eval IO.println ("S 324 " ++ SkVerif.Drv.C04.showSummary (summarize tbl 11 7 [0, 1, 2, 3, 4, 5, 6] 324))
#eval IO.println ("S 336 " ++ SkVerif.Drv.C04.showSummary (summarize tbl 11 7 [0, 1, 2, 3, 4, 5, 6] 336))
#eval IO.println ("S 339 " ++ SkVerif.Drv.C04.showSummary (summarize tbl 11 7 [0, 1, 2, 3, 4, 5, 6] 339))
#eval IO.println ("S 344 " ++ SkVerif.Drv.C04.showSummary (summarize tbl 11 7 [0, 1, 2, 3, 4, 5, 6] 344))
#eval IO.println ("S 347 " ++ SkVerif.Drv.C04.showSummary (summarize tbl 11 7 [0, 1, 2, 3, 4, 5, 6] 347))
#eval IO.println ("S 349 " ++ SkVerif.Drv.C04.showSummary (summarize tbl 11 7 [0, 1, 2, 3, 4, 5, 6] 349))
#eval IO.println ("S 352 " ++ SkVerif.Drv.C04.showSummary (summarize tbl 11 7 [0, 1, 2, 3, 4, 5, 6] 352))
#eval IO.println ("S 356 " ++ SkVerif.Drv.C04.showSummary (summarize tbl 11 7 [0, 1, 2, 3, 4, 5, 6] 356))
#eval IO.println ("S 360 " ++ SkVerif.Drv.C04.showSummary (summarize tbl 11 7 [0, 1, 2, 3, 4, 5, 6] 360))
#eval IO.println ("S 364 " ++ SkVerif.Drv.C04.showSummary (summarize tbl 11 7 [0, 1, 2, 3, 4, 5, 6] 364))
#eval IO.println ("S 377 " ++ SkVerif.Drv.C04.showSummary (summarize tbl 11 7 [0, 1, 2, 3, 4, 5, 6] 377))
#eval IO.println ("S 384 " ++ SkVerif.Drv.C04.showSummary (summarize tbl 11 7 [0, 1, 2, 3, 4, 5, 6] 384))
#eval IO.println ("S 390 " ++ SkVerif.Drv.C04.showSummary (summarize tbl 11 7 [0, 1, 2, 3, 4, 5, 6] 390))
#eval IO.println ("S 395 " ++ SkVerif.Drv.C04.showSummary (summarize tbl 11 7 [0, 1, 2, 3, 4, 5, 6] 395))
#eval IO.println ("S 411 " ++ SkVerif.Drv.C04.showSummary (summarize tbl 11 7 [0, 1, 2, 3, 4, 5, 6] 411))
#eval IO.println ("S 419 " ++ SkVerif.Drv.C04.showSummary (summarize tbl 11 7 [0, 1, 2, 3, 4, 5, 6] 419))
#eval IO.println ("S 422 " ++ SkVerif.Drv.C04.showSummary (summarize tbl 11 7 [0, 1, 2, 3, 4, 5, 6] 422))
#eval IO.println ("S 441 " ++ SkVerif.Drv.C04.showSummary (summarize tbl 11 7 [0, 1, 2, 3, 4, 5, 6] 441))
#eval IO.println ("S 442 " ++ SkVerif.Drv.C04.showSummary (summarize tbl 11 7 [0, 1, 2, 3, 4, 5, 6] 442))
#eval IO.println ("S 458 " ++ SkVerif.Drv.C04.showSummary (summarize tbl 11 7 [0, 1, 2, 3, 4, 5, 6] 458))
#eval IO.println ("S 460 " ++ SkVerif.Drv.C04.showSummary (summarize tbl 11 7 [0, 1, 2, 3, 4, 5, 6] 460))
#eval IO.println ("S 461 " ++ SkVerif.Drv.C04.showSummary (summarize tbl 11 7 [0, 1, 2, 3, 4, 5, 6] 461))
#eval IO.println ("S 462 " ++ SkVerif.Drv.C04.showSummary (summarize tbl 11 7 [0, 1, 2, 3, 4, 5, 6] 462))
#eval IO.println ("S 466 " ++ SkVerif.Drv.C04.showSummary (summarize tbl 11 7 [0, 1, 2, 3, 4, 5, 6] 466))
#eval IO.println ("S 468 " ++ SkVerif.Drv.C04.showSummary (summarize tbl 11 7 [0, 1, 2, 3, 4, 5, 6] 468))
#eval IO.println ("S 474 " ++ SkVerif.Drv.C04.showSummary (summarize tbl 11 7 [0, 1, 2, 3, 4, 5, 6] 474))
#eval IO.println ("S 475 " ++ SkVerif.Drv.C04.showSummary (summarize tbl 11 7 [0, 1, 2, 3, 4, 5, 6] 475))
#eval IO.println ("S 476 " ++ SkVerif.Drv.C04.showSummary (summarize tbl 11 7 [0, 1, 2, 3, 4, 5, 6] 476))
#eval IO.println ("S 479 " ++ SkVerif.Drv.C04.showSummary (summarize tbl 11 7 [0, 1, 2, 3, 4, 5, 6] 479))
#eval IO.println ("S 481 " ++ SkVerif.Drv.C04.showSummary (summarize tbl 11 7 [0, 1, 2, 3, 4, 5, 6] 481))
#eval IO.println ("S 483 " ++ SkVerif.Drv.C04.showSummary (summarize tbl 11 7 [0, 1, 2, 3, 4, 5, 6] 483))
#eval IO.println ("S 484 " ++ SkVerif.Drv.C04.showSummary (summarize tbl 11 7 [0, 1, 2, 3, 4, 5, 6] 484))
#eval IO.println ("S 485 " ++ SkVerif.Drv.C04.showSummary (summarize tbl 11 7 [0, 1, 2, 3, 4, 5, 6] 485))
#eval IO.println ("S 486 " ++ SkVerif.Drv.C04.showSummary (summarize tbl 11 7 [0, 1, 2, 3, 4, 5, 6] 486))
#eval IO.println ("S 487 " ++ SkVerif.Drv.C04.showSummary (summarize tbl 11 7 [0, 1, 2, 3, 4, 5, 6] 487))
#eval IO.println ("S 488 " ++ SkVerif.Drv.C04.showSummary (summarize tbl 11 7 [0, 1, 2, 3, 4, 5, 6] 488))
#eval IO.println ("S 489 " ++ SkVerif.Drv.C04.showSummary (summarize tbl 11 7 [0, 1, 2, 3, 4, 5, 6] 489))
#eval IO.println ("S 490 " ++ SkVerif.Drv.C04.showSummary (summarize tbl 11 7 [0, 1, 2, 3, 4, 5, 6] 490))
#eval IO.println ("S 494 " ++ SkVerif.Drv.C04.showSummary (summarize tbl 11 7 [0, 1, 2, 3, 4, 5, 6] 494))
#eval IO.println ("S 495 " ++ SkVerif.Drv.C04.showSummary (summarize tbl 11 7 [0, 1, 2, 3, 4, 5, 6] 495))
#eval IO.println ("S 497 " ++ SkVerif.Drv.C04.showSummary (summarize tbl 11 7 [0, 1, 2, 3, 4, 5, 6] 497))
#eval IO.println ("S 498 " ++ SkVerif.Drv.C04.showSummary (summarize tbl 11 7 [0, 1, 2, 3, 4, 5, 6] 498))
#eval IO.println ("S 503 " ++ SkVerif.Drv.C04.showSummary (summarize tbl 11 7 [0, 1, 2, 3, 4, 5, 6] 503))
#eval IO.println ("S 509 " ++ SkVerif.Drv.C04.showSummary (summarize tbl 11 7 [0, 1, 2, 3, 4, 5, 6] 509))
#eval IO.println ("S 513 " ++ SkVerif.Drv.C04.showSummary (summarize tbl 11 7 [0, 1, 2, 3, 4, 5, 6] 513))
#eval IO.println ("S 516 " ++ SkVerif.Drv.C04.showSummary (summarize tbl 11 7 [0, 1, 2, 3, 4, 5, 6] 516))
#eval IO.println ("S 519 " ++ SkVerif.Drv.C04.showSummary (summarize tbl 11 7 [0, 1, 2, 3, 4, 5, 6] 519))
#eval IO.println ("S 522 " ++ SkVerif.Drv.C04.showSummary (summarize tbl 11 7 [0, 1, 2, 3, 4, 5, 6] 522))
#eval IO.println ("S 527 " ++ SkVerif.Drv.C04.showSummary (summarize tbl 11 7 [0, 1, 2, 3, 4, 5, 6] 527))
#eval IO.println ("S 528 " ++ SkVerif.Drv.C04.showSummary (summarize tbl 11 7 [0, 1, 2, 3, 4, 5, 6] 528))
#eval IO.println ("S 532 " ++ SkVerif.Drv.C04.showSummary (summarize tbl 11 7 [0, 1, 2, 3, 4, 5, 6] 532))
#eval IO.println ("S 536 " ++ SkVerif.Drv.C04.showSummary (summarize tbl 11 7 [0, 1, 2, 3, 4, 5, 6] 536))
#eval IO.println ("S 555 " ++ SkVerif.Drv.C04.showSummary (summarize tbl 11 7 [0, 1, 2, 3, 4, 5, 6] 555))
#eval IO.println ("S 570 " ++ SkVerif.Drv.C04.showSummary (summarize tbl 11 7 [0, 1, 2, 3, 4, 5, 6] 570))
#eval IO.println ("S 582 " ++ SkVerif.Drv.C04.showSummary (summarize tbl 11 7 [0, 1, 2, 3, 4, 5, 6] 582))
#eval IO.println ("S 586 " ++ SkVerif.Drv.C04.showSummary (summarize tbl 11 7 [0, 1, 2, 3, 4, 5, 6] 586))
#eval IO.println ("S 590 " ++ SkVerif.Drv.C04.showSummary (summarize tbl 11 7 [0, 1, 2, 3, 4, 5, 6] 590))
#eval IO.println ("S 594 " ++ SkVerif.Drv.C04.showSummary (summarize tbl 11 7 [0, 1, 2, 3, 4, 5, 6] 594))
#eval IO.println ("S 595 " ++ SkVerif.Drv.C04.showSummary (summarize tbl 11 7 [0, 1, 2, 3, 4, 5, 6] 595))
#eval IO.println ("S 600 " ++ SkVerif.Drv.C04.showSummary (summarize tbl 11 7 [0, 1, 2, 3, 4, 5, 6] 600))
#eval IO.println ("S 602 " ++ SkVerif.Drv.C04.showSummary (summarize tbl 11 7 [0, 1, 2, 3, 4, 5, 6] 602))
#eval IO.println ("S 603 " ++ SkVerif.Drv.C04.showSummary (summarize tbl 11 7 [0, 1, 2, 3, 4, 5, 6] 603))
#eval IO.println ("S 607 " ++ SkVerif.Drv.C04.showSummary (summarize tbl 11 7 [0, 1, 2, 3, 4, 5, 6] 607))
#eval IO.println ("S 610 " ++ SkVerif.Drv.C04.showSummary (summarize tbl 11 7 [0, 1, 2, 3, 4, 5, 6] 610))
#eval IO.println ("S 631 " ++ SkVerif.Drv.C04.showSummary (summarize tbl 11 7 [0, 1, 2, 3, 4, 5, 6] 631))
#eval IO.println ("S 643 " ++ SkVerif.Drv.C04.showSummary (summarize tbl 11 7 [0, 1, 2, 3, 4, 5, 6] 643))
#eval IO.println ("S 650 " ++ SkVerif.Drv.C04.showSummary (summarize tbl 11 7 [0, 1, 2, 3, 4, 5, 6] 650))
#eval IO.println ("S 677 " ++ SkVerif.Drv.C04.showSummary (summarize tbl 11 7 [0, 1, 2, 3, 4, 5, 6] 677))
#eval IO.println ("S 681 " ++ SkVerif.Drv.C04.showSummary (summarize tbl 11 7 [0, 1, 2, 3, 4, 5, 6] 681))
#eval IO.println ("S 682 " ++ SkVerif.Drv.C04.showSummary (summarize tbl 11 7 [0, 1, 2, 3, 4, 5, 6] 682))
#eval IO.println ("S 274 " ++ SkVerif.Drv.C04.showSummary (summarize tbl 11 7 [0, 1, 2, 3, 4, 5, 6] 274))
#eval IO.println ("S 705 " ++ SkVerif.Drv.C04.showSummary (summarize tbl 11 7 [0, 1, 2, 3, 4, 5, 6] 705))
#eval IO.println ("S 707 " ++ SkVerif.Drv.C04.showSummary (summarize tbl 11 7 [0, 1, 2, 3, 4, 5, 6] 707))
#eval IO.println ("S 709 " ++ SkVerif.Drv.C04.showSummary (summarize tbl 11 7 [0, 1, 2, 3, 4, 5, 6] 709))
#eval IO.println ("S 712 " ++ SkVerif.Drv.C04.showSummary (summarize tbl 11 7 [0, 1, 2, 3, 4, 5, 6] 712))
#eval IO.println ("S 716 " ++ SkVerif.Drv.C04.showSummary (summarize tbl 11 7 [0, 1, 2, 3, 4, 5, 6] 716))
#eval IO.println ("S 720 " ++ SkVerif.Drv.C04.showSummary (summarize tbl 11 7 [0, 1, 2, 3, 4, 5, 6] 720))
#eval IO.println ("S 721 " ++ SkVerif.Drv.C04.showSummary (summarize tbl 11 7 [0, 1, 2, 3, 4, 5, 6] 721))
#eval IO.println ("S 722 " ++ SkVerif.Drv.C04.showSummary (summarize tbl 11 7 [0, 1, 2, 3, 4, 5, 6] 722))
#eval IO.println ("S 725 " ++ SkVerif.Drv.C04.showSummary (summarize tbl 11 7 [0, 1, 2, 3, 4, 5, 6] 725))
#eval IO.println ("S 746 " ++ SkVerif.Drv.C04.showSummary (summarize tbl 11 7 [0, 1, 2, 3, 4, 5, 6] 746))
#eval IO.println ("S 751 " ++ SkVerif.Drv.C04.showSummary (summarize tbl 11 7 [0, 1, 2, 3, 4, 5, 6] 751))
#eval IO.println ("S 752 " ++ SkVerif.Drv.C04.showSummary (summarize tbl 11 7 [0, 1, 2, 3, 4, 5, 6] 752))
#eval IO.println ("S 753 " ++ SkVerif.Drv.C04.showSummary (summarize tbl 11 7 [0, 1, 2, 3, 4, 5, 6] 753))
#eval IO.println ("S 754 " ++ SkVerif.Drv.C04.showSummary (summarize tbl 11 7 [0, 1, 2, 3, 4, 5, 6] 754))
#eval IO.println ("S 759 " ++ SkVerif.Drv.C04.showSummary (summarize tbl 11 7 [0, 1, 2, 3, 4, 5, 6] 759))
#eval IO.println ("S 769 " ++ SkVerif.Drv.C04.showSummary (summarize tbl 11 7 [0, 1, 2, 3, 4, 5, 6] 769))
#eval IO.println ("S 771 " ++ SkVerif.Drv.C04.showSummary (summarize tbl 11 7 [0, 1, 2, 3, 4, 5, 6] 771))
#eval IO.println ("S 773 " ++ SkVerif.Drv.C04.showSummary (summarize tbl 11 7 [0, 1, 2, 3, 4, 5, 6] 773))
#eval IO.println ("S 780 " ++ SkVerif.Drv.C04.showSummary (summarize tbl 11 7 [0, 1, 2, 3, 4, 5, 6] 780))
#eval IO.println ("S 785 " ++ SkVerif.Drv.C04.showSummary (summarize tbl 11 7 [0, 1, 2, 3, 4, 5, 6] 785))
#eval IO.println ("S 469 " ++ SkVerif.Drv.C04.showSummary (summarize tbl 11 7 [0, 1, 2, 3, 4, 5, 6] 469))
#eval IO.println ("S 302 " ++ SkVerif.Drv.C04.showSummary (summarize tbl 11 7 [0, 1, 2, 3, 4, 5, 6] 302))
#eval IO.println ("S 794 " ++ SkVerif.Drv.C04.showSummary (summarize tbl 11 7 [0, 1, 2, 3, 4, 5, 6] 794))
#eval IO.println ("S 299 " ++ SkVerif.Drv.C04.showSummary (summarize tbl 11 7 [0, 1, 2, 3, 4, 5, 6] 299))
#eval IO.println ("S 306 " ++ SkVerif.Drv.C04.showSummary (summarize tbl 11 7 [0, 1, 2, 3, 4, 5, 6] 306))
#eval IO.println ("S 325 " ++ SkVerif.Drv.C04.showSummary (summarize tbl 11 7 [0, 1, 2, 3, 4, 5, 6] 325))
#eval IO.println ("S 125 " ++ SkVerif.Drv.C04.showSummary (summarize tbl 11 7 [0, 1, 2, 3, 4, 5, 6] 125))
#eval IO.println ("S 353 " ++ SkVerif.Drv.C04.showSummary (summarize tbl 11 7 [0, 1, 2, 3, 4, 5, 6] 353))
#eval IO.println ("S 496 " ++ SkVerif.Drv.C04.showSummary (summarize tbl 11 7 [0, 1, 2, 3, 4, 5, 6] 496))
#eval IO.println ("S 226 " ++ SkVerif.Drv.C04.showSummary (summarize tbl 11 7 [0, 1, 2, 3, 4, 5, 6] 226))
#eval IO.println ("S 219 " ++ SkVerif.Drv.C04.showSummary (summarize tbl 11 7 [0, 1, 2, 3, 4, 5, 6] 219))
#eval IO.println ("S 463 " ++ SkVerif.Drv.C04.showSummary (summarize tbl 11 7 [0, 1, 2, 3, 4, 5, 6] 463))
#eval IO.println ("S 14 " ++ SkVerif.Drv.C04.showSummary (summarize tbl 11 7 [0, 1, 2, 3, 4, 5, 6] 14))
#eval IO.println ("S 537 " ++ SkVerif.Drv.C04.showSummary (summarize tbl 11 7 [0, 1, 2, 3, 4, 5, 6] 537))
#eval IO.println ("S 807 " ++ SkVerif.Drv.C04.showSummary (summarize tbl 11 7 [0, 1, 2, 3, 4, 5, 6] 807))
#eval IO.println ("S 601 " ++ SkVerif.Drv.C04.showSummary (summarize tbl 11 7 [0, 1, 2, 3, 4, 5, 6] 601))
#eval IO.println ("S 301 " ++ SkVerif.Drv.C04.showSummary (summarize tbl 11 7 [0, 1, 2, 3, 4, 5, 6] 301))
#eval IO.println ("S 604 " ++ SkVerif.Drv.C04.showSummary (summarize tbl 11 7 [0, 1, 2, 3, 4, 5, 6] 604))
#eval IO.println ("S 678 " ++ SkVerif.Drv.C04.showSummary (summarize tbl 11 7 [0, 1, 2, 3, 4, 5, 6] 678))
#eval IO.println ("S 467 " ++ SkVerif.Drv.C04.showSummary (summarize tbl 11 7 [0, 1, 2, 3, 4, 5, 6] 467))
#eval IO.println ("S 480 " ++ SkVerif.Drv.C04.showSummary (summarize tbl 11 7 [0, 1, 2, 3, 4, 5, 6] 480))
#eval IO.println ("S 482 " ++ SkVerif.Drv.C04.showSummary (summarize tbl 11 7 [0, 1, 2, 3, 4, 5, 6] 482))
#eval IO.println ("S 65 " ++ SkVerif.Drv.C04.showSummary (summarize tbl 11 7 [0, 1, 2, 3, 4, 5, 6] 65))
#eval IO.println ("S 16 " ++ SkVerif.Drv.C04.showSummary (summarize tbl 11 7 [0, 1, 2, 3, 4, 5, 6] 16))
#eval IO.println ("S 357 " ++ SkVerif.Drv.C04.showSummary (summarize tbl 11 7 [0, 1, 2, 3, 4, 5, 6] 357))
#eval IO.println ("S 477 " ++ SkVerif.Drv.C04.showSummary (summarize tbl 11 7 [0, 1, 2, 3, 4, 5, 6] 477))
#eval IO.println ("S 74 " ++ SkVerif.Drv.C04.showSummary (summarize tbl 11 7 [0, 1, 2, 3, 4, 5, 6] 74))
#eval IO.println ("S 723 " ++ SkVerif.Drv.C04.showSummary (summarize tbl 11 7 [0, 1, 2, 3, 4, 5, 6] 723))
#eval IO.println ("S 97 " ++ SkVerif.Drv.C04.showSummary (summarize tbl 11 7 [0, 1, 2, 3, 4, 5, 6] 97))
end SkVerif.Gen
