def hello := "world"
