/-
Integer-labelled series with missing values, and the pandas operations the forecaster base
class uses on them: `combine_first`, label slicing `.loc[a:b]`, positional `.iloc[...]`.
Import-free.  `none` = NaN.
-/
namespace SkVerif

abbrev ORat := Option Rat
abbrev Obs := Int × ORat
/-- labels strictly increasing (invariant kept by every operation below; see Lemmas/Series) -/
abbrev Series := List Obs

namespace Series

def labels (s : Series) : List Int := s.map (·.1)
def values (s : Series) : List ORat := s.map (·.2)
def lastLabel? (s : Series) : Option Int := s.getLast?.map (·.1)
def firstLabel? (s : Series) : Option Int := s.head?.map (·.1)

def lookup (s : Series) (l : Int) : Option ORat :=
  match s with
  | [] => none
  | (l', v) :: t => if l' = l then some v else lookup t l

/-- insert one new observation into an (older) series: a new label is placed in order; on an
existing label the new value wins unless it is NaN (`combine_first` fills NaN from the old) -/
def insertObs (old : Series) (l : Int) (v : ORat) : Series :=
  match old with
  | [] => [(l, v)]
  | (l', v') :: t =>
    if l < l' then (l, v) :: (l', v') :: t
    else if l = l' then (l, (match v with | some x => some x | none => v')) :: t
    else (l', v') :: insertObs t l v

/-- `new.combine_first(old)` -/
def combineFirst (new old : Series) : Series :=
  new.foldl (fun acc o => insertObs acc o.1 o.2) old

/-- `s.loc[a:b]` (label slice, both ends inclusive) -/
def locSlice (s : Series) (a b : Int) : Series :=
  s.filter (fun o => decide (a ≤ o.1) && decide (o.1 ≤ b))

/-- `s.iloc[positions]` for non-negative in-range positions -/
def iloc (s : Series) (ps : List Int) : Series :=
  ps.filterMap (fun p => if p < 0 then none else s[p.toNat]?)

def shift (k : Int) (s : Series) : Series := s.map (fun o => (o.1 + k, o.2))

end Series
end SkVerif
