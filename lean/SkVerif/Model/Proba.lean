/-
C17: sktime's own part of every classifier's `predict_proba` / `predict` / `score`:
  classification/base.py                      BaseClassifier.predict (argmax + label decoding), score
  classification/interval_based/_tsf.py       TimeSeriesForestClassifier.predict_proba / predict
  classification/interval_based/_rise.py      RandomIntervalSpectralForest.predict_proba / predict
  classification/interval_based/_stsf.py      SupervisedTimeSeriesForest.predict_proba / predict
  series_as_features/.../interval_based/_tsf.py   fit (n_intervals, min_interval), _get_intervals, _transform
  utils/slope_and_trend.py                    _slope
  regression/interval_based/_tsf.py           TimeSeriesForestRegressor.predict
  classification/dictionary_based/_boss.py    BOSSEnsemble.predict_proba / predict, IndividualBOSS.predict_proba
  classification/dictionary_based/_cboss.py, _tde.py   weighted votes / weight_sum, predict
  classification/compose/_column_ensemble.py  fit (members and their columns), predict_proba, predict
The members (fitted sklearn trees, nearest-neighbour BOSS/TDE members, any classifier inside a
column ensemble) are black boxes: their outputs enter the model as data (driver) or as arbitrary
functions (theorems).  `np.unique`, `np.argmax`, `np.mean`, `np.std` are modelled by what they
compute.  NaN is `none`.  Import-free.
-/
namespace SkVerif.C17

inductive Err | value | key | index | type
  deriving DecidableEq, Repr

/-! ### labels and `classes_` -/

/-- a class label as the user supplied it: an integer or a string -/
inductive Label
  | int (i : Int)
  | str (s : String)
  deriving DecidableEq, Repr

/-- the order `np.unique` sorts by (numeric / code-point lexicographic); labels of one fit have one type -/
def Label.le : Label → Label → Bool
  | .int a, .int b => decide (a ≤ b)
  | .str a, .str b => decide (a ≤ b)
  | .int _, .str _ => true
  | .str _, .int _ => false

def insertU (a : Label) : List Label → List Label
  | [] => [a]
  | b :: l => if a = b then b :: l else if a.le b then a :: b :: l else b :: insertU a l

/-- `classes_ = class_distribution(y)[0][0]` = `np.unique(y)` = `LabelEncoder().fit(y).classes_`:
the distinct training labels in increasing order -/
def classesOf : List Label → List Label
  | [] => []
  | a :: l => insertU a (classesOf l)

/-- `class_dictionary[label]` (`classes_` value → column index) -/
def idxOf : List Label → Label → Option Nat
  | [], _ => none
  | b :: l, a => if a = b then some 0 else (idxOf l a).map (· + 1)

abbrev Row := List Rat
abbrev Mat := List Row

/-! ### arg-max and decoding -/

/-- `(index, value)` of the first maximum of `x :: l` -/
def argmaxPair : Rat → List Rat → Nat × Rat
  | x, [] => (0, x)
  | x, y :: l =>
    let p := argmaxPair y l
    if p.2 ≤ x then (0, x) else (p.1 + 1, p.2)

/-- `np.argmax(row)`: the first index holding the maximum (raises on an empty row) -/
def argmax? : Row → Option Nat
  | [] => none
  | x :: l => some (argmaxPair x l).1

/-- `self.classes_[j]` / `label_encoder.inverse_transform([j])` -/
def decode (classes : List Label) (j : Nat) : Except Err Label :=
  match classes[j]? with
  | some c => .ok c
  | none => .error .index

/-- `np.asarray([self.classes_[np.argmax(prob)] for prob in proba])` (TSF, RISE, STSF);
`le_.inverse_transform(np.argmax(proba, axis=1))` (column ensemble);
`label_encoder.inverse_transform([np.argmax(d) for d in distributions])` (BaseClassifier) -/
def predictRow (classes : List Label) (r : Row) : Except Err Label :=
  match argmax? r with
  | none => .error .value
  | some j => decode classes j

def predictArgmax (classes : List Label) (P : Mat) : Except Err (List Label) :=
  P.mapM (predictRow classes)

/-- `accuracy_score(y, self.predict(X), normalize=True)` -/
def score (yTrue yPred : List Label) : Except Err Rat :=
  if yTrue.length ≠ yPred.length then .error .value
  else if yTrue.length = 0 then .error .value
  else .ok ((((yTrue.zip yPred).filter (fun p => decide (p.1 = p.2))).length : Rat) / (yTrue.length : Rat))

/-! ### forests: average of the members' probability matrices -/

def addRow (a b : Row) : Row := List.zipWith (· + ·) a b
def addMat (A B : Mat) : Mat := List.zipWith addRow A B

/-- `np.sum([m, m', …], axis=0)` -/
def sumMats : Mat → List Mat → Mat
  | m, [] => m
  | m, m' :: ms => addMat m (sumMats m' ms)

def sameShape (n K : Nat) (M : Mat) : Bool := M.length == n && M.all (fun r => r.length == K)

def scaleMat (d : Rat) (M : Mat) : Mat := M.map (fun r => r.map (· / d))

/-- `np.sum(y_probas, axis=0) / (np.ones(self.n_classes) * self.n_estimators)` (TSF; STSF after `stsfAlign`) and
`np.sum(all_proba, axis=0) / self.n_estimators` (RISE); `y_probas` has one matrix per fitted
estimator (`range(self.n_estimators)`), `n_classes = len(np.unique(y))`.  Members whose shapes
differ (a member that saw fewer classes) make numpy raise; members that ALL have a single column
are broadcast against `np.ones(n_classes)` (every class gets the same value). -/
def forestProba (nClasses : Nat) (members : List Mat) : Except Err Mat :=
  match members with
  | [] => .error .value
  | m :: ms =>
    if (m :: ms).all (sameShape m.length nClasses) then
      .ok (scaleMat ((m :: ms).length : Rat) (sumMats m ms))
    else if (m :: ms).all (sameShape m.length 1) then
      .ok ((scaleMat ((m :: ms).length : Rat) (sumMats m ms)).map (fun r => List.replicate nClasses (r.headD 0)))
    else .error .value

/-- the loop `for i, cls in enumerate(estimator.classes_): aligned[:, class_dictionary_[cls]] = probas[:, i]`
on one row: member classes still to place, the member's remaining entries, the row built so far -/
def scatter (classes : List Label) : List Label → Row → Row → Except Err Row
  | [], _, acc => .ok acc
  | _ :: _, [], _ => .error .index
  | cls :: mc, v :: vs, acc =>
    match idxOf classes cls with
    | none => .error .key
    | some j => scatter classes mc vs (acc.set j v)

/-- `SupervisedTimeSeriesForest._predict_proba_for_estimator` (after fix 47093f5): a tree whose bag missed
classes returns fewer columns than `n_classes`; its columns are put where the ensemble's `classes_` expect
them, the classes it never saw get 0.  `mc` = the tree's own `classes_`. -/
def alignRow (classes mc : List Label) (row : Row) : Except Err Row :=
  if row.length = classes.length then .ok row else scatter classes mc row (List.replicate classes.length 0)

def stsfAlign (classes mc : List Label) (M : Mat) : Except Err Mat := M.mapM (alignRow classes mc)

/-- `SupervisedTimeSeriesForest.predict_proba`: align every tree, then average -/
def stsfProba (classes : List Label) (members : List (List Label × Mat)) : Except Err Mat :=
  match members.mapM (fun m => stsfAlign classes m.1 m.2) with
  | .error e => .error e
  | .ok ms => forestProba classes.length ms

/-- number of columns of a matrix (0 for a matrix without rows) -/
def firstWidth : Mat → Nat
  | [] => 0
  | r :: _ => r.length

/-- `np.average(np.asarray([member probabilities …]), axis=0)` (column ensemble): `np.asarray` needs
matrices of one shape -/
def avgProba (members : List Mat) : Except Err Mat :=
  match members with
  | [] => .error .value
  | m :: ms =>
    if (m :: ms).all (sameShape m.length (firstWidth m)) then
      .ok (scaleMat ((m :: ms).length : Rat) (sumMats m ms))
    else .error .value

/-- `np.mean(y_pred, axis=0)` over the trees' prediction vectors (TimeSeriesForestRegressor) -/
def sumRows : Row → List Row → Row
  | r, [] => r
  | r, r' :: rs => addRow r (sumRows r' rs)

def regPredict (members : List Row) : Except Err Row :=
  match members with
  | [] => .error .value
  | r :: rs =>
    if (r :: rs).all (fun q => q.length == r.length) then
      .ok ((sumRows r rs).map (· / ((r :: rs).length : Rat)))
    else .error .value

/-! ### dictionary ensembles: vote counting normalised by the ensemble weight -/

def zeros (K : Nat) : Row := List.replicate K 0

/-- `sums[i, j] += w` -/
def bump (row : Row) (j : Nat) (w : Rat) : Row := row.modify j (· + w)

/-- the inner loops for one instance: `sums[i, self.class_dictionary[preds[i]]] += weight`, member after member -/
def voteRow (classes : List Label) : List (Label × Rat) → Row → Except Err Row
  | [], row => .ok row
  | (lab, w) :: vs, row =>
    match idxOf classes lab with
    | none => .error .key
    | some j => voteRow classes vs (bump row j w)

/-- the votes instance `i` receives: member `t` votes `preds_t[i]` with weight `w_t` -/
def votesFor (members : List (List Label × Rat)) (i : Nat) : Except Err (List (Label × Rat)) :=
  members.mapM (fun m => match m.1[i]? with
    | some l => .ok (l, m.2)
    | none => .error .index)

/-- float division where `0/0` is NaN -/
def pyDiv (a d : Rat) : Option Rat := if d = 0 then none else some (a / d)

/-- `sums / (np.ones(n_classes) * divisor)` for `n` instances -/
def ensembleProba (classes : List Label) (n : Nat) (members : List (List Label × Rat)) (divisor : Rat) :
    Except Err (List (List (Option Rat))) :=
  (List.range n).mapM (fun i => do
    let vs ← votesFor members i
    let row ← voteRow classes vs (zeros classes.length)
    pure (row.map (fun s => pyDiv s divisor)))

/-- `BOSSEnsemble.predict_proba`: every member votes with weight 1, divisor `n_estimators = len(classifiers)` -/
def bossProba (classes : List Label) (n : Nat) (preds : List (List Label)) :=
  ensembleProba classes n (preds.map (fun p => (p, (1 : Rat)))) (preds.length : Rat)

/-- `ContractableBOSS` / `TemporalDictionaryEnsemble.predict_proba`: member `t` votes with `weights[t]`,
divisor `weight_sum = np.sum(weights)` -/
def cbossProba (classes : List Label) (n : Nat) (members : List (List Label × Rat)) :=
  ensembleProba classes n members (members.map (·.2)).sum

/-- `IndividualBOSS` / `IndividualTDE.predict_proba`: `dists[i, class_dictionary.get(preds[i])] += 1` -/
def indivProba (classes : List Label) (preds : List Label) : Except Err Mat :=
  preds.mapM (fun l => voteRow classes [(l, 1)] (zeros classes.length))

/-- `0.000000001`, the floor of a member weight (fix 94648e4) -/
def weightFloor : Rat := 1 / 1000000000

/-- cBOSS / TDE `fit`: `weight = math.pow(accuracy, 4)`, `if weight == 0: weight = 0.000000001`
(`accuracy` may be `-1` when the train estimate was abandoned early) -/
def memberWeight (acc : Rat) : Rat :=
  let w := acc * acc * acc * acc
  if w = 0 then weightFloor else w

/-- the ensemble as `fit` leaves it: member `t` predicts `preds_t` and votes with `memberWeight(accuracy_t)` -/
def cbossFitted (members : List (List Label × Rat)) : List (List Label × Rat) :=
  members.map (fun m => (m.1, memberWeight m.2))

/-- the window sizes searched: `range(min_window, max_window + 1, win_inc)` (`win_inc ≥ 1`) -/
def windowSizes (minW maxW inc : Nat) : List Nat :=
  ((List.range (maxW + 1 - minW)).filter (fun k => k % inc == 0)).map (minW + ·)

/-- BOSS / cBOSS / TDE `fit` (after fix 94648e4): `if self.min_window > max_window: raise ValueError`,
`max_window = int(series_length * max_win_len_prop)` (here `max_win_len_prop = 1`) -/
def windowCheck (minW maxW : Nat) : Except Err Unit :=
  if minW > maxW then .error .value else .ok ()

/-- maximum of a non-empty row -/
def rowMax : Rat → List Rat → Rat
  | x, [] => x
  | x, y :: l => let m := rowMax y l; if m ≤ x then x else m

/-- `np.flatnonzero(prob == prob.max())` -/
def tiesOf (r : Row) : List Nat :=
  match r with
  | [] => []
  | x :: l => let m := rowMax x l; (List.range r.length).filter (fun i => r[i]? == some m)

def allSome {α} : List (Option α) → Option (List α)
  | [] => some []
  | none :: _ => none
  | some a :: l => (allSome l).map (a :: ·)

/-- `self.classes_[int(rng.choice(np.flatnonzero(prob == prob.max())))]`; `draw` is the position the
generator picked.  A NaN row has no maximum: `rng.choice` of an empty array raises. -/
def ensemblePredictRow (classes : List Label) (r : List (Option Rat)) (draw : Nat) : Except Err Label :=
  match allSome r with
  | none => .error .value
  | some row =>
    match (tiesOf row)[draw]? with
    | none => .error .value
    | some j => decode classes j

def ensemblePredict (classes : List Label) : List (List (Option Rat)) → List Nat → Except Err (List Label)
  | [], _ => .ok []
  | r :: rs, [] => (ensemblePredictRow classes r 0).bind (fun a => (ensemblePredict classes rs []).map (a :: ·))
  | r :: rs, d :: ds => (ensemblePredictRow classes r d).bind (fun a => (ensemblePredict classes rs ds).map (a :: ·))

/-! ### column ensemble: which member sees which columns -/

/-- a column specification as `_get_column` / `_get_column_indices` accept it -/
inductive Key
  | int (k : Int)
  | ints (ks : List Int)
  | name (s : String)
  | names (ss : List String)
  deriving Repr

def normIdx (ncols : Nat) (k : Int) : Except Err Nat :=
  let k' := if k < 0 then k + ncols else k
  if 0 ≤ k' ∧ k' < ncols then .ok k'.toNat else .error .index

def nameIdx (cols : List String) (s : String) : Except Err Nat :=
  let i := cols.idxOf s
  if i < cols.length then .ok i else .error .value

/-- positional indices of the selected columns -/
def resolveKey (cols : List String) : Key → Except Err (List Nat)
  | .int k => (normIdx cols.length k).map (fun i => [i])
  | .ints ks => ks.mapM (normIdx cols.length)
  | .name s => (nameIdx cols s).map (fun i => [i])
  | .names ss => ss.mapM (nameIdx cols)

/-- one `(name, estimator, columns)` entry; `drop = true` for the string `'drop'` -/
structure Entry where
  drop : Bool
  key : Key

/-- `fit`: the members that are fitted, each with the positional columns of `X` it receives:
`_iter(replace_strings=True)` skips `'drop'` entries and empty selections; `remainder` is always
`'drop'` (`BaseColumnEnsembleClassifier.__init__` overwrites it), so unlisted columns go nowhere. -/
def ceMembers (cols : List String) (es : List Entry) : Except Err (List (List Nat)) := do
  let all ← es.mapM (fun e => (resolveKey cols e.key).map (fun c => (e.drop, c)))
  pure ((all.filter (fun p => !p.1 && !p.2.isEmpty)).map (·.2))

/-! ### time series forest: fitted intervals and interval features -/

/-- `int(math.sqrt(L))`: the number of `k ≥ 1` with `k·k ≤ L` (structural, kernel-reducible) -/
def isqrt (L : Nat) : Nat := ((List.range (L + 1)).filter (fun k => decide (k * k ≤ L))).length - 1

/-- `n_intervals = int(math.sqrt(series_length))`, at least 1 -/
def nIntervals (L : Nat) : Nat := if isqrt L = 0 then 1 else isqrt L

/-- the interval bound `fit` works with (fix 46b8bee): the LOCAL `min_interval = min(self.min_interval,
self.series_length)` handed to `_get_intervals` -/
def minIntervalFit (L m : Nat) : Nat := if L < m then L else m

/-- the `min_interval` ATTRIBUTE after `fit`: the constructor value, untouched (fix 46b8bee) -/
def minIntervalAttr (_L m : Nat) : Nat := m

/-- one pass of the loop body of `_get_intervals`; `u1`, `u2` are what `rng.randint(high1)` and
`rng.randint(high2)` returned.  `randint(high)` raises `ValueError` for `high ≤ 0`; a missing or
out-of-range draw (which no generator produces) is `.index`.
Returns `(high1, high2, start, end)`. -/
def getInterval (m L : Nat) (u1 : Nat) (u2? : Option Nat) : Except Err (Nat × Nat × Nat × Nat) :=
  if L ≤ m then .error .value
  else
    let h1 := L - m
    if h1 ≤ u1 then .error .index
    else if L ≤ u1 + 1 then .error .value
    else
      let h2 := L - u1 - 1
      match u2? with
      | none => .error .index
      | some u2 =>
        if h2 ≤ u2 then .error .index
        else
          let len := if u2 < m then m else u2
          .ok (h1, h2, u1, u1 + len)

/-- `_get_intervals(n_intervals, min_interval, series_length, rng)` consuming the generator's draws;
returns the intervals, the `high` arguments it asked for, and the unused draws -/
def getIntervals (m L : Nat) : Nat → List Nat → Except Err (List (Nat × Nat) × List Nat × List Nat)
  | 0, ds => .ok ([], [], ds)
  | _ + 1, [] => if L ≤ m then .error .value else .error .index
  | k + 1, u1 :: ds =>
    match getInterval m L u1 ds.head? with
    | .error e => .error e
    | .ok (h1, h2, a, b) =>
      match getIntervals m L k ds.tail with
      | .error e => .error e
      | .ok (ivs, hs, rest) => .ok ((a, b) :: ivs, h1 :: h2 :: hs, rest)

/-- `fit`: `intervals_ = [_get_intervals(...) for _ in range(n_estimators)]` with the fitted
`n_intervals` and the local effective `min_interval` -/
def fitIntervals (L minInterval : Nat) : Nat → List Nat → Except Err (List (List (Nat × Nat)) × List Nat)
  | 0, _ => .ok ([], [])
  | t + 1, ds =>
    match getIntervals (minIntervalFit L minInterval) L (nIntervals L) ds with
    | .error e => .error e
    | .ok (ivs, hs, rest) =>
      match fitIntervals L minInterval t rest with
      | .error e => .error e
      | .ok (all, hs') => .ok (ivs :: all, hs ++ hs')

/-- `X[:, a:b]` on one series, `0 ≤ a`, `0 ≤ b` -/
def slice (row : Row) (a b : Nat) : Row := (row.drop a).take (b - a)

/-- `np.mean` (NaN on an empty slice) -/
def mean? (xs : Row) : Option Rat := if xs.isEmpty then none else some (xs.sum / (xs.length : Rat))

/-- `np.std` squared: population variance (the square root stays outside: `IsSqrt`) -/
def var? (xs : Row) : Option Rat :=
  match mean? xs with
  | none => none
  | some m => some ((xs.map (fun x => (x - m) * (x - m))).sum / (xs.length : Rat))

/-- the time index `x = np.arange(n) + 1` -/
def timeIndex (n : Nat) : Row := (List.range n).map (fun (i : Nat) => (i : Rat) + 1)

/-- `_slope(y, axis=1)` exactly as coded:
`(mean(y*x) − mean(x)·mean(y)) / (mean(x*x) − mean(x)**2)`, `x = 1..n`; `0/0` is NaN -/
def slope? (ys : Row) : Option Rat :=
  if ys.isEmpty then none
  else
    let n : Rat := (ys.length : Rat)
    let xs := timeIndex ys.length
    let xMean := xs.sum / n
    let den := (xs.map (fun x => x * x)).sum / n - xMean * xMean
    let num := (List.zipWith (· * ·) ys xs).sum / n - xMean * (ys.sum / n)
    if den = 0 then none else some (num / den)

/-- one row of `_transform(X, intervals)`: for interval `j`, columns `3j, 3j+1, 3j+2` are the mean,
the standard deviation (here: its square) and the slope of `X[i, a_j:b_j]` -/
def transformRow (ivs : List (Nat × Nat)) (row : Row) : List (Option Rat) :=
  ivs.flatMap (fun iv => let s := slice row iv.1 iv.2; [mean? s, var? s, slope? s])

def transform (X : Mat) (ivs : List (Nat × Nat)) : List (List (Option Rat)) := X.map (transformRow ivs)

/-- a fitted tree as sktime uses it: a function from one feature row to one probability row -/
abbrev Tree := List (Option Rat) → Row

/-- `TimeSeriesForestClassifier.predict_proba`: tree `t` is applied to `_transform(X, intervals_[t])` -/
def tsfProba (nClasses : Nat) (trees : List Tree) (intervals : List (List (Nat × Nat))) (X : Mat) : Except Err Mat :=
  forestProba nClasses (List.zipWith (fun t ivs => (transform X ivs).map t) trees intervals)

/-- a fitted regression tree -/
abbrev RTree := List (Option Rat) → Rat

/-- `TimeSeriesForestRegressor.predict` -/
def tsfRegPredict (trees : List RTree) (intervals : List (List (Nat × Nat))) (X : Mat) : Except Err Row :=
  regPredict (List.zipWith (fun t ivs => (transform X ivs).map t) trees intervals)

/-- a fitted member of a column ensemble: from the selected columns of the panel to a probability matrix;
the panel is a list of instances, an instance a list of columns (cells) -/
abbrev Member (α : Type) := List (List α) → Mat

def selectColumns {α} (X : List (List α)) (cols : List Nat) : List (List α) :=
  X.map (fun inst => cols.filterMap (fun c => inst[c]?))

/-- `ColumnEnsembleClassifier.predict_proba`: member `k` receives `_get_column(X, column_k)` -/
def colEnsProba {α} (members : List (Member α)) (columns : List (List Nat)) (X : List (List α)) : Except Err Mat :=
  avgProba (List.zipWith (fun f cols => f (selectColumns X cols)) members columns)

end SkVerif.C17
