/-
Model of the time-series file readers/writer of sktime 0.6.0 (sktime/utils/data_io.py) and of
the train/test concatenation of the bundled loaders (sktime/datasets/base.py `_load_dataset`).
Import-free.  Text is `List Char` (`Str`) so that every string operation used by the code
(`strip`, `lower`, `split`, `startswith`, `join`, `replace("?", "NaN")`) is a small structurally
recursive function about which theorems are proved by induction.

* `write`      = `write_dataframe_to_tsfile` (header lines, case lines).  Number formatting is
                 pandas' (`Series.to_string`) and is DATA: a series is the list of tokens pandas
                 printed.  `textwrap.wrap("# " + comment)` is data as well (`commentLines`).
* `parseTs`    = `load_from_tsfile_to_dataframe` for files without timestamps (the only grammar
                 the writer can produce and the one of every bundled file): the line loop is a
                 fold of `step` over the normalised (`strip().lower()`) lines, then `finish`.
* `parseArff`  = `load_from_arff_to_dataframe`, `parseTsv` = `load_from_ucr_tsv_to_dataframe`
                 (the `pd.read_csv` call is abstracted to "tab separated fields of non blank lines").
* `loadSplit`  = `_load_dataset` for split in {train, test, None}.
Characters: the model's `isSpace`/`lowerChar` are the ASCII part of Python's `str.strip`/`str.lower`.
-/
import SkVerif.Model.TsStr
namespace SkVerif.TsFile

/-! ### Numbers: Python's `float(token)` -/

/-- a parsed number: finite values are exact rationals -/
inductive Num
  | fin (q : Rat)
  | nan
  | inf (neg : Bool)
  deriving DecidableEq, Repr

def digitVal (c : Char) : Option Nat :=
  if '0' ≤ c ∧ c ≤ '9' then some (c.toNat - '0'.toNat) else none

/-- longest prefix of digits (with single underscores between digits, as Python allows):
returns (value, number of digits, rest); `none` if there is no leading digit. -/
def scanDigits : Str → Nat → Nat → Bool → Option (Nat × Nat × Str)
  | [], acc, n, any => if any then some (acc, n, []) else none
  | c :: cs, acc, n, any =>
    match digitVal c with
    | some d => scanDigits cs (acc * 10 + d) (n + 1) true
    | none =>
      if c = '_' ∧ any then
        match cs with
        | c2 :: _ => if (digitVal c2).isSome then scanDigits cs acc n any else some (acc, n, c :: cs)
        | [] => some (acc, n, c :: cs)
      else if any then some (acc, n, c :: cs) else none

def pow10 (k : Nat) : Rat := ((10 ^ k : Nat) : Rat)

def scale (m : Rat) (e : Int) : Rat :=
  if e ≥ 0 then m * pow10 e.toNat else m / pow10 (-e).toNat

/-- exponent part `e[+-]digits` (already lower-cased); `some 0` if absent; `none` if malformed -/
def scanExp : Str → Option Int
  | [] => some 0
  | 'e' :: rest =>
    let (neg, r) := match rest with
      | '-' :: r => (true, r)
      | '+' :: r => (false, r)
      | r => (false, r)
    match scanDigits r 0 0 false with
    | some (v, _, []) => some (if neg then -(v : Int) else (v : Int))
    | _ => none
  | _ => none

/-- unsigned decimal literal `digits[.digits][exp]` or `.digits[exp]` -/
def scanUnsigned (s : Str) : Option Rat :=
  match scanDigits s 0 0 false with
  | some (ip, _, '.' :: r) =>
    (match scanDigits r 0 0 false with
     | some (fp, k, r2) => (scanExp r2).map (fun e => scale (((ip * 10 ^ k + fp : Nat) : Rat)) (e - k))
     | none => (scanExp r).map (fun e => scale ((ip : Nat) : Rat) e))
  | some (ip, _, r) => (scanExp r).map (fun e => scale ((ip : Nat) : Rat) e)
  | none =>
    match s with
    | '.' :: r =>
      (match scanDigits r 0 0 false with
       | some (fp, k, r2) => (scanExp r2).map (fun e => scale ((fp : Nat) : Rat) (e - k))
       | none => none)
    | _ => none

def sNan : Str := ['n', 'a', 'n']
def sInf : Str := ['i', 'n', 'f']
def sInfinity : Str := ['i', 'n', 'f', 'i', 'n', 'i', 't', 'y']

/-- `float(s)` on an already stripped, lower-cased literal -/
def floatCore (s : Str) : Option Num :=
  let (neg, body) := match s with
    | '-' :: r => (true, r)
    | '+' :: r => (false, r)
    | r => (false, r)
  if body = sNan then some .nan
  else if body = sInf ∨ body = sInfinity then some (.inf neg)
  else (scanUnsigned body).map (fun q => .fin (if neg then -q else q))

/-- `float(s)`: surrounding white space and letter case are ignored; `none` = `ValueError` -/
def floatOf (s : Str) : Option Num := floatCore (lower (strip s))

/-! ### Results and errors -/

inductive Err
  | parse        -- TsFileParseException
  | value        -- ValueError
  | type         -- TypeError
  | index        -- IndexError
  | unsupported  -- outside the modelled grammar (timestamps = true)
  deriving DecidableEq, Repr

abbrev Series := List Num

/-- a loaded panel: `dims[d][i]` is the series of instance `i` in column `dim_d`;
`labels = none` when the loader returns a frame only -/
structure Panel where
  dims : List (List Series)
  labels : Option (List Str)
  deriving DecidableEq, Repr

/-! ### `load_from_tsfile_to_dataframe` -/

structure St where
  metaStarted : Bool := false
  dataStarted : Bool := false
  hasPN : Bool := false
  hasTS : Bool := false
  hasUni : Bool := false
  hasCL : Bool := false
  hasData : Bool := false
  timestamps : Bool := false
  classLabels : Bool := false
  numDims : Option Nat := none
  inst : List (List Series) := []
  labels : List Str := []
  deriving DecidableEq, Repr

def kwProblemName : Str := "@problemname".toList
def kwTimestamps : Str := "@timestamps".toList
def kwUnivariate : Str := "@univariate".toList
def kwClassLabel : Str := "@classlabel".toList
def kwData : Str := "@data".toList
def sTrue : Str := "true".toList
def sFalse : Str := "false".toList

/-- `"true"`/`"false"` -/
def parseBoolTok (t : Str) : Option Bool :=
  if t = sTrue then some true else if t = sFalse then some false else none

/-- `float(t)`; `ValueError` when `t` is not a number -/
def floatE (t : Str) : Except Err Num :=
  match floatOf t with
  | some v => .ok v
  | none => .error .value

/-- `[float(i) for i in toks]` -/
def floats (toks : List Str) : Except Err Series := toks.mapM floatE

/-- one dimension of a case line: `dimension.strip()`, empty → empty series, else
`[float(i) for i in dimension.split(",")]` -/
def seriesOf (seg : Str) : Except Err Series :=
  let d := strip seg
  if d = [] then .ok [] else floats (splitOn ',' d)

/-- append one series to each per-dimension list (`instance_list[dim].append(...)`) -/
def appendRow : List (List Series) → List Series → List (List Series)
  | l :: ls, s :: ss => (l ++ [s]) :: appendRow ls ss
  | _, _ => []

/-- a case line (data has started), no timestamps -/
def dataLine (st : St) (line0 : Str) : Except Err St :=
  if !(st.hasPN && st.hasTS && st.hasUni && st.hasCL && st.hasData) then .error .parse
  else
    let line := replaceQ line0
    if st.timestamps then .error .unsupported
    else
      let dims := splitOn ':' line
      let k := if st.classLabels then 1 else 0
      let thisN := dims.length - k
      let (nd, inst) := match st.numDims with
        | none => (thisN, List.replicate thisN ([] : List Series))
        | some n => (n, st.inst)
      if thisN ≠ nd then .error .parse
      else do
        let row ← (dims.take nd).mapM seriesOf
        let labels := if st.classLabels then st.labels ++ [strip (dims.getD nd [])] else st.labels
        pure { st with numDims := some nd, inst := appendRow inst row, labels := labels }

/-- one iteration of the line loop on the normalised line (`line.strip().lower()`) -/
def step (st : St) (line : Str) : Except Err St :=
  if line = [] then .ok st
  else
    let toks := splitOn ' ' line
    if startsWith kwProblemName line then
      if st.dataStarted then .error .parse
      else if toks.length = 1 then .error .parse
      else .ok { st with hasPN := true, metaStarted := true }
    else if startsWith kwTimestamps line then
      if st.dataStarted then .error .parse
      else if toks.length ≠ 2 then .error .parse
      else match parseBoolTok (toks.getD 1 []) with
        | some b => .ok { st with timestamps := b, hasTS := true, metaStarted := true }
        | none => .error .parse
    else if startsWith kwUnivariate line then
      if st.dataStarted then .error .parse
      else if toks.length ≠ 2 then .error .parse
      else match parseBoolTok (toks.getD 1 []) with
        | some _ => .ok { st with hasUni := true, metaStarted := true }
        | none => .error .parse
    else if startsWith kwClassLabel line then
      if st.dataStarted then .error .parse
      else if toks.length = 1 then .error .parse
      else match parseBoolTok (toks.getD 1 []) with
        | some b =>
          if toks.length = 2 ∧ b then .error .parse
          else .ok { st with classLabels := b, hasCL := true, metaStarted := true }
        | none => .error .parse
    else if startsWith kwData line then
      if line ≠ kwData then .error .parse
      else if st.dataStarted ∧ !st.metaStarted then .error .parse
      else .ok { st with hasData := true, dataStarted := true }
    else if st.dataStarted then dataLine st line
    else .ok st

/-- the line loop over normalised lines -/
def run : St → List Str → Except Err St
  | st, [] => .ok st
  | st, l :: ls => match step st l with
    | .ok st' => run st' ls
    | .error e => .error e

/-- after the loop: completeness checks and frame construction; `nLines` = `line_num`, the number of
lines the loop has read -/
def finish (nLines : Nat) (st : St) : Except Err Panel :=
  if nLines = 0 then .error .parse
  else if st.metaStarted ∧ !(st.hasPN && st.hasTS && st.hasUni && st.hasCL && st.hasData) then .error .parse
  else if st.metaStarted ∧ !st.dataStarted then .error .parse
  else if st.metaStarted ∧ st.dataStarted ∧ st.inst.length = 0 then .error .parse
  else match st.numDims with
    | none => .error .type       -- `range(0, None)`
    | some _ => .ok ⟨st.inst, if st.classLabels then some st.labels else none⟩

/-- `line.strip().lower()` -/
def normLine (l : Str) : Str := lower (strip l)

/-- `load_from_tsfile_to_dataframe(path)` on the file's text -/
def parseTs (text : Str) : Except Err Panel :=
  let ls := lines text
  match run {} (ls.map normLine) with
  | .ok st => finish ls.length st
  | .error e => .error e

/-! ### `write_dataframe_to_tsfile` -/

structure WOpts where
  problemName : Str
  timestamp : Bool := false
  univariate : Bool := true
  /-- `class_label`; `[]` models `None`/empty -/
  classLabel : List Str := []
  equalLength : Bool := false
  seriesLength : Int := -1
  /-- `str(series_length)` (data: Python's integer formatting) -/
  seriesLengthStr : Str := []
  /-- `textwrap.wrap("# " + comment)` (data); `[]` when there is no comment -/
  commentLines : List Str := []
  deriving Repr

def boolStr (b : Bool) : Str := if b then sTrue else sFalse

/-- the line the writer emits when there are no class labels (before fix 8439410 it was
`@class_label false`, which the parser does not recognise as the class-label tag) -/
def noLabelLine : Str := "@classLabel false".toList

/-- zip_longest(rows, values) for `values` empty or as long as `rows` -/
def caseLines (univariate : Bool) : List (List Str) → List Str → List Str
  | [], _ => []
  | r :: rs, [] => (join [','] r ++ (if univariate then [] else [':'])) :: caseLines univariate rs []
  | r :: rs, v :: vs =>
      (join [','] r ++ (if univariate then [] else [':']) ++ ':' :: v) :: caseLines univariate rs vs

/-- header lines in the order the writer emits them; `nl` = the no-label line -/
def headerLines (nl : Str) (o : WOpts) : List Str :=
  (match o.commentLines with
    | [] => []
    | c :: cs => c :: cs.map (fun l => '#' :: ' ' :: l))
  ++ ["@problemName ".toList ++ o.problemName,
      "@timeStamps ".toList ++ boolStr o.timestamp,
      "@univariate ".toList ++ boolStr o.univariate]
  ++ (if o.equalLength then ["@equalLength true".toList] else [])
  ++ (if o.seriesLength > 0 then ["@seriesLength ".toList ++ o.seriesLengthStr] else [])
  ++ [if o.classLabel ≠ [] then "@classLabel true ".toList ++ join [' '] o.classLabel else nl]
  ++ ["@data".toList]

/-- `write_dataframe_to_tsfile(data, path, ...)`: text of `<problem_name>_transform.ts`.
`panel[i]` = tokens pandas prints for `data.iloc[i, 0]`; `values` = `class_value_list`. -/
def writeWith (nl : Str) (o : WOpts) (panel : List (List Str)) (values : List Str) : Except Err Str :=
  if panel.length ≠ values.length ∧ values.length > 0 then .error .index
  else if o.equalLength ∧ o.seriesLength = -1 then .error .value
  else .ok (unlines (headerLines nl o ++ caseLines o.univariate panel values))

def write := writeWith noLabelLine

/-! ### `load_from_arff_to_dataframe` -/

/-- `s.split(sep)` for a multi-character separator (leftmost, non-overlapping); `skip` = characters of a
just matched separator still to be dropped -/
def splitOnStrAux (sep : Str) : Nat → Str → Str → List Str
  | _, cur, [] => [cur.reverse]
  | skip + 1, cur, _ :: cs => splitOnStrAux sep skip cur cs
  | 0, cur, c :: cs =>
    if sep.isPrefixOf (c :: cs) then cur.reverse :: splitOnStrAux sep (sep.length - 1) [] cs
    else splitOnStrAux sep 0 (c :: cur) cs

def splitOnStr (sep : Str) (s : Str) : List Str := splitOnStrAux sep 0 [] s

structure ArffSt where
  started : Bool := false
  multi : Bool := false
  first : Bool := true
  inst : List (List Series) := []
  labels : List Str := []

def kwAttribute : Str := "@attribute".toList
def kwRelational : Str := "relational".toList
def sepQuoteComma : Str := ['\'', ',']
def sepBackslashN : Str := ['\\', 'n']

/-- `instance_list[dim].append(...)` for `dim in range(len(row))`; `IndexError` when the row has more
dimensions than the first case had -/
def appendRowArff : List (List Series) → List Series → Except Err (List (List Series))
  | ls, [] => .ok ls
  | [], _ :: _ => .error .index
  | l :: ls, s :: ss => (appendRowArff ls ss).map (fun r => (l ++ [s]) :: r)

def arffStep (hasLabels : Bool) (st : ArffSt) (raw : Str) : Except Err ArffSt :=
  if strip raw = [] then .ok st
  else
    let low := lower raw
    let st := if !st.multi && contains kwAttribute low && contains kwRelational low
      then { st with multi := true } else st
    if contains kwData low then .ok { st with started := true }
    else if !st.started then .ok st
    else
      let line := replaceQ raw
      if st.multi then
        let r : Except Err (Str × List Str) :=
          if hasLabels then
            match splitOnStr sepQuoteComma line with
            | [l, cv] => .ok (l, st.labels ++ [strip cv])
            | _ => .error .value
          else .ok (line, st.labels)
        match r with
        | .error e => .error e
        | .ok (l, labels) =>
          let dims := match splitOnStr sepBackslashN l with
            | d0 :: ds => (d0.filter (· ≠ '\'')) :: ds
            | [] => []
          let inst := if st.first then List.replicate dims.length [] else st.inst
          -- dimension by dimension: a float error in an existing column comes first, then the
          -- `IndexError` of a surplus dimension
          match (dims.take inst.length).mapM (fun d => floats (splitOn ',' d)) with
          | .error e => .error e
          | .ok row =>
            if dims.length > inst.length then .error .index
            else (appendRowArff inst row).map
              (fun inst' => { st with first := false, inst := inst', labels := labels })
      else
        let inst := if st.first then [[]] else st.inst
        let parts := splitOn ',' line
        if hasLabels then
          match floats parts.dropLast with
          | .error e => .error e
          | .ok s => (appendRowArff inst [s]).map (fun inst' =>
              { st with first := false, inst := inst', labels := st.labels ++ [strip (parts.getLastD [])] })
        else
          match floats parts with
          | .error e => .error e
          | .ok s => (appendRowArff inst [s]).map (fun inst' => { st with first := false, inst := inst' })

def arffRun (hasLabels : Bool) : ArffSt → List Str → Except Err ArffSt
  | st, [] => .ok st
  | st, l :: ls => match arffStep hasLabels st l with
    | .ok st' => arffRun hasLabels st' ls
    | .error e => .error e

/-- `load_from_arff_to_dataframe(path, has_class_labels)` on the file's text -/
def parseArff (hasLabels : Bool) (text : Str) : Except Err Panel :=
  match arffRun hasLabels {} (lines text) with
  | .error e => .error e
  | .ok st =>
    -- pandas: all columns of a frame have the same number of rows
    match st.inst with
    | [] => .ok ⟨[], if hasLabels then some st.labels else none⟩
    | c :: cs => if cs.all (fun d => d.length = c.length)
        then .ok ⟨st.inst, if hasLabels then some st.labels else none⟩ else .error .value

/-! ### `load_from_ucr_tsv_to_dataframe` (rectangular files; `pd.read_csv(sep="\t", header=None)` is a
black box that yields the tab separated fields of the non blank lines) -/

def parseTsv (text : Str) : Except Err Panel :=
  let rows := ((lines text).filter (fun l => strip l ≠ [])).map (splitOn '\t')
  match rows.mapM (fun r => floats (r.drop 1)) with
  | .error e => .error e
  | .ok xs => .ok ⟨[xs], some (rows.map (fun r => strip (r.headD [])))⟩

/-! ### `_load_dataset(name, split, return_X_y)` -/

inductive Split | train | test | none
  deriving DecidableEq, Repr

/-- column-wise `pd.concat([X_train, X_test])` -/
def concatDims : List (List Series) → List (List Series) → List (List Series)
  | a :: as, b :: bs => (a ++ b) :: concatDims as bs
  | _, _ => []

/-- `(X, y)` returned for a split from the parsed TRAIN and TEST files -/
def loadSplit (sp : Split) (tr te : Panel) : Panel :=
  match sp with
  | .train => tr
  | .test => te
  | .none => ⟨concatDims tr.dims te.dims,
      match tr.labels, te.labels with
      | some a, some b => some (a ++ b)
      | _, _ => Option.none⟩

/-- the single-frame form: the X columns plus a `class_val` column -/
def toFrame (p : Panel) : List (List Series) × Option (List Str) := (p.dims, p.labels)

end SkVerif.TsFile
