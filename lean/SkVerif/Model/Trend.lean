/-
Executable model of
* sktime/forecasting/trend.py (PolynomialTrendForecaster.fit / _predict): time axis `0 … n-1`,
  `PolynomialFeatures(degree, include_bias)` on one column, prediction at `fh.to_absolute_int(y.index[0], cutoff)`;
  the regressor is abstract for a general degree (the model yields the design matrices it receives);
  for degree ≤ 1 with the default `LinearRegression(fit_intercept=False)` the least-squares solution is
  computed in closed form over `Rat` (minimum-norm solution when the system is rank deficient, as `lstsq`).
* sktime/forecasting/base/adapters/_statsmodels.py (_StatsModelsAdapter._predict): `start, end` from the
  horizon, the wrapped model's `predict(start, end)` (abstract: a function from zero-based position to value,
  labelled by the training index continued), `.loc[fh.to_absolute(cutoff)]`.
Contiguous integer labels `origin, origin+1, …`.  Import-free apart from the shared horizon model.
-/
import SkVerif.Model.Naive
namespace SkVerif.Trend
open SkVerif SkVerif.Naive

/-! ### PolynomialFeatures on a single column -/

/-- `x, x², …` built as sklearn does: each new degree multiplies the previous column by `x` -/
def powersFrom (x : Int) : Nat → Int → List Int
  | 0, _ => []
  | k + 1, cur => cur :: powersFrom x k (cur * x)

/-- one row of `PolynomialFeatures(degree, include_bias).transform([[x]])` -/
def polyRow (degree : Nat) (bias : Bool) (x : Int) : List Int :=
  (if bias then [1] else []) ++ powersFrom x degree x

/-- `degree = 0` without bias is rejected by sklearn at fit ("empty output array") -/
def checkPoly (degree : Nat) (bias : Bool) : Except Err Unit :=
  if degree = 0 ∧ !bias then .error .value else .ok ()

/-- the time points `_predict` evaluates at: `fh.to_absolute_int(y.index[0], cutoff)` and the labels of the result -/
def predTimes (n : Nat) (origin : Int) (raw : FH.Raw) (rel : Bool) : Except Err (List Int × List Int) := do
  if n = 0 then throw .value
  let fh ← liftFH (FH.checkFh (FH.mk raw rel) false)
  let cutoff : Int := origin + (n : Int) - 1
  let ai ← liftFH (FH.toAbsoluteInt fh origin (some cutoff))
  let ab ← liftFH (FH.toAbsolute fh (some cutoff))
  pure (ai.vals, ab.vals)

/-- what the inner regressor receives: `(X_fit, X_pred, labels)` -/
def designs (degree : Nat) (bias : Bool) (n : Nat) (origin : Int) (raw : FH.Raw) (rel : Bool) :
    Except Err (List (List Int) × List (List Int) × List Int) := do
  if n = 0 then throw .value
  checkPoly degree bias
  let (ts, labels) ← predTimes n origin raw rel
  let xfit := (List.range n).map (fun (i : Nat) => polyRow degree bias (i : Int))   -- np.arange(n_timepoints)
  pure (xfit, ts.map (polyRow degree bias), labels)

/-! ### closed-form least squares for degree ≤ 1 -/

def sumR (l : List Rat) : Rat := l.sum

/-- `(t_i, y_i)` with `t_i = i` -/
def points (y : List Rat) : List (Rat × Rat) :=
  (List.range y.length).zip y |>.map (fun (p : Nat × Rat) => (((p.1 : Int) : Rat), p.2))

/-- coefficients `(a, b)` of `a + b·t`; `degree ≤ 1`.  Rank-deficient cases take the minimum-norm solution. -/
def olsCoef (degree : Nat) (bias : Bool) (y : List Rat) : Rat × Rat :=
  let pts := points y
  let n : Rat := (y.length : Int)
  let st := sumR (pts.map (·.1))
  let sy := sumR (pts.map (·.2))
  let stt := sumR (pts.map (fun p => p.1 * p.1))
  let sty := sumR (pts.map (fun p => p.1 * p.2))
  if degree = 0 then (sy / n, 0)                                  -- bias only (degree 0 without bias is rejected)
  else if bias then
    let det := n * stt - st * st
    if det = 0 then (sy / n, 0)                                   -- n = 1: design row (1, 0), min-norm
    else
      let b := (n * sty - st * sy) / det
      ((sy - b * st) / n, b)
  else
    if stt = 0 then (0, 0)                                        -- n = 1: design row (0), min-norm
    else (0, sty / stt)

/-- `PolynomialTrendForecaster(degree ≤ 1, with_intercept).fit(y).predict(fh)` with the default regressor -/
def fitPredict (degree : Nat) (bias : Bool) (y : List Val) (origin : Int) (raw : FH.Raw) (rel : Bool) :
    Except Err (List (Int × Val)) := do
  if y.length = 0 then throw .value
  checkPoly degree bias
  if y.any (·.isNone) then throw .value                            -- sklearn: "Input y contains NaN"
  let ys := y.filterMap id
  let (ts, labels) ← predTimes y.length origin raw rel
  let (a, b) := olsCoef degree bias ys
  pure (labels.zip (ts.map (fun (t : Int) => some (a + b * (t : Rat)))))

/-! ### statsmodels adapter -/

/-- `.loc[labels]` on a series given as (label, value) pairs: every label must be present -/
def locLabels (s : List (Int × Val)) (labels : List Int) : Except Err (List (Int × Val)) :=
  mapE (fun l => match s.find? (fun p => p.1 == l) with
    | some p => .ok p
    | none => .error .key) labels

/-- `sm i` = the wrapped fitted model's prediction for zero-based position `i` (in-sample fitted value for
`i < n`, forecast beyond).  `predict(start, end)` returns positions `start … end` labelled `origin + i`. -/
def adapterPredict (sm : Int → Val) (n : Nat) (origin : Int) (raw : FH.Raw) (rel : Bool) :
    Except Err (List (Int × Val)) := do
  let (ts, labels) ← predTimes n origin raw rel
  let start := ts.headD 0                                          -- [[0, -1]]
  let stop := ts.getLast?.getD 0
  let dense := (arange start (stop + 1)).map (fun i => (origin + i, sm i))
  locLabels dense labels

end SkVerif.Trend
