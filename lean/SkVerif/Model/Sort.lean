/- Structural insertion sort (kernel-reducible, unlike well-founded `mergeSort`). Import-free. -/
namespace SkVerif

def insertBy {α} (le : α → α → Bool) (a : α) : List α → List α
  | [] => [a]
  | b :: l => if le a b then a :: b :: l else b :: insertBy le a l

def isortBy {α} (le : α → α → Bool) : List α → List α
  | [] => []
  | a :: l => insertBy le a (isortBy le l)

def sortInts (l : List Int) : List Int := isortBy (fun a b => decide (a ≤ b)) l
def sortRats (l : List Rat) : List Rat := isortBy (fun a b => decide (a ≤ b)) l

/-- drop repeated values, keeping the last occurrence of each (structural) -/
def dedupInts : List Int → List Int
  | [] => []
  | a :: l => if l.contains a then dedupInts l else a :: dedupInts l

end SkVerif
