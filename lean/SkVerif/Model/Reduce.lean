/-
Model of sktime/forecasting/compose/_reduce.py (reduction of forecasting to regression) and of the
window-forecaster parts of sktime/forecasting/base/_sktime.py it relies on
(`_set_y_X`, `_set_fh` of the two horizon mixins, `_update_y_X` for a contiguous batch, `update`,
`predict` → `_predict` → `_predict_fixed_cutoff`, `_get_last_window`, `_predict_nan`).
Import-free apart from the shared horizon model.  Follows the code's algorithm:

* `_sliding_window_transform` builds the zero-initialised cube `Zt` of shape
  `(n + E, n_variables, E + 1)`, `E = window_length + fh_max`, writes the series `E + 1` times at
  shifted offsets (`Zt[E-k : n+E-k, :, k] = z`), cuts `Zt[E:-E]`, reads the targets
  `Zt[:, 0, window_length + fh]` and the lags `Zt[:, :, :window_length]`, and (tabular scitype)
  reshapes every instance `(n_variables, window_length)` to one row, variable-major.
* the four `_fit` bodies produce the list of `(X, y)` pairs handed to clones of the wrapped regressor,
* the four `_predict_last_window` bodies, with array mutation (`last[:, 0, wl+i] = y_pred[i]`)
  turned into a returned list (`List.set`).

Everything is parametric in the value type `α`: values are only moved, never computed on; the only
things the code does with a value are: write the padding `0.0` (`Vals.zero`), return NaN
(`Vals.nan`) and test NaN/inf (`Vals.bad`).  A regressor is an arbitrary pair of functions
(`Regressor`): training data ↦ (instance ↦ output).

An *instance* (`Inst α`) is what one row of the regressor's `X` argument holds: for the
time-series-regressor scitype the `(n_variables × window_length)` panel entry, for the tabular
scitype the single flattened row (represented as a one-variable instance `[row]`).
-/
import SkVerif.Model.FH
import SkVerif.Model.Split
namespace SkVerif.Reduce

inductive Err | value | type | notimpl | assert | index | attr | other
  deriving DecidableEq, Repr

/-- the three things the code does with a value besides moving it -/
structure Vals (α : Type) where
  zero : α            -- np.zeros padding
  nan : α             -- np.nan returned by `_predict_nan`
  bad : α → Bool      -- np.isnan(v) or np.isinf(v)
  isnan : α → Bool    -- pd.isna(v): what `combine_first` fills from the older data

abbrev Inst (α : Type) := List (List α)

inductive Scitype | tabular | panel
  deriving DecidableEq, Repr

inductive Strategy | direct | recursive | multioutput | dirrec
  deriving DecidableEq, Repr

/-- what the user may pass as `window_length` -/
inductive WLRaw
  | int (v : Int)     -- int / np.integer
  | nonint            -- float, bool, str
  | none              -- None (accepted by `check_window_length`, fails later in `None + int`)
  deriving DecidableEq, Repr

/-- `check_window_length` -/
def checkWindowLength : WLRaw → Except Err (Option Nat)
  | .none => .ok none
  | .nonint => .error .value
  | .int v => if v < 1 then .error .value else .ok (some v.toNat)

section
variable {α : Type}

/-- `_concat_y_X`: `z[t] = [y[t], X[t,0], X[t,1], …]` (`X` given by rows) -/
def concatYX (y : List α) (X : Option (List (List α))) : List (List α) :=
  match X with
  | none => y.map fun v => [v]
  | some rows => List.zipWith (fun v r => v :: r) y rows

/-- `_check_fh`: asserts all steps out-of-sample, returns `fh.to_indexer()` = steps − 1 -/
def checkFhIdx (fh : List Int) : Except Err (List Nat) :=
  if fh.all (fun h => decide (0 < h)) then .ok (fh.map fun h => (h - 1).toNat) else .error .assert

/-- `z[t, v]` -/
def getZ (V : Vals α) (z : List (List α)) (t v : Nat) : α :=
  match z[t]? with
  | some row => row.getD v V.zero
  | none => V.zero

/-- entry `Zt[t, v, k]` after the loop `for k: Zt[E-k : n+E-k, :, k] = z` over a zero array -/
def cubeEntry (V : Vals α) (z : List (List α)) (n E t v k : Nat) : α :=
  let i := E - k
  let j := n + E - k
  if i ≤ t ∧ t < j then getZ V z (t - i) v else V.zero

/-- the pre-allocated and filled array `Zt`, shape `(n + E, nv, E + 1)` -/
def cube (V : Vals α) (z : List (List α)) (n nv E : Nat) : List (Inst α) :=
  (List.range (n + E)).map fun t =>
    (List.range nv).map fun v =>
      (List.range (E + 1)).map fun k => cubeEntry V z n E t v k

/-- Python `l[a:-b]` for `a, b ≥ 0` (note `l[a:-0]` is empty) -/
def sliceMid {β : Type} (l : List β) (a b : Nat) : List β :=
  if b = 0 then [] else (l.take (l.length - b)).drop a

/-- `Xt.reshape(Xt.shape[0], -1)` on one instance: variable-major concatenation -/
def flattenInst (i : Inst α) : Inst α := [i.flatten]

/-- `A.reshape(A.shape[0], -1)` on one instance for the tabular scitype, unchanged otherwise -/
def toSci (sci : Scitype) (inst : Inst α) : Inst α :=
  match sci with
  | .tabular => flattenInst inst
  | .panel => inst

/-- `n_variables` of `z.shape` (an empty `y` still reshapes to `(0, 1)`) -/
def nVars (z : List (List α)) : Nat := match z with | [] => 1 | r :: _ => r.length

/-- `_sliding_window_transform(y, window_length, fh, X, scitype)` → `(yt, Xt)`;
`fh` = relative steps in the order stored by `ForecastingHorizon` (ascending). -/
def swt (V : Vals α) (y : List α) (wl : WLRaw) (fh : List Int) (X : Option (List (List α)))
    (sci : Scitype) : Except Err (List (List α) × List (Inst α)) := do
  let wl ← checkWindowLength wl
  let z := concatYX y X
  let n := z.length
  let nv := nVars z
  let idx ← checkFhIdx fh
  match idx.getLast? with
  | none => .error .index                        -- fh[-1] on an empty array
  | some fhMax =>
    match wl with
    | none => .error .type                       -- None + int
    | some wl =>
      if wl + fhMax ≥ n then .error .value
      else
        let E := wl + fhMax
        let Zt := sliceMid (cube V z n nv E) E E
        let yt := Zt.map fun inst => idx.map fun f => (inst.headD []).getD (wl + f) V.zero
        let Xt := Zt.map fun inst => inst.map fun var => var.take wl
        match sci with
        | .tabular => .ok (yt, Xt.map flattenInst)
        | .panel => .ok (yt, Xt)

/-- the `y` argument of `regressor.fit`: 1-d or 2-d -/
inductive Target (α : Type)
  | vec (l : List α)
  | mat (l : List (List α))

/-- `yt[:, i]` -/
def column (V : Vals α) (m : List (List α)) (i : Nat) : List α := m.map fun r => r.getD i V.zero

/-- every step out-of-sample (`fh.is_all_out_of_sample`, `len(fh.to_in_sample()) == 0`) -/
def allOut (fh : List Int) : Bool := fh.all fun h => decide (0 < h)

def wlRawOf : Option Nat → WLRaw
  | none => .none
  | some w => .int w

/-- `Xt.shape[2]` of a `(rows, 1, ·)` array -/
def lastDim (Xt : List (Inst α)) : Nat :=
  match Xt with
  | [] => 0
  | inst :: _ => (inst.headD []).length

/-- The `(X, y)` pairs passed to `clone(estimator).fit`, in call order, for each `_fit`.
`wlRaw` = `self.window_length` (used by direct/multioutput/dirrec), `wl_` = `self.window_length_`
(used by recursive); `fh` = `self._fh` (relative steps, ascending) or `none`. -/
def fitJobs (V : Vals α) (s : Strategy) (sci : Scitype) (wlRaw : WLRaw) (wl_ : Option Nat)
    (y : List α) (X : Option (List (List α))) (fh : Option (List Int)) :
    Except Err (List (List (Inst α) × Target α)) :=
  match s with
  | .direct =>
    match fh with
    | none => .error .value
    | some fh =>
      if !allOut fh then .error .notimpl
      else do
        let (yt, Xt) ← swt V y wlRaw fh X sci
        pure ((List.range fh.length).map fun i => (Xt, Target.vec (column V yt i)))
  | .multioutput =>
    match fh with
    | none => .error .value
    | some fh =>
      if !allOut fh then .error .notimpl
      else do
        let (yt, Xt) ← swt V y wlRaw fh X sci
        pure [(Xt, Target.mat yt)]
  | .recursive => do
    let (yt, Xt) ← swt V y (wlRawOf wl_) [1] X sci
    pure [(Xt, Target.vec yt.flatten)]
  | .dirrec =>
    match X with
    | some _ => .error .notimpl
    | none =>
      match fh with
      | none => .error .value
      | some fh =>
        if !allOut fh then .error .notimpl
        else do
          let (yt, Xt) ← swt V y wlRaw fh none sci
          -- X_full = concatenate([Xt (rows,1,wl), yt[:,None,:]], axis=2);  n_timepoints = Xt.shape[2]
          let xFull := List.zipWith (fun (inst : Inst α) (ytr : List α) => inst.map fun var => var ++ ytr) Xt yt
          let ntp := lastDim Xt
          pure ((List.range fh.length).map fun i =>
            -- X_full[:, :, :n_timepoints + i], reshaped to 2d for the tabular scitype
            (xFull.map fun inst => toSci sci (inst.map fun var => var.take (ntp + i)),
             Target.vec (column V yt i)))

/-- a regressor: training data ↦ fitted predictor (single-target and multi-target use) -/
structure Regressor (α : Type) where
  train : List (Inst α) → List α → Inst α → α
  trainM : List (Inst α) → List (List α) → Inst α → Nat → α

/-- fitted clone -/
inductive Est (α : Type)
  | single (f : Inst α → α)
  | multi (f : Inst α → Nat → α)

def trainJob (R : Regressor α) : List (Inst α) × Target α → Est α
  | (X, .vec y) => .single (R.train X y)
  | (X, .mat y) => .multi (R.trainM X y)

/-- one recorded call on the wrapped regressor; `est` = ordinal of the `fit` call that trained it,
`out` = what `predict` returned -/
inductive Call (α : Type)
  | fit (X : List (Inst α)) (y : Target α)
  | predict (est : Nat) (X : Inst α) (out : List α)

/-- `series.loc[a:b]` on a contiguous integer index starting at `t0` (positional slice between the
two label positions) -/
def locSlice {β : Type} (t0 : Int) (l : List β) (a b : Int) : List β :=
  (l.take (b - t0 + 1).toNat).drop (a - t0).toNat

/-- `_get_last_window` -/
def lastWindow (t0 cutoff : Int) (wl : Nat) (y : List α) (X : Option (List (List α))) :
    List α × Option (List (List α)) :=
  let start := cutoff - (wl : Int) + 1
  (locSlice t0 y start cutoff, X.map fun rows => locSlice t0 rows start cutoff)

/-- `_is_predictable` -/
def isPredictable (V : Vals α) (wl : Nat) (w : List α) : Bool :=
  w.length == wl && w.all fun v => !V.bad v

/-- `A.T` for `A` given by rows with `nc` columns -/
def transposeRows (V : Vals α) (rows : List (List α)) (nc : Nat) : List (List α) :=
  (List.range nc).map fun c => rows.map fun r => r.getD c V.zero

def nCols (X : List (List α)) : Nat := match X with | [] => 0 | r :: _ => r.length

/-- `self._X.shape[1]` (0 when no exogenous data was given) -/
def xCols (X : Option (List (List α))) : Nat :=
  match X with
  | none => 0
  | some rows => nCols rows

/-- numpy `dst[0, :, :] = src` for `dst` of shape `(1, A, B)` and `src` of shape `(a, b)`:
broadcast or ValueError -/
def bcast2 (V : Vals α) (src : List (List α)) (a b A B : Nat) : Except Err (List (List α)) :=
  if (a = A ∨ a = 1) ∧ (b = B ∨ b = 1) then
    .ok ((List.range A).map fun i => (List.range B).map fun j =>
      ((src.getD (if a = 1 then 0 else i) [])).getD (if b = 1 then 0 else j) V.zero)
  else .error .value

/-- the pre-allocated and filled `X_pred` of shape `(1, n_columns, window_length)`:
`X_pred[:, 0, :] = y_last; X_pred[:, 1:, :] = X_last.T` -/
def predCube (V : Vals α) (yLast : List α) (XLast : Option (List (List α))) (nc : Nat) : Inst α :=
  match XLast with
  | none => [yLast]
  | some rows => yLast :: transposeRows V rows nc

/-- `X_pred` of `_DirectReducer` / `_MultioutputReducer._predict_last_window` -/
def predInst (V : Vals α) (sci : Scitype) (yLast : List α) (XLast : Option (List (List α))) (nc : Nat) : Inst α :=
  toSci sci (predCube V yLast XLast nc)

def applyEst (e : Est α) (x : Inst α) : α :=
  match e with
  | .single f => f x
  | .multi f => f x 0

/-- `_DirectReducer._predict_last_window` → (predict calls, y_pred) -/
def directPredict (V : Vals α) (sci : Scitype) (wl : Nat) (ests : List (Nat × Est α))
    (yLast : List α) (XLast : Option (List (List α))) (nc : Nat) (fh : List Int) :
    List (Call α) × List α :=
  if !isPredictable V wl yLast then ([], fh.map fun _ => V.nan)
  else
    let x := predInst V sci yLast XLast nc
    (ests.map fun e => Call.predict e.1 x [applyEst e.2 x], ests.map fun e => applyEst e.2 x)

/-- `_MultioutputReducer._predict_last_window` -/
def multiPredict (V : Vals α) (sci : Scitype) (wl : Nat) (ests : List (Nat × Est α))
    (yLast : List α) (XLast : Option (List (List α))) (nc : Nat) (fh : List Int) :
    List (Call α) × List α :=
  if !isPredictable V wl yLast then ([], fh.map fun _ => V.nan)
  else
    let x := predInst V sci yLast XLast nc
    match ests with
    | (k, .multi f) :: _ =>
      let out := (List.range fh.length).map fun j => f x j
      ([Call.predict k x out], out)
    | (k, .single f) :: _ => ([Call.predict k x [f x]], [f x])
    | [] => ([], [])

/-- loop body state of `_RecursiveReducer._predict_last_window`: `last` (row 0 = y, rows 1.. = exogenous) -/
def recLoop (f : Inst α → α) (k : Nat) (sci : Scitype) (wl : Nat) (exo : List (List α)) :
    (steps : Nat) → (i : Nat) → (yrow : List α) → List (Call α) × List α
  | 0, _, _ => ([], [])
  | m + 1, i, yrow =>
    let xp : Inst α := toSci sci (((yrow.drop i).take wl) :: exo.map fun r => (r.drop i).take wl)   -- last[:, :, i:wl+i]
    let p := f xp
    let (cs, ps) := recLoop f k sci wl exo m (i + 1) (yrow.set (wl + i) p)             -- last[:, 0, wl+i] = y_pred[i]
    (Call.predict k xp [p] :: cs, p :: ps)

/-- rows `1..` of the array `last` of `_RecursiveReducer._predict_last_window`:
`last[:, 1:, :wl] = X_last.T;  last[:, 1:, wl:] = X.T`  (`n_columns` is taken from the `X` passed to predict) -/
def recExo (V : Vals α) (wl fhMax : Nat) (XLast Xp : Option (List (List α))) : Except Err (List (List α)) :=
  match Xp with
  | none => .ok []
  | some xp =>
    match XLast with
    | none => .error .attr                                   -- None.T
    | some xl =>
      let c' := nCols xp
      let c := nCols xl
      do
        let a ← bcast2 V (transposeRows V xl c) c xl.length c' wl          -- last[:, 1:, :wl] = X_last.T
        let b ← bcast2 V (transposeRows V xp c') c' xp.length c' fhMax     -- last[:, 1:, wl:] = X.T
        pure (List.zipWith (· ++ ·) a b)

/-- `_RecursiveReducer._predict_last_window`; `Xp` = the `X` passed to `predict` (by rows) -/
def recursivePredict (V : Vals α) (sci : Scitype) (wl : Nat) (ests : List (Nat × Est α))
    (hasFitX : Bool) (yLast : List α) (XLast : Option (List (List α)))
    (Xp : Option (List (List α))) (fh : List Int) : Except Err (List (Call α) × List α) :=
  if hasFitX && Xp.isNone then .error .value
  else if !isPredictable V wl yLast then .ok ([], fh.map fun _ => V.nan)
  else
    let fhMax := (fh.getLast?.getD 0).toNat
    match recExo V wl fhMax XLast Xp with
    | .error e => .error e
    | .ok exo =>
      match ests with
      | (k, e) :: _ =>
        let r := recLoop (applyEst e) k sci wl exo fhMax 0 (yLast ++ List.replicate fhMax V.zero)
        .ok (r.1, fh.map fun h => r.2.getD (h - 1).toNat V.zero)             -- y_pred[fh.to_indexer()]
      | [] => .ok ([], [])

/-- loop of `_DirRecReducer._predict_last_window` over the estimators; `row` = `X_full[0, 0, :]` -/
def dirrecLoop (V : Vals α) (sci : Scitype) (wl : Nat) :
    List (Nat × Est α) → (i : Nat) → (row : List α) → List (Call α) × List α
  | [], _, _ => ([], [])
  | (k, e) :: es, i, row =>
    let xp : Inst α := toSci sci [row.take (wl + i)]                         -- X_full[:, :, :wl+i]
    let p := applyEst e xp
    let (cs, ps) := dirrecLoop V sci wl es (i + 1) (row.set (wl + i) p)      -- X_full[:, :, wl+i] = y_pred[i]
    (Call.predict k xp [p] :: cs, p :: ps)

/-- `_DirRecReducer._predict_last_window` -/
def dirrecPredict (V : Vals α) (sci : Scitype) (wl : Nat) (ests : List (Nat × Est α))
    (yLast : List α) (Xp : Option (List (List α))) (fh : List Int) : Except Err (List (Call α) × List α) :=
  match Xp with
  | some _ => .error .notimpl
  | none =>
    if !isPredictable V wl yLast then .ok ([], fh.map fun _ => V.nan)
    else .ok (dirrecLoop V sci wl ests 0 (yLast ++ List.replicate fh.length V.zero))

/-! ### the forecaster object -/

structure Fc (α : Type) where
  strategy : Strategy
  sci : Scitype
  wlRaw : WLRaw
  wl_ : Option Nat := none
  y : List α := []
  X : Option (List (List α)) := none
  t0 : Int := 0
  cutoff : Int := 0
  fh : Option (List Int) := none
  fitted : Bool := false
  ests : List (Nat × Est α) := []
  nfit : Nat := 0                -- number of regressor.fit calls made so far

def requiredFh : Strategy → Bool
  | .recursive => false
  | _ => true

/-- `check_fh(values)`: build the (relative) horizon, reject duplicates and the empty horizon -/
def checkFh (vs : List Int) : Except Err (List Int) :=
  match FH.checkFh (FH.mk (.ints vs) true) false with
  | .ok fh => .ok fh.vals
  | .error .type => .error .type
  | .error _ => .error .value

/-- `_set_fh` of `_RequiredForecastingHorizonMixin` / `_OptionalForecastingHorizonMixin` → new `_fh` -/
def setFh (required fitted : Bool) (stored : Option (List Int)) (fh : Option (List Int)) :
    Except Err (Option (List Int)) :=
  match fh with
  | none =>
    if required then (if fitted then .ok stored else .error .value)
    else (if fitted && stored.isNone then .error .value else .ok stored)
  | some vs => do
    let f ← checkFh vs
    if required then
      if fitted then (if stored = some f then .ok stored else .error .value)
      else .ok (some f)
    else .ok (some f)

/-- `_Reducer.fit(y, X, fh)`; the series carries labels `t0, t0+1, …` -/
def fit (V : Vals α) (R : Regressor α) (fc : Fc α) (t0 : Int) (y : List α) (X : Option (List (List α)))
    (fh : Option (List Int)) : Except Err (Fc α × List (Call α)) := do
  if y.isEmpty then .error .value                                          -- check_y: empty series
  let fh' ← setFh (requiredFh fc.strategy) fc.fitted fc.fh fh
  let wl_ ← checkWindowLength fc.wlRaw
  let jobs ← fitJobs V fc.strategy fc.sci fc.wlRaw wl_ y X fh'
  let ests := (List.range jobs.length).zip (jobs.map (trainJob R)) |>.map fun (i, e) => (fc.nfit + i, e)
  pure ({ fc with wl_ := wl_, y := y, X := X, t0 := t0, cutoff := t0 + y.length - 1, fh := fh',
                  fitted := true, ests := ests, nfit := fc.nfit + jobs.length },
        jobs.map fun j => Call.fit j.1 j.2)

/-- `new.combine_first(old)` on the overlap of two aligned blocks: the new value wins unless it is NaN -/
def pickNew (V : Vals α) (n o : α) : α := if V.isnan n then o else n

/-- aligned merge of the tail of the stored data with a new block (both start at the same label) -/
def mergeTail {β : Type} (pick : β → β → β) : List β → List β → List β
  | [], ns => ns
  | os, [] => os
  | o :: os, n :: ns => pick n o :: mergeTail pick os ns

/-- `new.combine_first(old)` for a contiguous block `new` whose first label sits `off` positions after the
first stored label (`off ≤ old.length`: overlapping or directly continuing) -/
def mergeAt {β : Type} (pick : β → β → β) (off : Nat) (old new : List β) : List β :=
  old.take off ++ mergeTail pick (old.drop off) new

/-- `_update_y_X(y_new, X_new)` for a contiguous batch whose first label is `u0`
(`t0 ≤ u0 ≤ t0 + len`: it re-states stored observations and/or continues the series).
The cutoff moves to the batch's last label — also when that lies before the end of what is stored. -/
def updateMerge (V : Vals α) (fc : Fc α) (u0 : Int) (yNew : List α) (XNew : Option (List (List α))) : Fc α :=
  if yNew.isEmpty then fc
  else
    let off := (u0 - fc.t0).toNat
    { fc with y := mergeAt (pickNew V) off fc.y yNew, cutoff := u0 + yNew.length - 1,
              X := match fc.X, XNew with
                | some a, some b => some (mergeAt (List.zipWith (pickNew V)) off a b)
                | a, _ => a }

/-- `update(y_new, X_new, update_params)` -/
def update (V : Vals α) (R : Regressor α) (fc : Fc α) (u0 : Int) (yNew : List α) (XNew : Option (List (List α)))
    (refit : Bool) : Except Err (Fc α × List (Call α)) :=
  -- `check_y_X(y, X, allow_empty=True)` still calls `check_X(X)` with allow_empty=False
  if yNew.isEmpty && XNew.isSome then .error .value else
  let fc1 := updateMerge V fc u0 yNew XNew
  if refit then
    match fc1.fh with
    | none => .error .value                                                -- `self.fh` property
    | some fh => fit V R fc1 fc1.t0 fc1.y fc1.X (some fh)
  else .ok (fc1, [])

/-- what a FAILED `update` leaves behind: input validation fails before anything is stored; the refit
fails (no horizon) after `_update_y_X` has already merged the data and moved the cutoff -/
def updateFailed (V : Vals α) (fc : Fc α) (u0 : Int) (yNew : List α) (XNew : Option (List (List α))) : Fc α :=
  if yNew.isEmpty && XNew.isSome then fc else updateMerge V fc u0 yNew XNew

/-- `_predict(fh, X)` of `_BaseWindowForecaster` for a relative horizon → (predict calls, forecast as (label, value) list) -/
def predictCore (V : Vals α) (fc : Fc α) (fh : List Int) (Xp : Option (List (List α))) :
    Except Err (List (Call α) × List (Int × α)) :=
  if !allOut fh then .error .notimpl                                     -- `_predict_in_sample`
  else
    let wl := fc.wl_.getD 0
    let (yLast, XLast) := lastWindow fc.t0 fc.cutoff wl fc.y fc.X
    let nc := xCols fc.X
    do
      let r ← match fc.strategy with
        | .direct => pure (directPredict V fc.sci wl fc.ests yLast XLast nc fh)
        | .multioutput => pure (multiPredict V fc.sci wl fc.ests yLast XLast nc fh)
        | .recursive => recursivePredict V fc.sci wl fc.ests fc.X.isSome yLast XLast Xp fh
        | .dirrec => dirrecPredict V fc.sci wl fc.ests yLast Xp fh
      pure (r.1, List.zipWith (fun h v => (fc.cutoff + h, v)) fh r.2)      -- pd.Series(y_pred, index=fh.to_absolute(cutoff))

/-- `predict(fh, X)` -/
def predict (V : Vals α) (fc : Fc α) (fh : Option (List Int)) (Xp : Option (List (List α))) :
    Except Err (List (Call α) × List (Int × α)) := do
  let fh' ← setFh (requiredFh fc.strategy) fc.fitted fc.fh fh
  match fh' with
  | none => .error .value
  | some fh => predictCore V fc fh Xp

/-- how many `regressor.predict` calls may still succeed before the recording regressor raises
(`none` = it never raises); the failing call itself is not recorded and later calls succeed again -/
abbrev Budget := Option Nat

/-- a prediction loop interrupted by the regressor raising on one of its calls: the loops keep no state
outside their local arrays, so the interrupted run is the prefix of the calls it would have made -/
def limitCalls (b : Budget) (calls : List (Call α)) : Budget × List (Call α) × Bool :=
  match b with
  | none => (none, calls, false)
  | some k => if calls.length ≤ k then (some (k - calls.length), calls, false) else (none, calls.take k, true)

/-- `_predict(fh, X)` with a regressor that may raise (RuntimeError → `Err.other`) -/
def predictCoreB (V : Vals α) (fc : Fc α) (fh : List Int) (Xp : Option (List (List α))) (b : Budget) :
    Budget × List (Call α) × Except Err (List (Int × α)) :=
  match predictCore V fc fh Xp with
  | .error e => (b, [], .error e)
  | .ok (calls, out) =>
    let r := limitCalls b calls
    (r.1, r.2.1, if r.2.2 then .error .other else .ok out)

/-- loop of `_predict_moving_cutoff`: for every training window of the splitter,
`_update_predict_single(y.iloc[window], fh, X, update_params)` = (X given → NotImplementedError)
`update(y_new, None, update_params)` then `_predict(fh, None)`.
Returns the forecaster AS IT IS when the loop ends or is left by an exception. -/
def updatePredictLoop (V : Vals α) (R : Regressor α) (fh : List Int) (u0 : Int) (yNew : List α)
    (Xup : Option (List (List α))) (refit : Bool) :
    List Split.Fold → Budget → Fc α → Budget × List (Call α) × Fc α × Option Err
  | [], b, fc => (b, [], fc, none)
  | fold :: rest, b, fc =>
    if Xup.isSome then (b, [], fc, some .notimpl) else
    let a := (fold.1.head?.getD 0).toNat
    let block := (yNew.drop a).take fold.1.length                          -- y.iloc[new_window]
    match update V R fc (u0 + (a : Int)) block none refit with
    | .error e => (b, [], updateFailed V fc (u0 + (a : Int)) block none, some e)
    | .ok (fc1, c1) =>
      match predictCoreB V fc1 fh none b with
      | (b1, c2, .error e) => (b1, c1 ++ c2, fc1, some e)
      | (b1, c2, .ok _) =>
        let r := updatePredictLoop V R fh u0 yNew Xup refit rest b1 fc1
        (r.1, c1 ++ c2 ++ r.2.1, r.2.2.1, r.2.2.2)

/-- `update_predict(y_new, cv=None, X=Xup, update_params)` of `_BaseWindowForecaster` (default
`SlidingWindowSplitter(fh, window_length_, start_with_window=False)`): the cutoff is moved to just
before the new data, every growing/sliding window is fed through update + predict, and afterwards —
ALSO when the loop is left by an exception (`_detached_cutoff` restores in a `finally`) — the cutoff is
RESTORED while the remembered series keeps everything that was fed.
Returns the remaining budget, the regressor calls, the forecaster left behind and the error, if any
(the returned frame is not modelled). -/
def updatePredict (V : Vals α) (R : Regressor α) (fc : Fc α) (u0 : Int) (yNew : List α)
    (Xup : Option (List (List α))) (refit : Bool) (b : Budget) :
    Budget × List (Call α) × Fc α × Option Err :=
  match fc.fh with
  | none => (b, [], fc, some .value)
  | some fh =>
    if yNew.isEmpty then (b, [], fc, some .index) else                     -- `y.index[0]` of empty new data
    match Split.windowSplit .sliding yNew.length fh ((fc.wl_.getD 0 : Nat) : Int) 1 none false with
    | .error _ => (b, [], fc, some .value)
    | .ok folds =>
      let r := updatePredictLoop V R fh u0 yNew Xup refit folds b { fc with cutoff := u0 - 1 }
      (r.1, r.2.1, { r.2.2.1 with cutoff := fc.cutoff }, r.2.2.2)

/-- stage at which a history stopped -/
inductive Stage | fit | update | predict
  deriving DecidableEq, Repr

/-- what to do between fit and predict -/
inductive Upd (α : Type)
  | no
  | batch (u0 : Int) (y : List α) (X : Option (List (List α))) (refit : Bool)
  | updPredict (u0 : Int) (y : List α) (refit : Bool)

/-- `make_reduction(R, strategy, wl, scitype).fit(y, X, fhFit)`, optional `update` / `update_predict`,
`.predict(fhPred, Xp)`; returns every call the regressor clones received, in order, and the forecast or
the error with its stage. -/
def run (V : Vals α) (R : Regressor α) (s : Strategy) (sci : Scitype) (wl : WLRaw) (t0 : Int)
    (y : List α) (X : Option (List (List α))) (fhFit : Option (List Int)) (upd : Upd α)
    (fhPred : Option (List Int)) (Xp : Option (List (List α))) :
    List (Call α) × Except (Err × Stage) (List (Int × α)) :=
  let fc0 : Fc α := { strategy := s, sci := sci, wlRaw := wl }
  match fit V R fc0 t0 y X fhFit with
  | .error e => ([], .error (e, .fit))
  | .ok (fc1, c1) =>
    let u : List (Call α) × Except Err (Fc α) :=
      match upd with
      | .no => ([], .ok fc1)
      | .batch u0 yn xn refit =>
        match update V R fc1 u0 yn xn refit with
        | .error e => ([], .error e)
        | .ok (fc2, c2) => (c2, .ok fc2)
      | .updPredict u0 yn refit =>
        match updatePredict V R fc1 u0 yn none refit none with
        | (_, c2, _, some e) => (c2, .error e)
        | (_, c2, fc2, none) => (c2, .ok fc2)
    match u with
    | (c2, .error e) => (c1 ++ c2, .error (e, .update))
    | (c2, .ok fc2) =>
      match predict V fc2 fhPred Xp with
      | .error e => (c1 ++ c2, .error (e, .predict))
      | .ok (c3, out) => (c1 ++ c2 ++ c3, .ok out)

/-! ### general histories: every construction path, operations that fail and are followed by others -/

/-- the public ways to build a reducer -/
inductive Via
  | make                            -- make_reduction(estimator, strategy, window_length, scitype)
  | cls                             -- Direct/Recursive/Multioutput/DirRec × Tabular/TimeSeries RegressionForecaster(estimator, window_length, step_length)
  | reducedForecaster               -- deprecated ReducedForecaster(estimator, scitype, strategy, window_length, step_length)
  | reducedRegressionForecaster     -- deprecated ReducedRegressionForecaster(…)
  deriving DecidableEq, Repr

/-- construction: which `step_length` the forecaster ends up with (the deprecated factories refuse ≠ 1) -/
def construct (via : Via) (step : Int) : Except Err Int :=
  match via with
  | .make => .ok 1
  | .cls => .ok step
  | .reducedForecaster => if step = 1 then .ok 1 else .error .value
  | .reducedRegressionForecaster => if step = 1 then .ok 1 else .error .value

inductive Op (α : Type)
  | update (u0 : Int) (y : List α) (X : Option (List (List α))) (refit : Bool)
  | updPredict (u0 : Int) (y : List α) (Xup : Option (List (List α))) (refit : Bool)
  | predict (fh : Option (List Int)) (Xp : Option (List (List α)))

inductive OpRes (α : Type)
  | ok
  | forecast (out : List (Int × α))
  | err (e : Err)

/-- one operation on a fitted forecaster; a failed operation leaves the state the code's ordering leaves -/
def stepOp (V : Vals α) (R : Regressor α) (fc : Fc α) (b : Budget) : Op α → Fc α × Budget × List (Call α) × OpRes α
  | .update u0 y X refit =>
    match update V R fc u0 y X refit with
    | .ok (fc2, c) => (fc2, b, c, .ok)
    | .error e => (updateFailed V fc u0 y X, b, [], .err e)
  | .updPredict u0 y Xup refit =>
    match updatePredict V R fc u0 y Xup refit b with
    | (b2, c, fc2, none) => (fc2, b2, c, .ok)
    | (b2, c, fc2, some e) => (fc2, b2, c, .err e)
  | .predict fh Xp =>
    match setFh (requiredFh fc.strategy) fc.fitted fc.fh fh with
    | .error e => (fc, b, [], .err e)
    | .ok fh' =>
      let fc1 := { fc with fh := fh' }            -- the optional-horizon mixin has stored the new horizon by now
      match fh' with
      | none => (fc1, b, [], .err .value)
      | some f =>
        match predictCoreB V fc1 f Xp b with
        | (b2, c, .ok out) => (fc1, b2, c, .forecast out)
        | (b2, c, .error e) => (fc1, b2, c, .err e)

def runOps (V : Vals α) (R : Regressor α) : Fc α → Budget → List (Op α) → List (Call α) × List (OpRes α)
  | _, _, [] => ([], [])
  | fc, b, op :: ops =>
    let r := stepOp V R fc b op
    let rest := runOps V R r.1 r.2.1 ops
    (r.2.2.1 ++ rest.1, r.2.2.2 :: rest.2)

/-- construct through `via`, `fit(y, X, fhFit)`, then the operations one after the other — continuing after
an operation that raised.  (`check_step_length` runs in `fit` after `_set_y_X`/`_set_fh`, which can only
fail with ValueError as well, so it is checked first here.) -/
def runHist (V : Vals α) (R : Regressor α) (via : Via) (step : Int) (s : Strategy) (sci : Scitype) (wl : WLRaw)
    (t0 : Int) (y : List α) (X : Option (List (List α))) (fhFit : Option (List Int)) (b : Budget)
    (ops : List (Op α)) : List (Call α) × Except Err (List (OpRes α)) :=
  match construct via step with
  | .error e => ([], .error e)
  | .ok st =>
    if st < 1 then ([], .error .value)
    else
      match fit V R { strategy := s, sci := sci, wlRaw := wl } t0 y X fhFit with
      | .error e => ([], .error e)
      | .ok (fc1, c1) =>
        let r := runOps V R fc1 b ops
        (c1 ++ r.1, .ok r.2)

end
end SkVerif.Reduce
