/-
ThetaForecaster._predict (sktime/forecasting/theta.py) over the statsmodels adapter (C11):
  y_pred = adapter forecast of the wrapped SES model (fitted to the seasonally adjusted series)   [Trend.adapterPredict]
  y_pred += drift                                                                                 [one value per requested step]
  if deseasonalize: y_pred = deseasonalizer_.inverse_transform(y_pred)
  if return_pred_int: return y_pred, compute_pred_int(y_pred, alpha)      (y_pred ∓ error, per level)
  return y_pred
`Deseasonalizer._align_seasonal(y_pred)` rolls the `sp` seasonal indices to the phase of y_pred's FIRST label and
`np.resize`s them to `len(y_pred)`: the k-th returned forecast is multiplied by index `(pos0 + k) mod sp`, `pos0` = position of
the first requested time point counted from the start of the training series.
The wrapped model, the drift and the interval half-widths are data / function parameters (statsmodels is a black box).
Import-free (Model only).
-/
import SkVerif.Model.Trend
namespace SkVerif.Theta
open SkVerif SkVerif.Naive

/-- index into the seasonal indices used for the k-th returned forecast -/
def alignIdx (pos0 : Int) (k sp : Nat) : Nat := ((pos0 + (k : Int)) % (sp : Int)).toNat

def addDrift : List (Int × Val) → List Rat → List (Int × Val)
  | [], _ => []
  | p :: ps, [] => (p.1, none) :: addDrift ps []
  | p :: ps, d :: ds => (p.1, p.2.map (· + d)) :: addDrift ps ds

def reseasonGo (seas : List Rat) (pos0 : Int) : Nat → List (Int × Val) → List (Int × Val)
  | _, [] => []
  | k, p :: ps => (p.1, p.2.map (· * seas.getD (alignIdx pos0 k seas.length) 1)) :: reseasonGo seas pos0 (k + 1) ps

/-- `deseasonalizer_.inverse_transform(y_pred)` (multiplicative) for a training series starting at label `origin` -/
def reseason (seas : List Rat) (origin : Int) (ps : List (Int × Val)) : List (Int × Val) :=
  match ps with
  | [] => []
  | p :: _ => reseasonGo seas (p.1 - origin) 0 ps

/-- `compute_pred_int` for one level: label, lower, upper -/
def bounds (err : Int → Rat) (ps : List (Int × Val)) : List (Int × Val × Val) :=
  ps.map (fun p => (p.1, p.2.map (· - err p.1), p.2.map (· + err p.1)))

/-- the point forecasts of `_predict` -/
def points (sm : Int → Val) (n : Nat) (origin : Int) (raw : FH.Raw) (rel : Bool) (drift seas : List Rat) (deseason : Bool) :
    Except Err (List (Int × Val)) :=
  match Trend.adapterPredict sm n origin raw rel with
  | .error e => .error e
  | .ok ps =>
    let drifted := addDrift ps drift
    .ok (if deseason then reseason seas origin drifted else drifted)

/-- `_predict(fh, X, return_pred_int, alpha)`: `(y_pred, pred_int or nothing)` -/
def predict (sm : Int → Val) (n : Nat) (origin : Int) (raw : FH.Raw) (rel : Bool) (drift seas : List Rat) (deseason rpi : Bool)
    (err : Int → Rat) : Except Err (List (Int × Val) × Option (List (Int × Val × Val))) :=
  match points sm n origin raw rel drift seas deseason with
  | .error e => .error e
  | .ok p => if rpi then .ok (p, some (bounds err p)) else .ok (p, none)

end SkVerif.Theta
