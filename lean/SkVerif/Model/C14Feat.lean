/-
C14: feature extraction, row-wise application, and single-series transformers.
  panel/summarize/_extract.py  RandomIntervalFeatureExtractor.transform  (given the fitted `intervals_`)
  panel/compose.py             SeriesToPrimitivesRowTransformer / SeriesToSeriesRowTransformer
  series/acf.py                AutoCorrelationTransformer (statsmodels `acf`, fft=False: textbook formula)
  series/cos.py                CosineTransformer (element-wise application of a library function)
  series/adapt.py              TabularToSeriesAdaptor (column-wise fit / transform of a tabular transformer)
  utils/slope_and_trend.py     `_slope`
Library functions (np.cos, the wrapped transformers, the feature callables) are parameters of the
model; a few concrete ones are defined for the driver.  Import-free.
-/
import SkVerif.Model.C14Seg
import SkVerif.Model.C14Impute
namespace SkVerif.C14

/-! ### RandomIntervalFeatureExtractor.transform -/

/-- one output row: outer loop over the features, inner loop over the fitted intervals,
`interval = X[i, 0, start:end]` -/
def rifeRow {β} (fs : List (List Rat → β)) (ivs : List (Int × Int)) (row : List Rat) : List β :=
  fs.flatMap (fun f => ivs.map (fun iv => f (pySlice row iv.1 iv.2)))

/-- `transform` for feature functions `fs` and fitted `intervals_` rows `(start, end)`:
column `a * n_intervals + b` of instance `i` is `fs[a]` of `X[i, 0, start_b:end_b]`. -/
def rifeWith {β} (fs : List (List Rat → β)) (ivs : List (Int × Int)) (X : Panel) :
    Except Err (List (List β)) := do
  let tbl ← univariateTable X
  pure (tbl.map (rifeRow fs ivs))

def mean? (xs : List Rat) : Option Rat := if xs.isEmpty then none else some (xs.sum / (xs.length : Rat))

/-- population variance (`np.std` squared; the square root stays in the harness) -/
def var? (xs : List Rat) : Option Rat :=
  match mean? xs with
  | none => none
  | some m => some ((xs.map (fun x => (x - m) * (x - m))).sum / (xs.length : Rat))

def min? (xs : List Rat) : Option Rat := match xs with | [] => none | a :: l => some (l.foldl min a)
def max? (xs : List Rat) : Option Rat := match xs with | [] => none | a :: l => some (l.foldl max a)

/-- `_slope(y)`: `(mean(y*x) − mean(x)·mean(y)) / (mean(x*x) − mean(x)²)` with `x = 1..n`; 0/0 is NaN -/
def slope? (ys : List Rat) : Option Rat :=
  let n := ys.length
  if n = 0 then none
  else
    let xs : List Rat := (List.range n).map (fun (i : Nat) => (i : Rat) + 1)
    let nR : Rat := n
    let mx := xs.sum / nR
    let my := ys.sum / nR
    let mxy := (List.zipWith (· * ·) ys xs).sum / nR
    let mxx := (xs.map (fun x => x * x)).sum / nR
    let den := mxx - mx * mx
    if den = 0 then none else some ((mxy - mx * my) / den)

inductive Feat | mean | var | min | max | slope | sum | range
  deriving DecidableEq, Repr

def Feat.fn : Feat → List Rat → Option Rat
  | .mean => mean?
  | .var => var?
  | .min => min?
  | .max => max?
  | .slope => slope?
  | .sum => fun xs => some xs.sum
  | .range => fun xs => match max? xs, min? xs with | some a, some b => some (a - b) | _, _ => none

def rife (feats : List Feat) (ivs : List (Int × Int)) (X : Panel) : Except Err (List (List (Option Rat))) :=
  rifeWith (feats.map Feat.fn) ivs X

/-! ### row transformers -/

/-- `check_X(coerce_to_numpy=True)`: a 3-D array exists only if all cells have one length -/
def toNumpy3d (X : Panel) : Except Err Panel := do
  checkX X
  if rectangular X.flatten then pure X else .error .value

/-- `SeriesToPrimitivesRowTransformer(t).fit(..).transform(X)`: `Xt[i] = t.fit_transform(X[i].T)`,
`g` = the wrapped transformer on one instance (its columns) returning one primitive per column -/
def rowPrimitives {β} (g : Inst → List β) (X : Panel) : Except Err (List (List β)) := do
  let X ← toNumpy3d X
  pure (X.map g)

/-- `SeriesToSeriesRowTransformer(t).fit(..).transform(X)`: rows concatenated in instance order -/
def rowSeries (g : Inst → Inst) (X : Panel) : Except Err Panel := do
  let X ← toNumpy3d X
  pure (X.map g)

/-! ### AutoCorrelationTransformer -/

/-- statsmodels `acovf(x, adjusted, demean=True, fft=False)` -/
def acovf (adjusted : Bool) (xs : List Rat) : List Rat :=
  let n := xs.length
  let m := xs.sum / (n : Rat)
  let d := xs.map (· - m)
  (List.range n).map (fun k =>
    (List.zipWith (· * ·) d (d.drop k)).sum / (if adjusted then ((n - k : Nat) : Rat) else (n : Rat)))

/-- `AutoCorrelationTransformer(adjusted, n_lags).fit_transform(z)`: `avf[:nlags+1] / avf[0]` -/
def acf (adjusted : Bool) (nlags : Int) (xs : List Rat) : Except Err (List (Option Rat)) :=
  if xs.isEmpty then .error .value
  else
    let av := acovf adjusted xs
    let a0 := av.getD 0 0
    .ok ((pySlice av 0 (nlags + 1)).map (fun a => if a0 = 0 then none else some (a / a0)))

/-! ### CosineTransformer / TabularToSeriesAdaptor -/

/-- element-wise application of a library function, index untouched -/
def mapSeries (f : Rat → Rat) (z : List Rat) : List Rat := z.map f

/-- a tabular transformer seen column by column: `fit` learns parameters from a column,
`apply` transforms a column with them -/
structure ColTransformer (P : Type) where
  fit : List Rat → P
  apply : P → List Rat → List Rat

/-- `TabularToSeriesAdaptor(t).fit(Zfit).transform(Z)` on the columns of a series / frame -/
def adaptor {P} (t : ColTransformer P) (Zfit Z : List (List Rat)) : Except Err (List (List Rat)) :=
  if Zfit.length ≠ Z.length then .error .value
  else .ok (List.zipWith (fun cf c => t.apply (t.fit cf) c) Zfit Z)

/-- sklearn `MinMaxScaler()`: `scale = 1 / range` (range 0 → 1), `min_ = −min·scale`, `x·scale + min_` -/
def minMax : ColTransformer (Rat × Rat) where
  fit := fun col =>
    let lo := (min? col).getD 0
    let hi := (max? col).getD 0
    let r := hi - lo
    let scale := if r = 0 then 1 else 1 / r
    (scale, 0 - lo * scale)
  apply := fun (scale, mn) col => col.map (fun x => x * scale + mn)

/-- sklearn `MaxAbsScaler()` -/
def maxAbs : ColTransformer Rat where
  fit := fun col =>
    let m := (max? (col.map (fun x => if x < 0 then -x else x))).getD 0
    if m = 0 then 1 else m
  apply := fun s col => col.map (· / s)

end SkVerif.C14
