/-
Model of the forecaster base classes in sktime/forecasting/base/_sktime.py:
`_SktimeForecaster` (+ `_OptionalForecastingHorizonMixin` / `_RequiredForecastingHorizonMixin`)
and `_BaseWindowForecaster`, as a state machine over integer-labelled series.
A concrete forecaster is a `Core` (window-length resolution in `fit`, `_predict_last_window`).
Import-free.  Follows the code: `_set_y_X`, `_update_y_X`, `_set_fh`, `fit` (as NaiveForecaster
structures it), `predict`, `_predict` (in/out-of-sample split), `_predict_fixed_cutoff`,
`_predict_in_sample`, `_get_last_window`, `update`, `update_predict`, `_predict_moving_cutoff`,
`_detached_cutoff`, `_update_predict_single`, `update_predict_single`,
`_format_moving_cutoff_predictions`.
-/
import SkVerif.Model.Series
import SkVerif.Model.FH
import SkVerif.Model.Split
namespace SkVerif.Fc
open SkVerif

inductive Err | notFitted | value | type | index | notImpl
  deriving DecidableEq, Repr

def ofFhErr : FH.Err → Err
  | .type => .type | .value => .value | .index => .index
def ofSplitErr : Split.Err → Err
  | .type => .type | .value => .value | .index => .index | .key => .value

/-- a concrete window forecaster -/
structure Core where
  /-- `fit`'s resolution of `window_length_` from the length of the training series -/
  fitWl : Nat → Except Err Int
  /-- `_predict_last_window`: window length, values of the last window, relative steps -/
  plw : Int → List ORat → List Int → Except Err (List ORat)

inductive FhMode | optional | required
  deriving DecidableEq, Repr

structure FState where
  fitted : Bool := false
  y : Series := []
  cutoff : Option Int := none
  fh : Option FH.FH := none
  wlen : Int := 0
  deriving Repr

/-- a horizon argument as passed by the user: values + is_relative (validated by `check_fh`) -/
abbrev FhArg := List Int × Bool

inductive Out
  | done                                  -- returns self
  | series (s : Series)
  | frame (cols : List Int) (rows : List (Int × List ORat))   -- columns = cutoffs, rows by label
  | err (e : Err)
  deriving Repr

def checkFhArg (a : FhArg) : Except Err FH.FH :=
  match FH.checkFh (FH.mk (.ints a.1) a.2) false with
  | .ok fh => .ok fh
  | .error e => .error (ofFhErr e)

/-- `_set_fh(fh)` of the two mixins; returns the new stored horizon -/
def setFh (mode : FhMode) (s : FState) (fh : Option FH.FH) : Except Err (Option FH.FH) :=
  match mode, fh with
  | .optional, none =>
      if s.fitted && s.fh.isNone then .error .value else .ok s.fh
  | .optional, some f => .ok (some f)
  | .required, none => if s.fitted then .ok s.fh else .error .value
  | .required, some f =>
      if s.fitted then
        (if (s.fh.map (fun g => (g.vals, g.rel))) == some (f.vals, f.rel) then .ok s.fh else .error .value)
      else .ok (some f)

/-- `fit(y, fh)` with an already validated horizon object (or none) -/
def fitWith (core : Core) (mode : FhMode) (s : FState) (y : Series) (fh : Option FH.FH) : FState × Out :=
  match y.getLast? with
  | none => (s, .err .value)                       -- check_y: empty series rejected, nothing set
  | some lastObs =>
    let s1 := { s with y := y, cutoff := some lastObs.1 }     -- _set_y_X
    match setFh mode s1 fh with
    | .error e => (s1, .err e)
    | .ok fh' =>
      let s2 := { s1 with fh := fh' }
      match core.fitWl y.length with
      | .error e => (s2, .err e)
      | .ok w =>
        let s3 := { s2 with wlen := w }
        if w > y.length then (s3, .err .value)
        else ({ s3 with fitted := true }, .done)

def fit (core : Core) (mode : FhMode) (s : FState) (y : Series) (fh : Option FhArg) : FState × Out :=
  match fh with
  | none => fitWith core mode s y none
  | some a =>
    -- the horizon is validated inside `_set_fh`, i.e. after `_set_y_X`
    match y.getLast? with
    | none => (s, .err .value)
    | some lastObs =>
      match checkFhArg a with
      | .error e => ({ s with y := y, cutoff := some lastObs.1 }, .err e)
      | .ok f => fitWith core mode s y (some f)

/-- `_get_last_window` + `_predict_fixed_cutoff` for an out-of-sample horizon given by its
relative steps; `labels` are the absolute time points -/
def fixedCutoff (core : Core) (s : FState) (c : Int) (relSteps : List Int) : Except Err Series := do
  let win := (Series.locSlice s.y (c - s.wlen + 1) c).values
  let vals ← core.plw s.wlen win relSteps
  if vals.length ≠ relSteps.length then throw .value
  pure ((relSteps.map (c + ·)).zip vals)

/-- `_predict_in_sample`: one-step-ahead forecasts from cutoffs moved inside the training series -/
def inSample (core : Core) (s : FState) (c : Int) (relSteps : List Int) : Except Err Series := do
  let n : Int := s.y.length
  let cutoffs := relSteps.map (· + n - 2)
  let folds ← match Split.cutoffSplit n cutoffs [1] s.wlen with
    | .ok fs => pure fs
    | .error e => throw (ofSplitErr e)
  let start : Int := match s.y.head? with
    | some o => o.1 - 1
    | none => c
  -- moving cutoff, update_params = False: the remembered series does not change
  let rec go (fs : List Split.Fold) (cur : Int) (acc : Series) : Except Err Series :=
    match fs with
    | [] => pure acc
    | f :: rest => do
      let yNew := Series.iloc s.y f.1
      let cur' := match yNew.getLast? with
        | some o => o.1
        | none => cur
      let p ← fixedCutoff core s cur' [1]
      go rest cur' (acc ++ p)
  go folds start []

/-- `_BaseWindowForecaster._predict(fh)` at cutoff `c` -/
def predictAt (core : Core) (s : FState) (c : Int) (fh : FH.FH) : Except Err Series := do
  let rel := if fh.rel then fh.vals else fh.vals.map (· - c)
  let oos := rel.filter (fun v => decide (v > 0))
  let ins := rel.filter (fun v => decide (v ≤ 0))
  if ins.isEmpty then fixedCutoff core s c oos
  else if oos.isEmpty then inSample core s c ins
  else do
    let a ← inSample core s c ins
    let b ← fixedCutoff core s c oos
    pure (a ++ b)

def outOf (r : Except Err Series) : Out :=
  match r with
  | .ok s => .series s
  | .error e => .err e

/-- validation of an optional horizon argument (`check_fh` inside `_set_fh`) -/
def fhObjOf : Option FhArg → Except Err (Option FH.FH)
  | none => .ok none
  | some a => (checkFhArg a).map some

/-- `self._predict(self.fh)` at the current cutoff -/
def predictStored (core : Core) (s : FState) : FState × Out :=
  match s.fh, s.cutoff with
  | some f, some c => (s, outOf (predictAt core s c f))
  | _, _ => (s, .err .value)

/-- `predict(fh)` -/
def predict (core : Core) (mode : FhMode) (s : FState) (fh : Option FhArg) : FState × Out :=
  if !s.fitted then (s, .err .notFitted)
  else
    match fhObjOf fh with
    | .error e => (s, .err e)
    | .ok fo =>
      match setFh mode s fo with
      | .error e => (s, .err e)
      | .ok fh' => predictStored core { s with fh := fh' }

/-- `update(y, update_params)` -/
def update (core : Core) (mode : FhMode) (s : FState) (y : Series) (updateParams : Bool) : FState × Out :=
  if !s.fitted then (s, .err .notFitted)
  else
    let s1 : FState := match y.getLast? with
      | none => s
      | some o => { s with y := Series.combineFirst y s.y, cutoff := some o.1 }
    if updateParams then
      match s1.fh with
      | none => (s1, .err .value)            -- `self.fh` raises after the data were merged
      | some f => fitWith core mode s1 s1.y (some f)
    else (s1, .done)

/-- `_format_moving_cutoff_predictions` -/
def formatMoving (preds : List Series) (cutoffs : List Int) : Out :=
  match preds with
  | [] => .err .index
  | p0 :: _ =>
    if p0.length = 1 then .series (preds.foldl (· ++ ·) [])
    else
      let labels := sortInts (dedupInts (preds.foldl (fun acc p => acc ++ p.labels) []))
      match preds with
      | [p] => .series (labels.map (fun l => (l, (Series.lookup p l).getD none)))
      | _ => .frame cutoffs (labels.map (fun l => (l, preds.map (fun p => (Series.lookup p l).getD none))))

/-- `_predict_moving_cutoff(y, cv, update_params)` given the folds' training positions -/
def movingCutoff (core : Core) (mode : FhMode) (s : FState) (y : Series) (trains : List (List Int))
    (fh : FH.FH) (updateParams : Bool) : FState × Out :=
  let c0 := s.cutoff                         -- _detached_cutoff
  let start : Option Int := y.head?.map (·.1 - 1)
  let rec go (ws : List (List Int)) (st : FState) (preds : List Series) (cuts : List Int) :
      FState × Except Err (List Series × List Int) :=
    match ws with
    | [] => (st, .ok (preds, cuts))
    | w :: rest =>
      let yNew := Series.iloc y w
      match update core mode st yNew updateParams with
      | (st1, .err e) => (st1, .error e)
      | (st1, _) =>
        match st1.cutoff with
        | none => (st1, .error .value)
        | some c =>
          match predictAt core st1 c fh with
          | .error e => (st1, .error e)
          | .ok p => go rest st1 (preds ++ [p]) (cuts ++ [c])
  match start with
  | none => (s, .err .index)                 -- y.index[0] on an empty series
  | some st0 =>
    let (sEnd, r) := go trains { s with cutoff := some st0 } [] []
    let sFinal := { sEnd with cutoff := c0 }
    match r with
    | .error e => (sFinal, .err e)
    | .ok (preds, cuts) => (sFinal, formatMoving preds cuts)

/-- a splitter passed as `cv` (window splitters only) -/
structure CvSpec where
  kind : Split.Kind
  fh : List Int
  wl : Int
  step : Int
  iw : Option Int
  sww : Bool
  deriving Repr

/-- the splitter `update_predict` uses: the given one, or the default
`SlidingWindowSplitter(self.fh.to_relative(self.cutoff), window_length_, start_with_window=False)` -/
def cvSpecOf (s : FState) (cv : Option CvSpec) : Except Err CvSpec :=
  match cv with
  | some c => .ok c
  | none =>
    match s.fh, s.cutoff with
    | some f, some c => .ok ⟨.sliding, if f.rel then f.vals else f.vals.map (· - c), s.wlen, 1, none, false⟩
    | none, _ => .error .value
    | some f, none => if f.rel then .ok ⟨.sliding, f.vals, s.wlen, 1, none, false⟩ else .error .value

def updatePredictWith (core : Core) (mode : FhMode) (s : FState) (y : Series) (c : CvSpec)
    (updateParams : Bool) : FState × Out :=
  -- `fh = cv.get_fh()` comes first and validates the splitter's horizon
  match Split.checkFh c.fh with
  | .error e => (s, .err (ofSplitErr e))
  | .ok fhv =>
    match y.head? with
    | none => (s, .err .index)
    | some _ =>
      match Split.windowSplit c.kind y.length c.fh c.wl c.step c.iw c.sww with
      | .error e => (s, .err (ofSplitErr e))
      | .ok folds => movingCutoff core mode s y (folds.map (·.1)) ⟨fhv, true⟩ updateParams

/-- `update_predict(y, cv, update_params)` of `_BaseWindowForecaster` -/
def updatePredict (core : Core) (mode : FhMode) (s : FState) (y : Series) (cv : Option CvSpec)
    (updateParams : Bool) : FState × Out :=
  if !s.fitted then (s, .err .notFitted)        -- repaired code: fitted check comes first
  else
    match cvSpecOf s cv with
    | .error e => (s, .err e)
    | .ok c => updatePredictWith core mode s y c updateParams

/-- `_update_predict_single(y, fh, update_params)`: update, then `_predict(fh)` -/
def updateThenPredict (core : Core) (mode : FhMode) (s : FState) (y : Series) (f : FH.FH)
    (updateParams : Bool) : FState × Out :=
  match update core mode s y updateParams with
  | (s2, .err e) => (s2, .err e)
  | (s2, _) =>
    match s2.cutoff with
    | none => (s2, .err .value)
    | some c => (s2, outOf (predictAt core s2 c f))

/-- `update_predict_single(y_new, fh, update_params)` -/
def updatePredictSingle (core : Core) (mode : FhMode) (s : FState) (y : Series) (fh : Option FhArg)
    (updateParams : Bool) : FState × Out :=
  if !s.fitted then (s, .err .notFitted)
  else
    match fhObjOf fh with
    | .error e => (s, .err e)
    | .ok fo =>
      match setFh mode s fo with
      | .error e => (s, .err e)
      | .ok none => ({ s with fh := none }, .err .value)
      | .ok (some f) => updateThenPredict core mode { s with fh := some f } y f updateParams

inductive Op
  | fit (y : Series) (fh : Option FhArg)
  | predict (fh : Option FhArg)
  | update (y : Series) (updateParams : Bool)
  | updatePredict (y : Series) (cv : Option CvSpec) (updateParams : Bool)
  | updatePredictSingle (y : Series) (fh : Option FhArg) (updateParams : Bool)
  deriving Repr

def step (core : Core) (mode : FhMode) (s : FState) : Op → FState × Out
  | .fit y fh => fit core mode s y fh
  | .predict fh => predict core mode s fh
  | .update y up => update core mode s y up
  | .updatePredict y cv up => updatePredict core mode s y cv up
  | .updatePredictSingle y fh up => updatePredictSingle core mode s y fh up

/-- run a history from the freshly constructed forecaster; outputs in order -/
def run (core : Core) (mode : FhMode) : FState → List Op → FState × List Out
  | s, [] => (s, [])
  | s, op :: ops =>
    let (s1, o) := step core mode s op
    let (s2, os) := run core mode s1 ops
    (s2, o :: os)

end SkVerif.Fc
