/-
Model of sktime/forecasting/base/_fh.py (ForecastingHorizon) for integer steps and
integer cutoffs, and of `check_fh` (sktime/utils/validation/forecasting.py).
Import-free.  Follows the code's algorithm: `_check_values` (type dispatch, duplicate
check, sort), `to_relative`, `to_absolute`, `to_absolute_int`, `_is_in_sample`,
`to_in_sample`, `to_out_of_sample`, `is_all_*`, `to_indexer`.
-/
import SkVerif.Model.Range
import SkVerif.Model.Sort
namespace SkVerif.FH

inductive Err | type | value | index
  deriving DecidableEq, Repr

/-- What the user may pass as `values`, abstracted to the cases the code distinguishes. -/
inductive Raw
  | int (v : Int)              -- int / np.integer (bool is an int in Python)
  | ints (vs : List Int)       -- list / np.ndarray / Int64Index holding integral values
  | range (a b s : Int)        -- pd.RangeIndex(a, b, s)
  | fractional                 -- list / array with a non-integral float
  | unsupported                -- str, None, float scalar, Float64Index, dict, ...
  | twoDim                     -- array with ndim ≠ 1
  deriving Repr

/-- `_check_values` -/
def checkValues : Raw → Except Err (List Int)
  | .int v => .ok [v]
  | .ints vs => if vs.Nodup then .ok (sortInts vs) else .error .value
  | .range a b s =>
      if s = 0 then .error .value
      else .ok (sortInts (pyRange a b s))
  | .fractional => .error .type
  | .unsupported => .error .type
  | .twoDim => .error .value

/-- A list / array of floats (given exactly, as rationals): whole numbers are taken as the integers
they are, one non-integral value makes the whole input fractional -- the exact `casted == data`
comparison of pandas' integer-index constructor, with no tolerance. -/
def rawOfFloats (qs : List Rat) : Raw :=
  if qs.all (fun q => q.den == 1) then .ints (qs.map (·.num)) else .fractional

structure FH where
  vals : List Int
  rel : Bool
  deriving DecidableEq, Repr

/-- `ForecastingHorizon(values, is_relative)`; `relIsBool = false` models a non-bool
`is_relative` argument. -/
def mk (raw : Raw) (rel : Bool) (relIsBool : Bool := true) : Except Err FH :=
  if !relIsBool then .error .type
  else (checkValues raw).map (fun vs => ⟨vs, rel⟩)

/-- `to_relative(cutoff)` -/
def toRelative (fh : FH) (c : Option Int) : Except Err FH :=
  if fh.rel then .ok fh
  else match c with
    | none => .error .value
    | some c => .ok ⟨fh.vals.map (· - c), true⟩

/-- `to_absolute(cutoff)` -/
def toAbsolute (fh : FH) (c : Option Int) : Except Err FH :=
  if !fh.rel then .ok fh
  else match c with
    | none => .error .value
    | some c => .ok ⟨fh.vals.map (c + ·), false⟩

/-- `to_absolute_int(start, cutoff)` -/
def toAbsoluteInt (fh : FH) (start : Int) (c : Option Int) : Except Err FH :=
  (toAbsolute fh c).map (fun a => ⟨a.vals.map (· - start), false⟩)

/-- `_is_in_sample(cutoff)` : boolean mask -/
def inSampleMask (fh : FH) (c : Option Int) : Except Err (List Bool) :=
  (toRelative fh c).map (fun r => r.vals.map (fun v => decide (v ≤ 0)))

def outOfSampleMask (fh : FH) (c : Option Int) : Except Err (List Bool) :=
  (toRelative fh c).map (fun r => r.vals.map (fun v => decide (v > 0)))

/-- boolean-mask indexing `index[mask]` -/
def maskSelect : List Int → List Bool → List Int
  | v :: vs, b :: bs => if b then v :: maskSelect vs bs else maskSelect vs bs
  | _, _ => []

def toInSample (fh : FH) (c : Option Int) : Except Err FH :=
  (inSampleMask fh c).map (fun m => ⟨maskSelect fh.vals m, fh.rel⟩)

def toOutOfSample (fh : FH) (c : Option Int) : Except Err FH :=
  (outOfSampleMask fh c).map (fun m => ⟨maskSelect fh.vals m, fh.rel⟩)

def isAllInSample (fh : FH) (c : Option Int) : Except Err Bool :=
  (inSampleMask fh c).map (fun m => (m.filter id).length == fh.vals.length)

def isAllOutOfSample (fh : FH) (c : Option Int) : Except Err Bool :=
  (outOfSampleMask fh c).map (fun m => (m.filter id).length == fh.vals.length)

/-- `to_indexer(cutoff, from_cutoff)` -/
def toIndexer (fh : FH) (c : Option Int) (fromCutoff : Bool) : Except Err (List Int) := do
  let r ← toRelative fh c
  if fromCutoff then pure (r.vals.map (· - 1))
  else match r.vals with
    | [] => .error .index
    | v0 :: _ => pure (r.vals.map (· - v0))

/-- `check_fh(fh, enforce_relative)` applied to an already-built horizon or raw values -/
def checkFh (fh : Except Err FH) (enforceRelative : Bool) : Except Err FH := do
  let fh ← fh
  if fh.vals.length = 0 then .error .value
  else if enforceRelative && !fh.rel then .error .value
  else pure fh

end SkVerif.FH
