/-
Python `range(a, b, s)` / `np.arange(a, b, s)` on integers, in closed form.
Import-free.
-/
namespace SkVerif

/-- number of elements of Python's `range(a, b, s)` (0 for `s = 0`, which Python rejects) -/
def pyRangeLen (a b s : Int) : Nat :=
  if 0 < s then ((b - a + s - 1) / s).toNat
  else if s < 0 then ((a - b + (-s) - 1) / (-s)).toNat
  else 0

/-- Python's `range(a, b, s)` as a list -/
def pyRange (a b s : Int) : List Int :=
  (List.range (pyRangeLen a b s)).map (fun (i : Nat) => a + s * (i : Int))

/-- `np.arange(a, b)` -/
def arange (a b : Int) : List Int := pyRange a b 1

end SkVerif
