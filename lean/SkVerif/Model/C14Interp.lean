/-
C14: TSInterpolator (sktime/transformations/panel/interpolate.py): `__init__`, `_resize_cell`,
`transform`.  `scipy.interpolate.interp1d(x, y)` (kind="linear", bounds_error=True) is modelled by
scipy's own evaluation rule: `idx = searchsorted(x, q).clip(1, len(x)-1)`, then the chord through
`(x[idx-1], y[idx-1])`, `(x[idx], y[idx])`.  Exact rationals.  Import-free.
-/
import SkVerif.Model.C14Seg
namespace SkVerif.C14

/-- `np.linspace(0, 1, n)` -/
def linspace01 (n : Nat) : List Rat :=
  if n = 1 then [0] else (List.range n).map (fun (i : Nat) => (i : Rat) / ((n - 1 : Nat) : Rat))

/-- `np.searchsorted(xs, q)` (side="left") on an increasing grid: number of grid points `< q` -/
def searchsortedLeft (xs : List Rat) (q : Rat) : Nat := (xs.takeWhile (fun x => decide (x < q))).length

/-- value of the fitted linear `interp1d(xs, ys)` at `q` -/
def interp1 (xs ys : List Rat) (q : Rat) : Rat :=
  let idx := max 1 (min (searchsortedLeft xs q) (xs.length - 1))
  let lo := idx - 1
  let xlo := xs.getD lo 0
  let xhi := xs.getD idx 0
  let ylo := ys.getD lo 0
  let yhi := ys.getD idx 0
  (yhi - ylo) / (xhi - xlo) * (q - xlo) + ylo

/-- `_resize_cell`.  With fewer than two points the installed scipy fits a one-point interpolant that
can only be evaluated at its own abscissa 0 (any other query is out of bounds → ValueError); an empty
cell is rejected. -/
def resizeCell (L : Nat) (c : Cell) : Except Err Cell :=
  if c.length = 0 then .error .value
  else if c.length = 1 then
    if L ≤ 1 then .ok ((linspace01 L).map (fun _ => c.getD 0 0)) else .error .value
  else .ok ((linspace01 L).map (interp1 (linspace01 c.length) c))

/-- `TSInterpolator(length)`: the constructor rejects non-int and non-positive lengths -/
def interpNew (length : IntParam) : Except Err Nat :=
  match length with
  | .notInt => .error .value
  | .int v => if v ≤ 0 then .error .value else .ok v.toNat

/-- `TSInterpolator(length).fit(..).transform(X)`: `X.apply(_resize_col)`: column by column, cell by
cell; the result has the same rows and columns -/
def interpolate (length : IntParam) (X : Panel) : Except Err Panel := do
  let L ← interpNew length
  checkX X
  X.mapM (fun inst => inst.mapM (resizeCell L))

end SkVerif.C14
