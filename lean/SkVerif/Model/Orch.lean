/-
Executable model of sktime/benchmarking/orchestration.py `Orchestrator.fit_predict` over the result
stores of sktime/benchmarking/results.py + base.py.  Import-free.

The model follows the code's algorithm:
* `_iter`                : the work list (datasets outer, strategies middle, folds inner); a fresh clone per fold
                           (a clone keeps the estimator's hyper-parameter `p` and no fitted state);
* `fit_predict`          : existence flags read at the top of each iteration, the five-literal skip condition,
                           fit, conditional save of the fitted strategy, conditional predict+save on train, on test;
                           after the loop `results.save()`;
* result stores          : a key → record map with an existence test (`HDDResults`: files; `RAMResults`: a dict
                           whose existence checks always answer False and whose `save_fitted_strategy` raises
                           NotImplementedError), the registry of strategy / dataset names (`_append_key`), and the
                           master file written only by `save()` (merged with `list(set(..))` when it already exists);
* failure                : the k-th call of an estimator's `fit` or `predict` (counted together, from 1, per run) raises;
                           the exception leaves `fit_predict` at once (no `save()`).
`stamp`s stand for the time stamps stored with every record / the modification time of a file.
-/
namespace SkVerif.Orch

inductive Part | train | test
  deriving DecidableEq, Repr

inductive Err | inject | notImpl | value | missing
  deriving DecidableEq, Repr

/-! ### key → value maps (files in a directory / a Python dict): association lists -/

def get? {K V} [DecidableEq K] (k : K) : List (K × V) → Option V
  | [] => none
  | (k', v) :: t => if k' = k then some v else get? k t

/-- overwrite in place if the key exists, else append -/
def put {K V} [DecidableEq K] (k : K) (v : V) : List (K × V) → List (K × V)
  | [] => [(k, v)]
  | (k', v') :: t => if k' = k then (k, v) :: t else (k', v') :: put k v t

def has {K V} [DecidableEq K] (k : K) (m : List (K × V)) : Bool := (get? k m).isSome

/-- `if x not in l: l.append(x)` -/
def addNew {N} [DecidableEq N] (x : N) (l : List N) : List N := if x ∈ l then l else l ++ [x]

/-- `list(set(a + b))` up to order (first occurrences kept) -/
def dedup {N} [DecidableEq N] : List N → List N
  | [] => []
  | x :: t => if x ∈ t then dedup t else x :: dedup t

/-! ### data, tasks, estimators -/

/-- a dataset as the orchestrator sees it: a frame of numeric cells, the position of the task's target
column, and the task's `features` (explicit column positions, in the given order) or `none` = every column
but the target (`metadata.columns.drop(target)`). -/
structure Data where
  rows : List (List Rat)
  tpos : Nat
  feats : Option (List Nat)
  deriving DecidableEq, Repr

def cell (r : List Rat) (i : Nat) : Rat := r.getD i 0

/-- `data.iloc[idx]` -/
def iloc (d : Data) (idx : List Nat) : List (List Rat) := idx.map (fun i => d.rows.getD i [])

/-- `frame[task.features]` for one row -/
def featuresOf (d : Data) (r : List Rat) : List Rat :=
  match d.feats with
  | some fs => fs.map (cell r)
  | none => r.eraseIdx d.tpos

/-- `frame[task.target]` for one row -/
def targetOf (d : Data) (r : List Rat) : Rat := cell r d.tpos

/-- a deterministic estimator: hyper-parameter `p` (kept by `clone`), learned state `W` -/
structure Learner (W : Type) where
  fit : Int → List (List Rat) → List Rat → W
  predict : W → List (List Rat) → List Rat

/-- one element of `Orchestrator._iter()` -/
structure Item (N : Type) where
  s : N
  p : Int
  d : N
  data : Data
  fold : Nat
  train : List Nat
  test : List Nat
  deriving DecidableEq, Repr

def Item.idx {N} (it : Item N) : Part → List Nat
  | .train => it.train
  | .test => it.test

/-- `strategy.fit(task, train)` on a fresh clone: `estimator.fit(train[features], train[target])` -/
def strategyFit {N W} (L : Learner W) (it : Item N) : W :=
  let train := iloc it.data it.train
  L.fit it.p (train.map (featuresOf it.data)) (train.map (targetOf it.data))

structure Content where
  idx : List Nat
  yTrue : List Rat
  yPred : List Rat
  deriving DecidableEq, Repr

/-- what `fit_predict` hands to `save_predictions` for one part: `index=idx, y_true=frame.loc[:, target],
y_pred=strategy.predict(frame)` with `frame = data.iloc[idx]` -/
def predictPart {N W} (L : Learner W) (w : W) (it : Item N) (part : Part) : Content :=
  let frame := iloc it.data (it.idx part)
  ⟨it.idx part, frame.map (targetOf it.data), L.predict w (frame.map (featuresOf it.data))⟩

/-- a stored prediction record; `s`, `d` are the names passed to `save_predictions` (a `RAMResults` entry is a
`_PredictionsWrapper` that carries them; `HDDResults.load_predictions` re-labels with the registry names) -/
structure Rec (N : Type) where
  c : Content
  stamp : Nat
  s : N
  d : N
  deriving DecidableEq, Repr

structure SRec (W : Type) where
  w : W
  stamp : Nat

/-! ### stores -/

/-- how a store names things: record key, fitted-strategy key, and whether existence checks / saving
fitted strategies are supported (`HDDResults`) or not (`RAMResults`) -/
structure Cfg (N K : Type) where
  rkey : N → N → Part → Nat → K
  skey : N → N → Nat → K
  disk : Bool

structure St (N K W : Type) where
  recs : List (K × Rec N)
  strats : List (K × SRec W)
  master : Option (List N × List N)
  regS : List N
  regD : List N
  clock : Nat

def St.empty {N K W} : St N K W := ⟨[], [], none, [], [], 0⟩

/-- a new results object over the same path (HDD: registry empty, files stay) / a new `RAMResults()` -/
def freshObj {N K W} (cfg : Cfg N K) (st : St N K W) : St N K W :=
  if cfg.disk then { st with regS := [], regD := [] }
  else { St.empty with clock := st.clock }

structure Opts where
  owP : Bool      -- overwrite_predictions
  owF : Bool      -- overwrite_fitted_strategies
  saveF : Bool    -- save_fitted_strategies
  pot : Bool      -- predict_on_train
  deriving DecidableEq, Repr

inductive Call (N : Type)
  | fit (it : Item N)
  | predict (it : Item N) (part : Part)
  deriving DecidableEq, Repr

/-- state of one `fit_predict` call -/
structure Run (N K W : Type) where
  st : St N K W
  calls : Nat
  log : List (Call N)
  wrRecs : List K
  wrStrats : List K
  err : Option Err

variable {N K W : Type} [DecidableEq N] [DecidableEq K]

/-- `_append_key` -/
def register (s d : N) (st : St N K W) : St N K W :=
  { st with regS := addNew s st.regS, regD := addNew d st.regD }

/-- an estimator's `fit` / `predict` is entered: counted, logged, and raises if it is the `fail`-th call -/
def callEst (fail : Option Nat) (c : Call N) (r : Run N K W) : Run N K W :=
  if r.err.isSome then r else
  let r' := { r with calls := r.calls + 1, log := r.log ++ [c] }
  if fail = some (r.calls + 1) then { r' with err := some .inject } else r'

/-- the store after `save_fitted_strategy`: the pickle is (over)written, then `_append_key` -/
def writeStrat (cfg : Cfg N K) (it : Item N) (w : W) (st : St N K W) : St N K W :=
  register it.s it.d { st with strats := put (cfg.skey it.s it.d it.fold) (SRec.mk w st.clock) st.strats,
                               clock := st.clock + 1 }

/-- the store after `save_predictions`: the record is (over)written, then `_append_key` -/
def writeRec (cfg : Cfg N K) (it : Item N) (part : Part) (c : Content) (st : St N K W) : St N K W :=
  register it.s it.d { st with recs := put (cfg.rkey it.s it.d part it.fold) (Rec.mk c st.clock it.s it.d) st.recs,
                               clock := st.clock + 1 }

/-- `results.save_fitted_strategy(strategy, dataset_name, cv_fold)` -/
def saveStrat (cfg : Cfg N K) (it : Item N) (w : W) (r : Run N K W) : Run N K W :=
  if r.err.isSome then r else
  if cfg.disk then
    { r with st := writeStrat cfg it w r.st, wrStrats := r.wrStrats ++ [cfg.skey it.s it.d it.fold] }
  else { r with err := some .notImpl }

/-- `results.save_predictions(...)` -/
def savePred (cfg : Cfg N K) (it : Item N) (part : Part) (c : Content) (r : Run N K W) : Run N K W :=
  if r.err.isSome then r else
  { r with st := writeRec cfg it part c r.st, wrRecs := r.wrRecs ++ [cfg.rkey it.s it.d part it.fold] }

/-- predict on one part, then save (`y_pred = strategy.predict(frame)` may raise before anything is saved) -/
def predictSave (cfg : Cfg N K) (L : Learner W) (fail : Option Nat) (w : W) (it : Item N) (part : Part)
    (r : Run N K W) : Run N K W :=
  savePred cfg it part (predictPart L w it part) (callEst fail (.predict it part) r)

def cond (b : Bool) (f : Run N K W → Run N K W) (r : Run N K W) : Run N K W := if b then f r else r

/-- existence flags read at the top of an iteration: (train predictions, test predictions, fitted strategy) -/
structure Flags where
  trainEx : Bool
  testEx : Bool
  fitEx : Bool

def flagsOf (cfg : Cfg N K) (st : St N K W) (it : Item N) : Flags :=
  ⟨cfg.disk && has (cfg.rkey it.s it.d .train it.fold) st.recs,
   cfg.disk && has (cfg.rkey it.s it.d .test it.fold) st.recs,
   cfg.disk && has (cfg.skey it.s it.d it.fold) st.strats⟩

/-- the `continue` condition of `fit_predict` -/
def skip (o : Opts) (f : Flags) : Bool :=
  !o.owP && f.testEx && (f.trainEx || !o.pot) && !o.owF && (f.fitEx || !o.saveF)

def needStrat (o : Opts) (f : Flags) : Bool := o.saveF && (o.owF || !f.fitEx)
def needTrain (o : Opts) (f : Flags) : Bool := o.pot && (o.owP || !f.trainEx)
def needTest (o : Opts) (f : Flags) : Bool := o.owP || !f.testEx

/-- the body of the `for ... in self._iter()` loop of `fit_predict` -/
def stepItem (cfg : Cfg N K) (L : Learner W) (o : Opts) (fail : Option Nat)
    (r : Run N K W) (it : Item N) : Run N K W :=
  if r.err.isSome then r else
  let f := flagsOf cfg r.st it
  -- skipped: the existing results stay registered with the results object (`_append_key`, fix 027a939)
  if skip o f then { r with st := register it.s it.d r.st } else
  let w := strategyFit L it
  callEst fail (.fit it) r
    |> cond (needStrat o f) (saveStrat cfg it w)
    |> cond (needTrain o f) (predictSave cfg L fail w it .train)
    |> cond (needTest o f) (predictSave cfg L fail w it .test)

def runItems (cfg : Cfg N K) (L : Learner W) (o : Opts) (fail : Option Nat)
    (items : List (Item N)) (r : Run N K W) : Run N K W :=
  items.foldl (stepItem cfg L o fail) r

/-- `HDDBaseResults.save` (RAM: no-op) -/
def save (cfg : Cfg N K) (st : St N K W) : St N K W :=
  if cfg.disk then
    match st.master with
    | none => { st with master := some (st.regS, st.regD) }
    | some (ms, md) =>
      let rs := dedup (st.regS ++ ms)
      let rd := dedup (st.regD ++ md)
      { st with regS := rs, regD := rd, master := some (rs, rd) }
  else st

def Run.start (st : St N K W) : Run N K W := ⟨st, 0, [], [], [], none⟩

def finish (cfg : Cfg N K) (r : Run N K W) : Run N K W :=
  if r.err.isSome then r else { r with st := save cfg r.st }

/-- `Orchestrator.fit_predict(overwrite_predictions, predict_on_train, save_fitted_strategies,
overwrite_fitted_strategies)` with the `fail`-th estimator call raising -/
def fitPredict (cfg : Cfg N K) (L : Learner W) (o : Opts) (fail : Option Nat)
    (items : List (Item N)) (st : St N K W) : Run N K W :=
  if o.owF && !o.saveF then { Run.start st with err := some .value }
  else finish cfg (runItems cfg L o fail items (Run.start st))

/-- registry strategies × registry datasets (`BaseResults._iter`) -/
def pairs (st : St N K W) : List (N × N) := st.regS.flatMap (fun s => st.regD.map (fun d => (s, d)))

/-- read the records of the given (strategy, dataset) pairs; the first missing one raises -/
def loadAll (cfg : Cfg N K) (st : St N K W) (fold : Nat) (part : Part) :
    List (N × N) → Except Err (List (N × N × Rec N))
  | [] => .ok []
  | (s, d) :: t =>
    match get? (cfg.rkey s d part fold) st.recs with
    | none => .error .missing
    | some r =>
      match loadAll cfg st fold part t with
      | .error e => .error e
      | .ok rs => .ok ((if cfg.disk then (s, d, r) else (r.s, r.d, r)) :: rs)

/-- `results.load_predictions(cv_fold, train_or_test)` (HDD: labelled with the registry names; RAM: the stored
wrapper with the names it was saved under) -/
def loadPredictions (cfg : Cfg N K) (st : St N K W) (fold : Nat) (part : Part) :
    Except Err (List (N × N × Rec N)) :=
  loadAll cfg st fold part (pairs st)

/-! ### the work list -/

structure DS (N : Type) where
  name : N
  data : Data
  folds : List (List Nat × List Nat)

structure Strat (N : Type) where
  name : N
  p : Int

def foldItems (s : Strat N) (d : DS N) : Nat → List (List Nat × List Nat) → List (Item N)
  | _, [] => []
  | i, (tr, te) :: t => ⟨s.name, s.p, d.name, d.data, i, tr, te⟩ :: foldItems s d (i + 1) t

/-- `_iter`: `for task, dataset in zip(tasks, datasets): for strategy in strategies:
for cv_fold, (train, test) in enumerate(cv.split(data, y))` -/
def mkWork (dss : List (DS N)) (strats : List (Strat N)) : List (Item N) :=
  dss.flatMap (fun d => strats.flatMap (fun s => foldItems s d 0 d.folds))

/-! ### a history of runs -/

structure RunSpec where
  o : Opts
  fail : Option Nat
  fresh : Bool

def runOne (cfg : Cfg N K) (L : Learner W) (items : List (Item N)) (st : St N K W) (rs : RunSpec) :
    Run N K W :=
  fitPredict cfg L rs.o rs.fail items (if rs.fresh then freshObj cfg st else st)

/-- all intermediate run results of a history, oldest first -/
def runHistory (cfg : Cfg N K) (L : Learner W) (items : List (Item N)) :
    St N K W → List RunSpec → List (Run N K W)
  | _, [] => []
  | st, rs :: t =>
    let r := runOne cfg L items st rs
    r :: runHistory cfg L items r.st t

/-- the store after a history of runs -/
def stateAfter (cfg : Cfg N K) (L : Learner W) (items : List (Item N)) (st : St N K W)
    (specs : List RunSpec) : St N K W :=
  specs.foldl (fun st rs => (runOne cfg L items st rs).st) st

/-! ### concrete stores -/

def Part.str : Part → String
  | .train => "train"
  | .test => "test"

/-- `HDDResults._generate_key`: `<path>/<strategy>/<dataset>/<strategy>_<train|test>_<fold>`; kept structured -/
def hddCfg (N : Type) : Cfg N (N × N × Part × Nat) :=
  ⟨fun s d p f => (s, d, p, f), fun s d f => (s, d, .train, f), true⟩

/-- `RAMResults._generate_key`: the tuple `(strategy_name, dataset_name, train_or_test, str(cv_fold))`
(fix 23c2285; before it the key was the underscore-joined string, which is not injective) -/
def ramCfg (N : Type) : Cfg N (N × N × Part × Nat) :=
  ⟨fun s d p f => (s, d, p, f), fun s d f => (s, d, .train, f), false⟩

/-! ### `Orchestrator.__init__` validation (string names) -/

def hasDunder (s : String) : Bool := (s.splitOn "__").length > 1

/-- `_validate_tasks_and_datasets` (length) and `_validate_strategy_names` (unique, not a constructor
argument name of the strategy, no double underscore) -/
def validate (nTasks nDatasets : Nat) (names : List String) : Except Err Unit :=
  if nTasks ≠ nDatasets then .error .value
  else if (dedup names).length ≠ names.length then .error .value
  else if names.any (fun n => n == "estimator" || n == "name") then .error .value
  else if names.any hasDunder then .error .value
  else .ok ()

/-! ### cross-validation schemes used by the correspondence (index arithmetic only) -/

def range' (a n : Nat) : List Nat := (List.range n).map (· + a)

/-- sklearn `KFold(k)` without shuffling on `n` instances: the first `n % k` folds hold `n / k + 1` test
instances, contiguous; train = the rest in order -/
def kfoldAux (n k : Nat) : Nat → Nat → Nat → List (List Nat × List Nat)
  | 0, _, _ => []
  | left + 1, i, start =>
    let size := n / k + (if i < n % k then 1 else 0)
    let test := range' start size
    let train := (List.range n).filter (fun j => !(start ≤ j && j < start + size))
    (train, test) :: kfoldAux n k left (i + 1) (start + size)

def kfold (n k : Nat) : List (List Nat × List Nat) := kfoldAux n k k 0 0

/-- `SingleSplit(test_size=t, shuffle=False)`: train = first n - t, test = the last t -/
def singleSplit (n t : Nat) : List (List Nat × List Nat) := [(List.range (n - t), range' (n - t) t)]

/-- `PresplitFilesCV(cv)`: positions labelled train / test, then the inner cv's folds over all positions -/
def presplit (isTrain : List Bool) (inner : Option Nat) : List (List Nat × List Nat) :=
  let n := isTrain.length
  let pos := List.range n
  let first := (pos.filter (fun i => isTrain.getD i false), pos.filter (fun i => !isTrain.getD i false))
  match inner with
  | none => [first]
  | some k => first :: kfold n k

end SkVerif.Orch
