/-
Concrete `Core`s used by the correspondence for the forecaster state machine:
NaiveForecaster(strategy="last", sp=1), NaiveForecaster(strategy="mean", sp=1, window_length=w),
a harness-defined probe forecaster, and an "opaque" core (index/cutoff logic only).
Import-free.
-/
import SkVerif.Model.Forecaster
namespace SkVerif.Fc
open SkVerif

def allNaN (win : List ORat) : Bool := win.all (·.isNone)

def sumSome (win : List ORat) : Rat := win.foldl (fun acc v => acc + v.getD 0) 0
def countSome (win : List ORat) : Nat := (win.filter (·.isSome)).length

/-- `np.nanmean` -/
def nanmean (win : List ORat) : ORat :=
  if countSome win = 0 then none else some (sumSome win / (countSome win : Rat))

/-- NaiveForecaster(strategy="last") with sp = 1 -/
def coreLast : Core where
  fitWl _ := .ok 1
  plw _ win steps :=
    if allNaN win || win.isEmpty then .ok (steps.map (fun _ => none))
    else .ok (steps.map (fun _ => win.getLast?.getD none))

/-- NaiveForecaster(strategy="mean", window_length = w) with sp = 1 -/
def coreMean (w : Option Int) : Core where
  fitWl n := match w with
    | none => .ok (n : Int)
    | some k => if k < 1 then .error .value else .ok k
  plw _ win steps :=
    if allNaN win || win.isEmpty then .ok (steps.map (fun _ => none))
    else .ok (steps.map (fun _ => nanmean win))

/-- harness probe forecaster: value depends on the window's content, its size and the step, so
a mis-selected window or step is visible -/
def coreProbe (w : Int) : Core where
  fitWl _ := if w < 1 then .error .value else .ok w
  plw _ win steps :=
    .ok (steps.map (fun (h : Int) => some (2 * sumSome win + 100 * (win.length : Rat) + (h : Rat))))

/-- opaque forecaster: only the index / cutoff logic of the base class is modelled -/
def coreOpaque : Core where
  fitWl _ := .ok 1
  plw _ _ steps := .ok (steps.map (fun _ => none))

end SkVerif.Fc
