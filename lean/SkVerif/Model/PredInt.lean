/-
Prediction-interval layer over the forecaster state machine (`Model/Forecaster.lean`):
how `return_pred_int` / `alpha` travel through `predict`, `update_predict_single`,
`_update_predict_single`, `update_predict` / `_predict_moving_cutoff` of
sktime/forecasting/base/_sktime.py, plus `check_alpha` (utils/validation/forecasting.py) and
`compute_pred_int` (`pd.DataFrame({"lower": y_pred - error, "upper": y_pred + error})` per level,
one table for a float `alpha`, a list of tables for a list).
A significance level is carried in per-mille (alpha = k / 1000), so that the model stays exact.
An interval-capable forecaster (ThetaForecaster's shape: `_predict` = point forecast of the parent
class, then `compute_pred_int`, with `_compute_pred_err` reading `self.fh` and `self.cutoff`) is a
`Core` plus the half-width of the interval per level and relative step.
Import-free.
-/
import SkVerif.Model.Cores
namespace SkVerif.Fc
open SkVerif

/-- the `alpha` argument: a float, or a list of floats (per-mille) -/
inductive AlphaArg
  | one (k : Int)
  | many (ks : List Int)
  deriving Repr, DecidableEq

/-- `check_alpha`: every level lies in the open interval (0, 1) -/
def checkAlpha : AlphaArg → Except Err (List Int)
  | .one k => if 0 < k ∧ k < 1000 then .ok [k] else .error .value
  | .many ks => if ks.all (fun k => decide (0 < k ∧ k < 1000)) then .ok ks else .error .value

def AlphaArg.isOne : AlphaArg → Bool
  | .one _ => true
  | .many _ => false

structure ICore extends Core where
  /-- does `_predict` honour `return_pred_int` (plain window forecasters raise NotImplementedError) -/
  supports : Bool
  /-- `_compute_pred_err`: half-width for a level (per-mille) and a relative step -/
  predErr : Int → Int → Rat

structure IArgs where
  rpi : Bool
  alpha : AlphaArg
  deriving Repr

/-- one row of an interval table: label, lower, upper -/
abbrev IRow := Int × ORat × ORat

inductive IOut
  | plain (o : Out)
  | withInt (pred : Series) (tables : List (List IRow)) (single : Bool)
  deriving Repr

/-- `y_pred - error`, `y_pred + error` for one level; the error series is indexed by
`fh.to_absolute(cutoff)` and computed from `fh.to_relative(cutoff)` -/
def bounds (ic : ICore) (c : Int) (k : Int) (p : Series) : List IRow :=
  p.map (fun o => (o.1, o.2.map (· - ic.predErr k (o.1 - c)), o.2.map (· + ic.predErr k (o.1 - c))))

/-- `_predict(fh, X, return_pred_int, alpha)` at cutoff `c` -/
def atI (ic : ICore) (s : FState) (c : Int) (f : FH.FH) (a : IArgs) : IOut :=
  if !a.rpi then .plain (outOf (predictAt ic.toCore s c f))
  else if !ic.supports then .plain (.err .notImpl)
  else
    match predictAt ic.toCore s c f with
    | .error e => .plain (.err e)
    | .ok p =>
      match checkAlpha a.alpha with
      | .error e => .plain (.err e)
      | .ok ks => .withInt p (ks.map (fun k => bounds ic c k p)) a.alpha.isOne

def predictStoredI (ic : ICore) (s : FState) (a : IArgs) : FState × IOut :=
  match s.fh, s.cutoff with
  | some f, some c => (s, atI ic s c f a)
  | _, _ => (s, .plain (.err .value))

/-- `predict(fh, X, return_pred_int, alpha)` -/
def predictI (ic : ICore) (mode : FhMode) (s : FState) (fh : Option FhArg) (a : IArgs) : FState × IOut :=
  if !s.fitted then (s, .plain (.err .notFitted))
  else
    match fhObjOf fh with
    | .error e => (s, .plain (.err e))
    | .ok fo =>
      match setFh mode s fo with
      | .error e => (s, .plain (.err e))
      | .ok fh' => predictStoredI ic { s with fh := fh' } a

/-- `_update_predict_single(y, fh, X, update_params, return_pred_int, alpha)` -/
def updateThenPredictI (ic : ICore) (mode : FhMode) (s : FState) (y : Series) (f : FH.FH)
    (updateParams : Bool) (a : IArgs) : FState × IOut :=
  match update ic.toCore mode s y updateParams with
  | (s2, .err e) => (s2, .plain (.err e))
  | (s2, _) =>
    match s2.cutoff with
    | none => (s2, .plain (.err .value))
    | some c => (s2, atI ic s2 c f a)

/-- `update_predict_single(y_new, fh, X, update_params, return_pred_int, alpha)` -/
def updatePredictSingleI (ic : ICore) (mode : FhMode) (s : FState) (y : Series) (fh : Option FhArg)
    (updateParams : Bool) (a : IArgs) : FState × IOut :=
  if !s.fitted then (s, .plain (.err .notFitted))
  else
    match fhObjOf fh with
    | .error e => (s, .plain (.err e))
    | .ok fo =>
      match setFh mode s fo with
      | .error e => (s, .plain (.err e))
      | .ok none => ({ s with fh := none }, .plain (.err .value))
      | .ok (some f) => updateThenPredictI ic mode { s with fh := some f } y f updateParams a

/-- `update_predict(y, cv, X, update_params, return_pred_int, alpha)`: intervals are refused right
after the fitted check, before anything is read or changed -/
def updatePredictI (ic : ICore) (mode : FhMode) (s : FState) (y : Series) (cv : Option CvSpec)
    (updateParams : Bool) (a : IArgs) : FState × IOut :=
  if !s.fitted then (s, .plain (.err .notFitted))
  else if a.rpi then (s, .plain (.err .notImpl))
  else
    let r := updatePredict ic.toCore mode s y cv updateParams
    (r.1, .plain r.2)

inductive IOp
  | base (op : Op)
  | predict (fh : Option FhArg) (a : IArgs)
  | updatePredictSingle (y : Series) (fh : Option FhArg) (updateParams : Bool) (a : IArgs)
  | updatePredict (y : Series) (cv : Option CvSpec) (updateParams : Bool) (a : IArgs)
  deriving Repr

def stepI (ic : ICore) (mode : FhMode) (s : FState) : IOp → FState × IOut
  | .base op => let r := step ic.toCore mode s op; (r.1, .plain r.2)
  | .predict fh a => predictI ic mode s fh a
  | .updatePredictSingle y fh up a => updatePredictSingleI ic mode s y fh up a
  | .updatePredict y cv up a => updatePredictI ic mode s y cv up a

def runI (ic : ICore) (mode : FhMode) : FState → List IOp → FState × List IOut
  | s, [] => (s, [])
  | s, op :: ops =>
    let (s1, o) := stepI ic mode s op
    let (s2, os) := runI ic mode s1 ops
    (s2, o :: os)

/-- the point-forecast part of an output -/
def IOut.point : IOut → Out
  | .plain o => o
  | .withInt p _ _ => .series p

def IOut.intervals? : IOut → Option (List (List IRow))
  | .plain _ => none
  | .withInt _ ts _ => some ts

/-- the harness's interval probe: probe values, half-width k·|h| / 8 -/
def icoreProbe (w : Int) : ICore :=
  { coreProbe w with supports := true, predErr := fun k h => ((k * h.natAbs : Int) : Rat) / 8 }

/-- a plain window forecaster seen through the interval entry points -/
def icorePlain (core : Core) : ICore :=
  { core with supports := false, predErr := fun _ _ => 0 }

end SkVerif.Fc
