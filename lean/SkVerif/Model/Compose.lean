/-
Model of sktime's composite forecasters (sktime/forecasting/compose/_ensemble.py, _pipeline.py,
_multiplexer.py, _stack.py, forecasting/base/_meta.py, online_learning/_online_ensemble.py) and of
the `_SktimeForecaster` bookkeeping they call (forecasting/base/_sktime.py: `_set_y_X`,
`_update_y_X`, `_set_fh` of both horizon mixins, `check_is_fitted`, `predict`).

Import-free (core Lean only).  Follows the code's algorithm: loops are recursions over the member
list, attribute mutation is a returned state, `clone(x).fit(..)` is `fit` from the machine's `init`.

* `Forecaster`  an abstract forecaster machine: a state type, the unfitted state (`init`, what
                `clone` gives) and pure functions fit / update / predict that return the new state,
                the output and the log of what recording leaves were handed (`W` = error or value+log).
* `Transformer` an abstract series-to-series transformer machine, `Regressor` a tabular regressor.
* composites    `ensemble`, `pipeline` (TransformedTargetForecaster), `mux` (MultiplexForecaster),
                `stacking`; each takes machines and IS a machine, so nesting depth is unbounded.
* `recF`, `recT`, `recG`  the concrete recording leaves of harness/recorders_C09.py (driver only).

Series are `List (label × value)` with integer labels and `Rat` values; horizons are relative
integer steps.  Exogenous data, prediction intervals and absolute horizons are not modelled.
The composites' `_set_cutoff` also pokes the members at the start of a non-empty `update` (before the
member's own `update`, which sets the same cutoff): that poke is not modelled separately.
-/
import SkVerif.Model.Split
import SkVerif.Model.Sort
namespace SkVerif.Compose
open SkVerif

abbrev Series := List (Int × Rat)
abbrev Horizon := List Int

inductive Err | notFitted | value | type | index | key | other
  deriving DecidableEq, Repr

/-- what a recording leaf was handed -/
inductive Event
  | fc (tag op : String) (y : Series) (fh : Option Horizon) (up : Option Bool)
  | tr (tag op : String) (z : Series) (up : Option Bool)
  | rg (tag op : String) (rows : List (List Rat)) (ys : Option (List Rat))
  deriving DecidableEq, Repr

abbrev Log := List Event

/-- error, or a value together with the events emitted while computing it (in call order) -/
structure W (α : Type) where
  run : Except Err (α × Log)

namespace W
def pure {α} (a : α) : W α := ⟨.ok (a, [])⟩
def bind {α β} (x : W α) (f : α → W β) : W β :=
  match x.run with
  | .error e => ⟨.error e⟩
  | .ok (a, l) =>
    match (f a).run with
    | .error e => ⟨.error e⟩
    | .ok (b, l') => ⟨.ok (b, l ++ l')⟩
instance : Monad W := { pure := W.pure, bind := W.bind }
def tell (l : Log) : W Unit := ⟨.ok ((), l)⟩
def fail {α} (e : Err) : W α := ⟨.error e⟩
def lift {α} : Except Err α → W α
  | .ok a => ⟨.ok (a, [])⟩
  | .error e => ⟨.error e⟩
end W

/-! ### series helpers -/

def lastLabel (y : Series) : Option Int := y.getLast?.map (·.1)
def values (y : Series) : List Rat := y.map (·.2)
def labels (y : Series) : List Int := y.map (·.1)

/-- insert or overwrite one observation in a label-sorted series -/
def upsert (p : Int × Rat) : Series → Series
  | [] => [p]
  | q :: r => if p.1 < q.1 then p :: q :: r else if p.1 = q.1 then p :: r else q :: upsert p r

/-- `new.combine_first(old)`: union of the labels (sorted), the new value wins -/
def combineFirst (new old : Series) : Series := new.foldl (fun acc p => upsert p acc) old

/-- `check_fh` on a list of integer steps (relative): duplicate / empty → ValueError; sorted -/
def checkFh (raw : Horizon) : Except Err Horizon :=
  match FH.checkFh (FH.mk (.ints raw) true) false with
  | .ok fh => .ok fh.vals
  | .error .type => .error .type
  | .error _ => .error .value

/-! ### `_SktimeForecaster` bookkeeping -/

structure Base where
  fitted : Bool := false
  y : Series := []
  cutoff : Option Int := none
  fh : Option Horizon := none
  deriving DecidableEq, Repr

namespace Base
/-- `_set_y_X(y)`: `check_y(allow_empty=False)`, remember, cutoff = last label -/
def setYX (b : Base) (y : Series) : Except Err Base :=
  if y.isEmpty then .error .value else .ok { b with y := y, cutoff := lastLabel y }

/-- `_update_y_X(y)`: an empty batch changes nothing -/
def updateYX (b : Base) (y : Series) : Base :=
  if y.isEmpty then b else { b with y := combineFirst y b.y, cutoff := lastLabel y }

def checkFitted (b : Base) : Except Err Unit := if b.fitted then .ok () else .error .notFitted

/-- `_OptionalForecastingHorizonMixin._set_fh` -/
def setFhOpt (b : Base) (fh : Option Horizon) : Except Err Base :=
  match fh with
  | none => if b.fitted && b.fh.isNone then .error .value else .ok b
  | some raw => (checkFh raw).map (fun f => { b with fh := some f })

/-- `_RequiredForecastingHorizonMixin._set_fh` -/
def setFhReq (b : Base) (fh : Option Horizon) : Except Err Base :=
  match fh with
  | none => if b.fitted then .ok b else .error .value
  | some raw => do
      let f ← checkFh raw
      if b.fitted then (if b.fh = some f then .ok b else .error .value)
      else .ok { b with fh := some f }

/-- the `fh` property -/
def getFh (b : Base) : Except Err Horizon :=
  match b.fh with | some f => .ok f | none => .error .value
end Base

/-! ### abstract machines -/

structure Forecaster where
  S : Type
  init : S
  fit : S → Series → Option Horizon → W S
  update : S → Series → Bool → W S
  predict : S → Option Horizon → W (S × Series)
  /-- the `cutoff` property -/
  cutoff : S → Option Int
  /-- `_set_cutoff` (pure: no validation, nothing handed to a recording leaf) -/
  setCutoff : S → Option Int → S

structure Transformer where
  S : Type
  init : S
  fit : S → Series → W S
  transform : S → Series → W Series
  inverse : S → Series → W Series
  update : S → Series → Bool → W S
  /-- the class has an `update` method (`hasattr(transformer, "update")`) -/
  hasUpdate : Bool
  /-- tag `skip-inverse-transform` -/
  skipInverse : Bool

structure Regressor where
  S : Type
  init : S
  fit : S → List (List Rat) → List Rat → W S
  predict : S → List (List Rat) → W (List Rat)

inductive Op
  | fit (y : Series) (fh : Option Horizon)
  | update (y : Series) (up : Bool)
  | predict (fh : Option Horizon)
  | setCutoff (c : Option Int)
  deriving DecidableEq, Repr

namespace Forecaster
/-- one call; output = `some forecast` for predict -/
def step (F : Forecaster) (s : F.S) : Op → W (F.S × Option Series)
  | .fit y fh => do let s' ← F.fit s y fh; pure (s', none)
  | .update y up => do let s' ← F.update s y up; pure (s', none)
  | .predict fh => do let (s', p) ← F.predict s fh; pure (s', some p)
  | .setCutoff c => pure (F.setCutoff s c, none)

/-- a history of calls; fails at the first failing call -/
def run (F : Forecaster) (s : F.S) : List Op → W (F.S × List (Option Series))
  | [] => pure (s, [])
  | op :: ops => do
      let (s', o) ← F.step s op
      let (s'', os) ← F.run s' ops
      pure (s'', o :: os)
end Forecaster

/-! ### the combined entry points of `_SktimeForecaster`, as histories of primitive calls -/

/-- `update_predict_single(y_new, fh, update_params)` = `update`, then `predict` -/
def upsOps (y : Series) (up : Bool) (fh : Option Horizon) : List Op := [.update y up, .predict fh]

/-- `update_predict(y, cv, update_params)` = `_predict_moving_cutoff`: the cutoff is moved to just before
the new data, every window the splitter yields is fed through update-then-predict, and the cutoff is
put back to where it was (`_detached_cutoff`).  `windows` = the training windows of `cv.split(y)` as
series, `fh` = the splitter's horizon, `orig` = the cutoff before the call. -/
def upmOps (orig : Option Int) (y : Series) (windows : List Series) (fh : Horizon) (up : Bool) : List Op :=
  .setCutoff (y.head?.map (fun p => p.1 - 1)) ::
    (windows.flatMap (fun w => [Op.update w up, Op.predict (some fh)]) ++ [.setCutoff orig])

/-! ### member lists (heterogeneous state types) -/

def States : List Forecaster → Type
  | [] => Unit
  | F :: Fs => F.S × States Fs

/-- `_fit_forecasters`: every member is cloned (= starts from `init`) and fitted, in order -/
def fitAll : (Fs : List Forecaster) → Series → Option Horizon → W (States Fs)
  | [], _, _ => pure ()
  | F :: Fs, y, fh => do
      let s ← F.fit F.init y fh
      let ss ← fitAll Fs y fh
      pure (s, ss)

def updateAll : (Fs : List Forecaster) → States Fs → Series → Bool → W (States Fs)
  | [], _, _, _ => pure ()
  | F :: Fs, (s, ss), y, up => do
      let s' ← F.update s y up
      let ss' ← updateAll Fs ss y up
      pure (s', ss')

/-- `_predict_forecasters(fh)` -/
def predictAll : (Fs : List Forecaster) → States Fs → Option Horizon → W (States Fs × List Series)
  | [], _, _ => pure ((), [])
  | F :: Fs, (s, ss), fh => do
      let (s', p) ← F.predict s fh
      let (ss', ps) ← predictAll Fs ss fh
      pure ((s', ss'), p :: ps)

/-- `_HeterogenousEnsembleForecaster._set_cutoff` (since /repo dabf16c): every fitted member follows -/
def setCutoffAll : (Fs : List Forecaster) → States Fs → Option Int → States Fs
  | [], _, _ => ()
  | F :: Fs, (s, ss), c => (F.setCutoff s c, setCutoffAll Fs ss c)

/-- `_check_forecasters`: non-empty list, unique names -/
def checkMembers (names : List String) (n : Nat) : Except Err Unit :=
  if n = 0 then .error .value
  else if names.Nodup then .ok () else .error .value

/-! ### column-wise aggregation (`pd.concat(axis=1).<agg>(axis=1)`, `np.column_stack`) -/

def heads (ps : List Series) : List Rat := ps.filterMap (fun p => p.head?.map (·.2))
def tails (ps : List Series) : List Series := ps.map List.tail

/-- the first `n` rows of the member-forecast matrix (row = horizon step, column = member) -/
def rowsOf : Nat → List Series → List (List Rat)
  | 0, _ => []
  | n + 1, ps => heads ps :: rowsOf n (tails ps)

def nRows (ps : List Series) : Nat := (ps.head?.map List.length).getD 0
def firstLabels (ps : List Series) : List Int := (ps.head?.map labels).getD []

inductive Agg | mean | median | min | max | online
  deriving DecidableEq, Repr

def sumR : List Rat → Rat
  | [] => 0
  | x :: r => x + sumR r

def minR : Rat → List Rat → Rat
  | m, [] => m
  | m, x :: r => minR (if x < m then x else m) r

def maxR : Rat → List Rat → Rat
  | m, [] => m
  | m, x :: r => maxR (if m < x then x else m) r

def medianR (vs : List Rat) : Rat :=
  let s := sortRats vs
  let n := s.length
  if n % 2 = 1 then s.getD (n / 2) 0 else (s.getD (n / 2 - 1) 0 + s.getD (n / 2) 0) / 2

def aggVals (agg : Agg) (vs : List Rat) : Rat :=
  match agg with
  | .mean => sumR vs / (vs.length : Rat)
  | .median => medianR vs
  | .min => match vs with | [] => 0 | v :: r => minR v r
  | .max => match vs with | [] => 0 | v :: r => maxR v r
  | .online => sumR (vs.map (fun v => v * (1 / (vs.length : Rat))))

/-- one aggregated value per row, labelled like the first member's forecast -/
def aggregate (agg : Agg) (ps : List Series) : Series :=
  (firstLabels ps).zip ((rowsOf (nRows ps) ps).map (aggVals agg))

/-! ### EnsembleForecaster (and OnlineEnsembleForecaster without an ensemble algorithm) -/

def ensemble (agg : Option Agg) (names : List String) (Fs : List Forecaster) : Forecaster where
  S := Base × Option (States Fs)
  init := ({}, none)
  fit := fun (b, _) y fh => do
    let b ← W.lift (b.setYX y)
    let b ← W.lift (b.setFhOpt fh)
    W.lift (checkMembers names Fs.length)
    let ss ← fitAll Fs y fh
    pure ({ b with fitted := true }, some ss)
  update := fun (b, ss?) y up => do
    W.lift b.checkFitted
    let b := b.updateYX y
    match ss? with
    | none => W.fail .notFitted
    | some ss =>
      let ss' ← updateAll Fs ss y up
      pure (b, some ss')
  predict := fun (b, ss?) fh => do
    W.lift b.checkFitted
    let b ← W.lift (b.setFhOpt fh)
    let f ← W.lift b.getFh
    match ss? with
    | none => W.fail .notFitted
    | some ss =>
      let (ss', ps) ← predictAll Fs ss (some f)
      match agg with
      | none => W.fail .value
      | some a => pure ((b, some ss'), aggregate a ps)
  cutoff := fun (b, _) => b.cutoff
  setCutoff := fun (b, ss?) c => ({ b with cutoff := c }, ss?.map (fun ss => setCutoffAll Fs ss c))

/-! ### OnlineEnsembleForecaster with an ensemble algorithm -/

/-- an abstract weighting algorithm (`ensemble_algorithm`: NNLSEnsemble, NormalHedgeEnsemble, …):
`init n` = constructed for `n` estimators (uniform weights), `update` = shown the members' forecasts
(one list per member) and the observed values, `weights` = the weights it holds -/
structure Weigher where
  S : Type
  init : Nat → S
  update : S → List (List Rat) → List Rat → W S
  weights : S → List Rat

/-- `(row * weights).sum()` -/
def wsumRow (ws : List Rat) (row : List Rat) : Rat := sumR (List.zipWith (· * ·) row ws)

/-- `(pd.concat(member forecasts, axis=1) * weights).sum(axis=1)` -/
def weighted (ws : List Rat) (ps : List Series) : Series :=
  (firstLabels ps).zip ((rowsOf (nRows ps) ps).map (wsumRow ws))

def stepsTo (n : Nat) : Horizon := (List.range n).map (fun (i : Nat) => (i : Int) + 1)

/-- OnlineEnsembleForecaster(forecasters, ensemble_algorithm = A).  `fit` does not touch the algorithm
(its weights persist over refits); `update` with a non-empty batch first shows the algorithm the
members' forecasts for the steps 1…len(batch) — `fixed = true` (current /repo): made before the
cutoffs move; `fixed = false`: after `_update_y_X` has moved the members' cutoffs to the end of the
batch (the defect between /repo dabf16c and d4b430a) — and then updates the members;
`predict` = Σ weightᵢ · forecastᵢ with the weights the algorithm holds at that moment. -/
def onlineEnsembleG (fixed : Bool) (A : Weigher) (names : List String) (Fs : List Forecaster) : Forecaster where
  S := Base × Option (States Fs) × A.S
  init := ({}, none, A.init Fs.length)
  fit := fun (b, _, a) y fh => do
    let b ← W.lift (b.setYX y)
    let b ← W.lift (b.setFhOpt fh)
    W.lift (checkMembers names Fs.length)
    let ss ← fitAll Fs y fh
    pure ({ b with fitted := true }, some ss, a)
  update := fun (b, ss?, a) y up => do
    W.lift b.checkFitted
    let b := b.updateYX y
    match ss? with
    | none => W.fail .notFitted
    | some ss =>
      if y.isEmpty then
        let ss' ← updateAll Fs ss y up
        pure (b, some ss', a)
      else
        let (ss1, ps) ← predictAll Fs (if fixed then ss else setCutoffAll Fs ss (lastLabel y)) (some (stepsTo y.length))
        let a' ← A.update a (ps.map values) (values y)
        let ss' ← updateAll Fs ss1 y up
        pure (b, some ss', a')
  predict := fun (b, ss?, a) fh => do
    W.lift b.checkFitted
    let b ← W.lift (b.setFhOpt fh)
    let f ← W.lift b.getFh
    match ss? with
    | none => W.fail .notFitted
    | some ss =>
      let (ss', ps) ← predictAll Fs ss (some f)
      pure ((b, some ss', a), weighted (A.weights a) ps)
  cutoff := fun (b, _, _) => b.cutoff
  setCutoff := fun (b, ss?, a) c => ({ b with cutoff := c }, ss?.map (fun ss => setCutoffAll Fs ss c), a)

/-- the online ensemble of the current /repo tree (since commit d4b430a the algorithm is shown the
members' forecasts made BEFORE the cutoffs are moved, i.e. forecasts for the labels of the new batch;
`onlineEnsembleG false` is the behaviour between dabf16c and d4b430a, kept as a record) -/
def onlineEnsemble (A : Weigher) (names : List String) (Fs : List Forecaster) : Forecaster :=
  onlineEnsembleG true A names Fs

/-- a weighting algorithm replayed from a tape: the weights the REAL algorithm held after each of its
updates (its arithmetic — NNLS, root finding — is a library black box, fed back as data) -/
def tapeWeigher (tape : List (List Rat)) : Weigher where
  S := List (List Rat) × List Rat
  init := fun n => (tape, List.replicate n (1 / (n : Rat)))
  update := fun (t, _) _ _ =>
    match t with
    | [] => W.fail .other
    | w :: r => pure (r, w)
  weights := fun s => s.2

/-! ### TransformedTargetForecaster -/

def TStates : List Transformer → Type
  | [] => Unit
  | T :: Ts => T.S × TStates Ts

/-- fit: each transformer is cloned, fitted on the series transformed so far, and transforms it -/
def fitChain : (Ts : List Transformer) → Series → W (TStates Ts × Series)
  | [], z => pure ((), z)
  | T :: Ts, z => do
      let s ← T.fit T.init z
      let z' ← T.transform s z
      let (ss, zz) ← fitChain Ts z'
      pure ((s, ss), zz)

/-- predict: inverse transforms, last transformer first, skipping the tagged ones -/
def inverseChain : (Ts : List Transformer) → TStates Ts → Series → W Series
  | [], _, p => pure p
  | T :: Ts, (s, ss), p => do
      let p' ← inverseChain Ts ss p
      if T.skipInverse then pure p' else T.inverse s p'

/-- update of the ORIGINAL sktime 0.6.0 code (before /repo commit 8cf3d7f): every transformer that
has `update` receives the RAW batch -/
def updateChainRaw : (Ts : List Transformer) → TStates Ts → Series → Bool → W (TStates Ts)
  | [], _, _, _ => pure ()
  | T :: Ts, (s, ss), y, up => do
      let s' ← if T.hasUpdate then T.update s y up else pure s
      let ss' ← updateChainRaw Ts ss y up
      pure (s', ss')

/-- update as the property demands it and as /repo codes it since 8cf3d7f:
each transformer is updated with, and then transforms, the batch transformed so far -/
def updateChainT : (Ts : List Transformer) → TStates Ts → Series → Bool → W (TStates Ts × Series)
  | [], _, z, _ => pure ((), z)
  | T :: Ts, (s, ss), z, up => do
      let s' ← if T.hasUpdate then T.update s z up else pure s
      let z' ← T.transform s' z
      let (ss', zz) ← updateChainT Ts ss z' up
      pure ((s', ss'), zz)

/-- `fixed = true`: `update` as it is in /repo since commit 8cf3d7f (the batch is transformed step by
step); `fixed = false`: the ORIGINAL `update` of sktime 0.6.0 (raw batch to every transformer and to
the final forecaster), kept only for the theorem that documents the repaired defect -/
def pipelineG (fixed : Bool) (Ts : List Transformer) (F : Forecaster) : Forecaster where
  S := Base × Option (TStates Ts × F.S)
  init := ({}, none)
  fit := fun (b, _) y fh => do
    let b ← W.lift (b.setYX y)
    let b ← W.lift (b.setFhOpt fh)
    let (ts, yt) ← fitChain Ts y
    let s ← F.fit F.init yt fh
    pure ({ b with fitted := true }, some (ts, s))
  update := fun (b, st?) y up => do
    W.lift b.checkFitted
    let b := b.updateYX y
    match st? with
    | none => W.fail .notFitted
    | some (ts, s) =>
      if fixed then
        let (ts', yt) ← updateChainT Ts ts y up
        let s' ← F.update s yt up
        pure (b, some (ts', s'))
      else
        let ts' ← updateChainRaw Ts ts y up
        let s' ← F.update s y up
        pure (b, some (ts', s'))
  predict := fun (b, st?) fh => do
    W.lift b.checkFitted
    let b ← W.lift (b.setFhOpt fh)
    let f ← W.lift b.getFh
    match st? with
    | none => W.fail .notFitted
    | some (ts, s) =>
      let (s', p) ← F.predict s (some f)
      let p' ← inverseChain Ts ts p
      pure ((b, some (ts, s')), p')
  cutoff := fun (b, _) => b.cutoff
  setCutoff := fun (b, st?) c => ({ b with cutoff := c }, st?.map (fun st => (st.1, F.setCutoff st.2 c)))

/-- the pipeline of the current /repo tree -/
def pipeline (Ts : List Transformer) (F : Forecaster) : Forecaster := pipelineG true Ts F

/-! ### MultiplexForecaster -/

/-- `_set_forecaster`: the member whose name equals `selected_forecaster` -/
def select (sel : Option String) : List String → List Forecaster → Option Forecaster
  | n :: ns, F :: Fs => if sel = some n then some F else select sel ns Fs
  | _, _ => none

/-- multiplexer around the selected member `F`; `chk` = result of `_check_forecasters` -/
def muxOn (chk : Except Err Unit) (F : Forecaster) : Forecaster where
  S := Base × Option F.S
  init := ({}, none)
  fit := fun (b, _) y fh => do
    let b ← W.lift (b.setYX y)
    let b ← W.lift (b.setFhOpt fh)
    W.lift chk
    let s ← F.fit F.init y fh
    pure ({ b with fitted := true }, some s)
  update := fun (b, s?) y up => do
    W.lift b.checkFitted
    let b := b.updateYX y
    match s? with
    | none => W.fail .notFitted
    | some s =>
      let s' ← F.update s y up
      pure (b, some s')
  predict := fun (b, s?) fh => do
    W.lift b.checkFitted
    let b ← W.lift (b.setFhOpt fh)
    let f ← W.lift b.getFh
    match s? with
    | none => W.fail .notFitted
    | some s =>
      let (s', p) ← F.predict s (some f)
      pure ((b, some s'), p)
  cutoff := fun (b, _) => b.cutoff
  setCutoff := fun (b, s?) c => ({ b with cutoff := c }, s?.map (fun s => F.setCutoff s c))

/-- no member has the selected name: `_check_selected_forecaster` raises ValueError
(a bare `Exception` before /repo commit 3ae1e85); the multiplexer never becomes fitted -/
def muxNone (chk : Except Err Unit) : Forecaster where
  S := Base
  init := {}
  fit := fun b y fh => do
    let b ← W.lift (b.setYX y)
    let _ ← W.lift (b.setFhOpt fh)
    W.lift chk
    W.fail .value
  update := fun b _ _ => do W.lift b.checkFitted; W.fail .value
  predict := fun b _ => do W.lift b.checkFitted; W.fail .value
  cutoff := fun b => b.cutoff
  setCutoff := fun b c => { b with cutoff := c }

def mux (sel : Option String) (names : List String) (Fs : List Forecaster) : Forecaster :=
  match select sel names Fs with
  | some F => muxOn (checkMembers names Fs.length) F
  | none => muxNone (checkMembers names Fs.length)

/-! ### StackingForecaster -/

def splitErr : Split.Err → Err
  | .value => .value | .type => .type | .index => .index | .key => .key

/-- `y.iloc[positions]` -/
def iloc (y : Series) : List Int → Except Err Series
  | [] => .ok []
  | i :: r =>
    match y[i.toNat]? with
    | some p => if i < 0 then .error .index else (iloc y r).map (p :: ·)
    | none => .error .index

/-- `next(SingleWindowSplitter(fh).split(y))` on positions -/
def holdoutSplit (n : Nat) (fh : Horizon) : Except Err (List Int × List Int) :=
  match Split.singleSplit (n : Int) fh none with
  | .ok (f :: _) => .ok f
  | .ok [] => .error .value
  | .error e => .error (splitErr e)

def predIndex (cutoff : Option Int) (fh : Horizon) : List Int := fh.map (fun h => cutoff.getD 0 + h)

def stacking (names : List String) (Fs : List Forecaster) (G : Regressor) : Forecaster where
  S := Base × Option (States Fs × G.S)
  init := ({}, none)
  fit := fun (b, _) y fh => do
    let b ← W.lift (b.setYX y)
    let b ← W.lift (b.setFhReq fh)
    W.lift (checkMembers names Fs.length)
    let f ← W.lift b.getFh
    let (train, test) ← W.lift (holdoutSplit y.length f)
    let yF ← W.lift (iloc y train)
    let yM ← W.lift (iloc y test)
    -- members on the training window, forecasts for the hold-out window
    let ss ← fitAll Fs yF (some f)
    let (_, ps) ← predictAll Fs ss none
    -- meta-regressor on the hold-out window
    let g ← G.fit G.init (rowsOf (nRows ps) ps) (values yM)
    -- members refitted on the whole series
    let ss2 ← fitAll Fs y (some f)
    pure ({ b with fitted := true }, some (ss2, g))
  update := fun (b, st?) y up => do
    W.lift b.checkFitted
    let b := b.updateYX y
    match st? with
    | none => W.fail .notFitted
    | some (ss, g) =>
      let ss' ← updateAll Fs ss y up
      pure (b, some (ss', g))
  predict := fun (b, st?) fh => do
    W.lift b.checkFitted
    let b ← W.lift (b.setFhReq fh)
    let f ← W.lift b.getFh
    match st? with
    | none => W.fail .notFitted
    | some (ss, g) =>
      let (ss', ps) ← predictAll Fs ss none
      let v ← G.predict g (rowsOf (nRows ps) ps)
      pure ((b, some (ss', g)), (predIndex b.cutoff f).zip v)
  cutoff := fun (b, _) => b.cutoff
  setCutoff := fun (b, st?) c => ({ b with cutoff := c }, st?.map (fun st => (setCutoffAll Fs st.1 c, st.2)))

/-! ### the recording leaves of harness/recorders_C09.py (used by the driver and in examples) -/

structure LeafP where
  tag : String
  a : Rat
  b : Rat
  c : Rat
  d : Rat
  deriving Repr

def level (p : LeafP) (y : Series) : Rat :=
  p.a * ((y.getLast?.map (·.2)).getD 0) + p.b * sumR (values y) + p.c * (y.length : Rat)

/-- `RecForecaster`: level = a·last + b·sum + c·count of the remembered series, forecast(h) = level + d·h -/
def recF (p : LeafP) : Forecaster where
  S := Base × Rat
  init := ({}, 0)
  fit := fun (b, _) y fh => do
    let fc ← W.lift (match fh with | none => .ok none | some r => (checkFh r).map some)
    W.tell [.fc p.tag "fit" y fc none]
    let b ← W.lift (b.setYX y)
    let b ← W.lift (b.setFhOpt fh)
    pure ({ b with fitted := true }, level p b.y)
  update := fun (b, lv) y up => do
    W.tell [.fc p.tag "update" y none (some up)]
    W.lift b.checkFitted
    let b := b.updateYX y
    pure (b, if up then level p b.y else lv)
  predict := fun (b, lv) fh => do
    W.lift b.checkFitted
    let b ← W.lift (b.setFhOpt fh)
    let f ← W.lift b.getFh
    let out : Series := f.map (fun h => (b.cutoff.getD 0 + h, lv + p.d * (h : Rat)))
    W.tell [.fc p.tag "predict" out (some f) none]
    pure ((b, lv), out)
  cutoff := fun (b, _) => b.cutoff
  setCutoff := fun (b, lv) c => ({ b with cutoff := c }, lv)

structure TrP where
  tag : String
  k : Rat
  m : Rat
  upd : Bool
  skip : Bool
  deriving Repr

/-- `RecTransformer*`: z ↦ k·z + m·ref, ref = last value seen by fit (or by a parameter update) -/
def recT (p : TrP) : Transformer where
  S := Option Rat
  init := none
  fit := fun _ z => do
    W.tell [.tr p.tag "fit" z none]
    pure (some ((z.getLast?.map (·.2)).getD 0))
  transform := fun s z => do
    W.tell [.tr p.tag "transform" z none]
    match s with
    | none => W.fail .notFitted
    | some r => pure (z.map (fun q => (q.1, q.2 * p.k + p.m * r)))
  inverse := fun s z => do
    W.tell [.tr p.tag "inverse" z none]
    match s with
    | none => W.fail .notFitted
    | some r => pure (z.map (fun q => (q.1, (q.2 - p.m * r) / p.k)))
  update := fun s z up => do
    W.tell [.tr p.tag "update" z (some up)]
    match s with
    | none => W.fail .notFitted
    | some r => pure (some (if up && !z.isEmpty then (z.getLast?.map (·.2)).getD 0 else r))
  hasUpdate := p.upd
  skipInverse := p.skip

structure RegP where
  tag : String
  p : Rat
  q : Rat
  deriving Repr

def wsum : Nat → List Rat → Rat
  | _, [] => 0
  | j, x :: r => (j : Rat) * x + wsum (j + 1) r

/-- `RecRegressor` -/
def recG (p : RegP) : Regressor where
  S := Option Rat
  init := none
  fit := fun _ rows ys => do
    W.tell [.rg p.tag "fit" rows (some ys)]
    if rows.length ≠ ys.length then W.fail .value
    else pure (some (sumR ys + sumR (rows.map (wsum 1))))
  predict := fun s rows => do
    W.tell [.rg p.tag "predict" rows none]
    match s with
    | none => W.fail .notFitted
    | some sv => pure (rows.map (fun r => wsum 1 r * p.p + p.q * sv))

end SkVerif.Compose
