/-
Model of sktime/forecasting/model_selection/_tune.py (BaseGridSearch, ForecastingGridSearchCV,
ForecastingRandomizedSearchCV).  Import-free apart from the shared splitter model.

What is modelled (the code's algorithm, as it is):
  * candidates        : sklearn `ParameterGrid` iteration order (per grid dict: items sorted by key,
                        `itertools.product` of the value lists, last key fastest; an empty dict
                        yields `{}`), `_check_param_grid`; randomized search takes the output of the
                        real `ParameterSampler` as data (a candidate list).
  * evaluate()        : NOT modelled here (C07).  Interface = per-fold test scores of one candidate
                        (`Except Err (List Score)`, `none` = NaN), obtained for the tuner's own `cv` and
                        the `y` given to `fit`; the call trace records which (cv, y, params) each call got.
  * `_fit_and_score`  : column mean with pandas' skipna (NaN folds ignored, all-NaN → NaN).
  * ranking           : `Series.rank(ascending=not scoring.greater_is_better)` (method "average",
                        NaN keeps NaN) — the direction is the ONE definition `rankAscending`.
  * selection         : `Series.argmin()` (first minimal rank, NaN skipped, all-NaN → −1 → KeyError),
                        `best_index_`, `best_score_`, `best_params_`.
  * refit             : `best_forecaster_ = clone(forecaster).set_params(**best_params_)`, fitted on
                        the whole `(y, X, fh)` iff `refit`; `_is_fitted = True` only at the very end.
  * delegation        : `check_is_fitted(method_name)` (consults `refit`, then the best forecaster),
                        `predict/update/update_predict/update_predict_single/...` delegate to
                        `best_forecaster_`; `update` returns `self`; `cutoff` is guarded by
                        `check_is_fitted("cutoff")` — the ONE definition `cutoffChecksRefit`; `update_params`
                        defaults to `True` in the tuner — the ONE definition `tunerDefaultUpdateParams`.
The base forecaster is an abstract machine (`Machine`): any state type, any operations.
-/
import SkVerif.Model.Split
namespace SkVerif.Tune
open SkVerif

inductive Err | value | type | key | index | attr | notFitted | other
  deriving DecidableEq, Repr

/-! ## Candidates -/

/-- parameter values are opaque tokens (the harness maps Python values to tokens) -/
abbrev Val := String
/-- one candidate = a parameter dict, in `ParameterGrid`'s key order (sorted by name).
Names may be nested (`step__param`); the tuner never looks inside a name. -/
abbrev Params := List (String × Val)

/-- what the user wrote as the values of one grid entry -/
inductive GridVals
  | seq (vs : List Val)      -- a list / tuple / 1-d array
  | notSeq                   -- a str or a non-sequence: rejected by `_check_param_grid`
  deriving DecidableEq, Repr

abbrev GridDict := List (String × GridVals)

/-- `_check_param_grid`: every value must be a non-empty sequence (all failures are ValueError) -/
def badVals : GridVals → Bool
  | .notSeq => true
  | .seq vs => vs.isEmpty

def checkParamGrid (grid : List GridDict) : Except Err Unit :=
  if grid.any (fun d => d.any (fun kv => badVals kv.2)) then .error .value else .ok ()

def valsOf : GridVals → List Val
  | .seq vs => vs
  | .notSeq => []

/-- insertion into a key-sorted item list (`sorted(p.items())`; keys of a dict are distinct) -/
def insertItem (kv : String × List Val) : List (String × List Val) → List (String × List Val)
  | [] => [kv]
  | h :: t => if kv.1 < h.1 then kv :: h :: t else h :: insertItem kv t

def sortItems : List (String × List Val) → List (String × List Val)
  | [] => []
  | h :: t => insertItem h (sortItems t)

/-- `itertools.product(*values)` zipped with the keys: first key slowest, last key fastest -/
def product : List (String × List Val) → List Params
  | [] => [[]]
  | (k, vs) :: rest => vs.flatMap (fun v => (product rest).map (fun p => (k, v) :: p))

/-- `ParameterGrid(param_grid).__iter__` -/
def gridCandidates (grid : List GridDict) : List Params :=
  grid.flatMap (fun d => product (sortItems (d.map (fun kv => (kv.1, valsOf kv.2)))))

/-- where the candidates of a search come from -/
inductive Source
  | grid (g : List GridDict)          -- ForecastingGridSearchCV._run_search
  | sampled (cs : List Params)        -- ForecastingRandomizedSearchCV: ParameterSampler output, as data
  deriving Repr

def candidatesOf : Source → Except Err (List Params)
  | .grid g => (checkParamGrid g).map (fun _ => gridCandidates g)
  | .sampled cs => .ok cs

/-! ## Scores, mean, rank, argmin -/

/-- a test score; `none` = NaN -/
abbrev Score := Option Rat

def ratSum : List Rat → Rat
  | [] => 0
  | x :: t => x + ratSum t

def finite (xs : List Score) : List Rat := xs.filterMap id

/-- `out.mean()` of one evaluate() score column: pandas skips NaN; no finite value → NaN -/
def colMean (xs : List Score) : Score :=
  let fin := finite xs
  if fin.isEmpty then none else some (ratSum fin / (fin.length : Rat))

/-- THE ranking direction: `rank(ascending=not scoring.greater_is_better)`.
(Before fix 3fa437d the code read `~scoring.greater_is_better`; `~True = -2` and `~False = -1` are both
truthy, so the ranking was ascending for either direction.) -/
def rankAscending (gib : Bool) : Bool := !gib

/-- number of finite entries satisfying `p` -/
def countFin (p : Rat → Bool) (xs : List Score) : Nat :=
  xs.countP (fun s => match s with | some w => p w | none => false)

/-- `before asc v w`: does `w` come strictly before `v` in the ranking order -/
def before (asc : Bool) (v w : Rat) : Bool := if asc then decide (w < v) else decide (v < w)

/-- twice the pandas rank (method "average", na_option "keep") of value `v` within `xs`:
rank = (#strictly before) + (#equal + 1)/2.  Kept doubled so that it is a natural number; the
order and equality of ranks (all that `argmin` uses) are those of the doubled ranks. -/
def rank2Of (asc : Bool) (xs : List Score) (v : Rat) : Nat :=
  2 * countFin (before asc v) xs + countFin (fun w => decide (w = v)) xs + 1

def rank2 (asc : Bool) (xs : List Score) : List (Option Nat) :=
  xs.map (fun s => s.map (rank2Of asc xs))

/-- `Series.argmin()` on a float column: position and value of the first minimal entry, NaN skipped;
`none` = every entry NaN (pandas answers −1) -/
def argminFirst : List (Option Nat) → Option (Nat × Nat)
  | [] => none
  | x :: t =>
    match x, argminFirst t with
    | none, r => r.map (fun iv => (iv.1 + 1, iv.2))
    | some v, none => some (0, v)
    | some v, some (i, w) => if v ≤ w then some (0, v) else some (i + 1, w)

/-! ## The search (`BaseGridSearch.fit` up to the refit) -/

/-- per-fold scores of one candidate as returned by evaluate(), or the exception it raised
(set_params on an unknown name, a failing forecaster, …) -/
abbrev EvalOut := Except Err (List Score)

/-- `parallel(delayed(_fit_and_score)(params) for params in candidate_params)` with the default
sequential backend: the first failing candidate's exception propagates -/
def evalAll (ev : Params → EvalOut) : List Params → Except Err (List (List Score))
  | [] => .ok []
  | c :: cs =>
    match ev c with
    | .error e => .error e
    | .ok s =>
      match evalAll ev cs with
      | .error e => .error e
      | .ok r => .ok (s :: r)

/-- the arguments each evaluate() call receives, in call order (stops after the first failure) -/
def evalCalls {C Y : Type} (cv : C) (y : Y) (ev : Params → EvalOut) : List Params → List (C × Y × Params)
  | [] => []
  | c :: cs =>
    match ev c with
    | .error _ => [(cv, y, c)]
    | .ok _ => (cv, y, c) :: evalCalls cv y ev cs

structure Row where
  params : Params
  mean : Score            -- `mean_test_<metric>`
  rank2 : Option Nat      -- twice `rank_test_<metric>`
  deriving DecidableEq, Repr

structure SearchResult where
  rows : List Row         -- cv_results_
  bestIndex : Nat
  bestScore : Score
  bestParams : Params
  deriving DecidableEq, Repr

def mkRows (cands : List Params) (means : List Score) (ranks : List (Option Nat)) : List Row :=
  (cands.zip (means.zip ranks)).map (fun t => ⟨t.1, t.2.1, t.2.2⟩)

/-- the search with the ranking direction `asc` made explicit -/
def searchDir (cands : List Params) (ev : Params → EvalOut) (asc : Bool) : Except Err SearchResult :=
  match evalAll ev cands with
  | .error e => .error e
  | .ok outs =>
    if outs.isEmpty then .error .value          -- "No fits were performed"
    else
      let means := outs.map colMean
      let ranks := rank2 asc means
      match argminFirst ranks with
      | none => .error .key                       -- argmin = −1, `results.loc[-1, …]`
      | some (i, _) =>
        .ok { rows := mkRows cands means ranks, bestIndex := i,
              bestScore := (means[i]?).getD none, bestParams := (cands[i]?).getD [] }

/-- the search as coded: the direction comes from the metric through `rankAscending` -/
def search (cands : List Params) (ev : Params → EvalOut) (gib : Bool) : Except Err SearchResult :=
  searchDir cands ev (rankAscending gib)

/-! ## The base forecaster as an abstract machine, and the tuner around it -/

/-- any forecaster class: `init p` = `clone(forecaster).set_params(**p)` (unfitted), `fit`, and
`step` = any later call with its observable result (a value or the exception raised) -/
structure Machine (S Op V A : Type) where
  init : Params → S
  fit : S → A → Except Err S
  fitted : S → Bool
  step : S → Op → S × Except Err V

/-- THE guard of the `cutoff` property: `check_is_fitted("cutoff")`, so `refit` is consulted
(before fix 2c34b70 it called `check_is_fitted()` without a method name: `false`). -/
def cutoffChecksRefit : Bool := true

/-- THE default of `update_params` in the tuner's `update`, `update_predict`, `update_predict_single`:
`True`, like every forecaster's (before fix 2b9e886: `False`). -/
def tunerDefaultUpdateParams : Bool := true
/-- the default of `update_params` in `BaseForecaster.update/update_predict/update_predict_single` -/
def forecasterDefaultUpdateParams : Bool := true

/-- a call on the tuner -/
structure Call (Op : Type) where
  op : Op                 -- the call as the tuner forwards it to `best_forecaster_` (its own defaults filled in)
  direct : Op             -- the same call text made on a forecaster (the forecaster's defaults filled in)
  named : Bool            -- guarded by `check_is_fitted("<method>")` (consults `refit`) rather than `check_is_fitted()`
  retSelf : Bool          -- the tuner returns `self` instead of the delegate's value (`update`)
  deriving Repr

/-- calls as the tuner class defines them -/
def Call.method {Op} (o : Op) : Call Op := ⟨o, o, true, false⟩     -- predict, compute_pred_int, transform, …
def Call.cutoff {Op} (o : Op) : Call Op := ⟨o, o, cutoffChecksRefit, false⟩
/-- `update(y, X, update_params=up)`; `mk up'` = the forecaster-level call with the flag given explicitly -/
def Call.update {Op} (mk : Bool → Op) (up : Option Bool) : Call Op :=
  ⟨mk (up.getD tunerDefaultUpdateParams), mk (up.getD forecasterDefaultUpdateParams), true, true⟩
/-- `update_predict(…, update_params=up)` / `update_predict_single(…, update_params=up)` -/
def Call.updatePredict {Op} (mk : Bool → Op) (up : Option Bool) : Call Op :=
  ⟨mk (up.getD tunerDefaultUpdateParams), mk (up.getD forecasterDefaultUpdateParams), true, false⟩

/-- every call the tuner class offers, as written by the user (`up = none`: `update_params` left to its default) -/
inductive UCall (Op : Type) where
  | method (o : Op)                                   -- predict, compute_pred_int, transform, inverse_transform, …
  | cutoff (o : Op)
  | update (mk : Bool → Op) (up : Option Bool)
  | updatePredict (mk : Bool → Op) (up : Option Bool) -- update_predict, update_predict_single

def UCall.toCall {Op} : UCall Op → Call Op
  | .method o => Call.method o
  | .cutoff o => Call.cutoff o
  | .update mk up => Call.update mk up
  | .updatePredict mk up => Call.updatePredict mk up

inductive TVal (V : Type) | self | val (v : V)
  deriving DecidableEq, Repr

structure Config (C : Type) where
  source : Source
  cv : C
  gib : Bool              -- scoring.greater_is_better
  refit : Bool

structure TState (S : Type) where
  isFitted : Bool
  best : Option S                 -- best_forecaster_
  result : Option SearchResult    -- cv_results_, best_index_, best_score_, best_params_

def TState.initial {S} : TState S := ⟨false, none, none⟩

/-- `BaseGridSearch.fit(y, X, fh)`; `ev cv y` is evaluate() for this tuner's forecaster/strategy/metric.
Attributes are assigned in the code's order, so a failure leaves the earlier ones in place. -/
def fitTuner {S Op V A C Y : Type} (m : Machine S Op V A) (cfg : Config C)
    (ev : C → Y → Params → EvalOut) (st : TState S) (y : Y) (a : A) : TState S × Except Err Unit :=
  match candidatesOf cfg.source with
  | .error e => (st, .error e)
  | .ok cands =>
    match search cands (ev cfg.cv y) cfg.gib with
    | .error e => (st, .error e)
    | .ok r =>
      let fresh := m.init r.bestParams
      if cfg.refit then
        match m.fit fresh a with
        | .error e => ({ st with best := some fresh, result := some r }, .error e)
        | .ok s => ({ isFitted := true, best := some s, result := some r }, .ok ())
      else ({ isFitted := true, best := some fresh, result := some r }, .ok ())

/-- what the caller sees: the delegate's exception, its value, or `self` (for `update`) -/
def wrapOut {Op V : Type} (c : Call Op) : Except Err V → Except Err (TVal V)
  | .error e => .error e
  | .ok v => .ok (if c.retSelf then .self else .val v)

/-- one later call on the tuner -/
def stepTuner {S Op V A C : Type} (m : Machine S Op V A) (cfg : Config C) (st : TState S) (c : Call Op) :
    TState S × Except Err (TVal V) :=
  if !st.isFitted then (st, .error .notFitted)                    -- BaseForecaster.check_is_fitted
  else
    match st.best with
    | none => (st, .error .attr)                                   -- unreachable after a completed fit
    | some s =>
      if c.named && !cfg.refit then (st, .error .notFitted)       -- "initialized with refit=False"
      else if c.named && !m.fitted s then (st, .error .notFitted) -- best_forecaster_.check_is_fitted()
      else
        let r := m.step s c.op
        ({ st with best := some r.1 }, wrapOut c r.2)

def runTuner {S Op V A C : Type} (m : Machine S Op V A) (cfg : Config C) :
    TState S → List (Call Op) → List (Except Err (TVal V))
  | _, [] => []
  | st, c :: cs => let r := stepTuner m cfg st c; r.2 :: runTuner m cfg r.1 cs

/-- the same calls made directly on a forecaster -/
def runMachine {S Op V A : Type} (m : Machine S Op V A) : S → List (Call Op) → List (Except Err (TVal V))
  | _, [] => []
  | s, c :: cs =>
    let r := m.step s c.direct
    wrapOut c r.2 :: runMachine m r.1 cs

/-! ## The splits every candidate is evaluated on (shared model of C01) -/

/-- a window splitter configuration (what `cv` is in the correspondence) -/
structure CvSpec where
  kind : Split.Kind
  fh : List Int
  wl : Int
  step : Int
  iw : Option Int
  sww : Bool
  deriving Repr

/-- `cv.split(y)` for a series of `n` observations: a function of the splitter and `n` only -/
def foldsOf (cv : CvSpec) (n : Int) : Except Split.Err (List Split.Fold) :=
  Split.windowSplit cv.kind n cv.fh cv.wl cv.step cv.iw cv.sww

end SkVerif.Tune
