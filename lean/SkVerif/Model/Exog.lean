/-
Exogenous data next to the training series of a window forecaster (C11): `_set_y_X` keeps `X` beside `y`
(`check_y_X`: the two must have the same time index), `_BaseWindowForecaster._get_last_window` returns the last window
of BOTH (`self._y.loc[start:cutoff]`, `self._X.loc[start:cutoff]`), and `NaiveForecaster._predict_last_window` reads
the first component only (its docstring: "Exogenous variables are ignored").  The in-sample path
(`_predict_moving_cutoff` → `update(y_new, X=None)`) leaves `self._X` as fitted.
Import-free (Model only).
-/
import SkVerif.Model.Naive
namespace SkVerif.Exog
open SkVerif SkVerif.Naive

/-- rows of exogenous values, one row per time point (`none` = missing) -/
abbrev XRows := List (List Val)

/-- `X.loc[a:b]` on contiguous labels `origin …` (both ends inclusive) -/
def locSliceRows (X : XRows) (origin a b : Int) : XRows :=
  let lo := if a < origin then origin else a
  let hi := if b > origin + (X.length : Int) - 1 then origin + (X.length : Int) - 1 else b
  if hi < lo then [] else (X.drop (lo - origin).toNat).take (hi - lo + 1).toNat

/-- `_get_last_window`: `(y window, X window or None)` -/
def getLastWindow (y : List Val) (X : Option XRows) (origin : Int) (wl : Nat) (cutoff : Int) :
    List Val × Option XRows :=
  (lastWindow y origin wl cutoff, X.map (fun rows => locSliceRows rows origin (cutoff - (wl : Int) + 1) cutoff))

def inSampleGoX (st : Strategy) (sp wl : Nat) (y : List Val) (X : Option XRows) (origin : Int) :
    List Int → Int → Except Err (List (Int × Val))
  | [], _ => .ok []
  | q :: qs, cut =>
    let cut' := if q < 0 then cut else origin + q
    match predictLastWindow st sp wl (getLastWindow y X origin wl cut').1 [1] with
    | .error e => .error e
    | .ok v =>
      match inSampleGoX st sp wl y X origin qs cut' with
      | .error e => .error e
      | .ok rest => .ok ((cut' + 1, v.headD none) :: rest)

def predictInSampleX (st : Strategy) (sp wl : Nat) (y : List Val) (X : Option XRows) (origin : Int) (steps : List Int) :
    Except Err (List (Int × Val)) :=
  let n : Int := y.length
  let cs := sortInts (steps.map (fun s => s + n - 2))
  match cs.getLast? with
  | none => .error .value
  | some mx =>
    if mx ≥ n then .error .value
    else if mx + 1 ≥ n then .error .value
    else inSampleGoX st sp wl y X origin cs (origin - 1)

def predictOutX (st : Strategy) (sp wl : Nat) (y : List Val) (X : Option XRows) (origin : Int) (steps : List Int) :
    Except Err (List (Int × Val)) := do
  let cutoff : Int := origin + (y.length : Int) - 1
  let vs ← predictLastWindow st sp wl (getLastWindow y X origin wl cutoff).1 steps
  pure ((steps.map (cutoff + ·)).zip vs)

/-- `check_equal_time_index(y, X)` on contiguous labels starting at the same origin -/
def xMatches (y : List Val) : Option XRows → Bool
  | none => true
  | some rows => rows.length == y.length

/-- `NaiveForecaster(strategy, window_length, sp).fit(y, X).predict(fh[, X_future])`; the future rows are not read -/
def fitPredictX (X : Option XRows) (_futureGiven : Bool) (st : Strategy) (sp : Int) (wl : Option Int) (y : List Val) (origin : Int)
    (raw : FH.Raw) (rel : Bool) : Except Err (List (Int × Val)) :=
  if !(xMatches y X) then .error .value
  else do
    let w ← fitWindow st sp wl y.length
    let fh ← liftFH (FH.checkFh (FH.mk raw rel) false)
    let cutoff : Int := origin + (y.length : Int) - 1
    let r ← liftFH (FH.toRelative fh (some cutoff))
    let ins := r.vals.filter (fun v => decide (v ≤ 0))
    let oos := r.vals.filter (fun v => decide (v > 0))
    let spn := sp.toNat
    if ins.isEmpty then predictOutX st spn w y X origin oos
    else if oos.isEmpty then predictInSampleX st spn w y X origin ins
    else do
      let a ← predictInSampleX st spn w y X origin ins
      let b ← predictOutX st spn w y X origin oos
      pure (a ++ b)

end SkVerif.Exog
