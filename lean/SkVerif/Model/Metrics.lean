/-
Executable model of sktime/performance_metrics/forecasting/_functions.py (18 metric functions)
and _classes.py (the 18 class wrappers) of sktime 0.6.0, over `Rat`.  Import-free apart from Sort.

Conventions
* a 2-D array is a list of COLUMNS (`Mat`), every column has the same length `n` (rows = horizon steps);
  `_check_reg_targets` reshapes 1-D input to one column, so the model only knows matrices.
* `eps` is the parameter standing for `EPS = np.finfo(np.float64).eps` (theorems: `0 < eps`; driver: 2^-52).
* results that involve an irrational function are returned as radicand + root degree (`Out`, below):
  `np.sqrt` doubles the degree, a geometric mean over m factors returns the product and degree m.
* the model returns `Except Err _` exactly where the code raises (`nan` = the code returns NaN).
-/
import SkVerif.Model.Sort
namespace SkVerif.Metrics
open SkVerif

inductive Err | value | type | key | zerodiv | attr | nan | unsupported
  deriving DecidableEq, Repr

abbrev Col := List Rat
abbrev Mat := List Col

/-! ### scalar helpers (`np.abs`, `np.maximum`, `np.minimum`, `np.square`) -/
def absR (x : Rat) : Rat := if x < 0 then -x else x
def maxR (a b : Rat) : Rat := if a < b then b else a
def minR (a b : Rat) : Rat := if b < a then b else a
def sqr (x : Rat) : Rat := x * x

/-! ### the three private element-wise functions -/

/-- `_percentage_error` -/
def pctErr (eps : Rat) (sym : Bool) (t p : Rat) : Rat :=
  if sym then 2 * absR (t - p) / maxR (absR t + absR p) eps
  else (t - p) / maxR (absR t) eps

/-- `_relative_error`: the denominator keeps its sign and is pushed away from 0 by `eps` -/
def relDen (eps : Rat) (t b : Rat) : Rat :=
  if 0 ≤ t - b then maxR (t - b) eps else minR (t - b) (-eps)
def relErr (eps : Rat) (t p b : Rat) : Rat := (t - p) / relDen eps t b

inductive EF | squared | absolute
  deriving DecidableEq, Repr
def EF.app : EF → Rat → Rat
  | .squared, x => sqr x
  | .absolute, x => absR x

/-- `_asymmetric_error` (after the dictionary lookup of the two function names succeeded) -/
def asymErr (thr : Rat) (l r : EF) (t p : Rat) : Rat :=
  if t - p < thr then l.app (t - p) else r.app (t - p)

/-! ### reductions over the horizon axis (one column) -/
def mean (xs : List Rat) : Rat := xs.sum / (xs.length : Rat)
/-- `np.average(xs, weights=ws)` (sum of weights ≠ 0 is checked by the caller, as numpy does first) -/
def wavg (ws xs : List Rat) : Rat := (List.zipWith (· * ·) ws xs).sum / ws.sum
def npAverage (hw : Option (List Rat)) (xs : List Rat) : Rat :=
  match hw with
  | none => mean xs
  | some w => wavg w xs

/-- `np.median` -/
def median (xs : List Rat) : Rat :=
  let s := sortRats xs
  let n := s.length
  if n % 2 = 1 then s.getD (n / 2) 0 else (s.getD (n / 2 - 1) 0 + s.getD (n / 2) 0) / 2

/-- walk of `np.searchsorted(cumsum(sorted_weights), target)` over the value-sorted (value, weight) pairs;
`strict` is the `target == 0 → nextafter(0, 1)` special case; running off the end is the `clip` to the last index -/
def wpctGo (target : Rat) (strict : Bool) : List (Rat × Rat) → Rat → Rat → Rat
  | [], _, last => last
  | (x, w) :: rest, cum, _ =>
    let c := cum + w
    if (if strict then target < c else target ≤ c) then x else wpctGo target strict rest c x

/-- sklearn `_weighted_percentile(xs, sample_weight=ws)` at the default percentile 50, for weights ≥ 0 -/
def wpct (ws xs : List Rat) : Rat :=
  let ps := isortBy (fun (a b : Rat × Rat) => decide (a.1 ≤ b.1)) (xs.zip ws)
  let target := ws.sum / 2
  wpctGo target (target == 0) ps 0 0

def medianW (hw : Option (List Rat)) (xs : List Rat) : Rat :=
  match hw with
  | none => median xs
  | some w => wpct w xs

def prod (xs : List Rat) : Rat := xs.foldr (· * ·) 1

/-- integer exponents proportional to rational weights ≥ 0: `w_i = a_i / D`, D = lcm of the denominators -/
def commonDen (ws : List Rat) : Nat := ws.foldr (fun w d => Nat.lcm w.den d) 1
def exps (ws : List Rat) : List Nat := ws.map (fun w => (w * (commonDen ws : Rat)).num.toNat)

/-! ### validation -/
inductive MO | raw | uniform | weights (w : List Rat) | bad
  deriving DecidableEq, Repr

def nrows : Mat → Nat
  | [] => 0
  | c :: _ => c.length

def guard' (b : Bool) (e : Err) : Except Err Unit := if b then .ok () else .error e

/-- `_check_reg_targets(y_true, y_pred, multioutput)` (every failure is a ValueError) -/
def checkRegTargets (yt yp : Mat) (mo : MO) : Except Err Unit := do
  guard' (nrows yt == nrows yp) .value
  guard' (nrows yt != 0) .value
  guard' (yt.length == yp.length) .value
  match mo with
  | .bad => .error .value
  | .weights w => guard' (yt.length != 1 && w.length == yt.length) .value
  | _ => .ok ()

/-- `check_consistent_length(y_true, horizon_weight)` -/
def checkHw (n : Nat) (hw : Option (List Rat)) : Except Err Unit :=
  match hw with
  | none => .ok ()
  | some w => guard' (w.length == n) .value

/-- `np.average` raises ZeroDivisionError when the weights sum to zero -/
def checkSum (hw : Option (List Rat)) : Except Err Unit :=
  match hw with
  | none => .ok ()
  | some w => guard' (w.sum != 0) .zerodiv

/-! ### result type and the shared tail of every function -/

/-- `raw k qs`: one value per output column, the j-th is `qs[j]^(1/k)`;
    `avg k ws qs`: `Σ ws[j]·qs[j]^(1/k) / Σ ws[j]` (`none` = uniform).  `k = 1` means no root. -/
inductive Out
  | raw (k : Nat) (qs : List Rat)
  | avg (k : Nat) (ws : Option (List Rat)) (qs : List Rat)
  deriving DecidableEq, Repr

def Out.qs : Out → List Rat
  | .raw _ q => q
  | .avg _ _ q => q
def Out.deg : Out → Nat
  | .raw k _ => k
  | .avg k _ _ => k

/-- the copy-pasted tail `if multioutput == "raw_values": return …; return np.average(…, weights=multioutput)` -/
def finish (k : Nat) (mo : MO) (qs : List Rat) : Except Err Out :=
  match mo with
  | .raw => .ok (.raw k qs)
  | .uniform => .ok (.avg k none qs)
  | .weights w => if w.sum = 0 then .error .zerodiv else .ok (.avg k (some w) qs)
  | .bad => .error .value

/-- exact value of a root-free result: list per column or the weighted average -/
def Out.perCol : Out → List Rat
  | .raw _ q => q
  | .avg _ ws q => [npAverage ws q]

def rootDeg (sqrt : Bool) (k : Nat) : Nat := if sqrt then 2 * k else k

/-! ### the 13 functions that do not call another metric -/

def absErrs (t p : Col) : Col := List.zipWith (fun a b => absR (b - a)) t p     -- np.abs(y_pred - y_true)
def sqErrs (t p : Col) : Col := List.zipWith (fun a b => sqr (a - b)) t p        -- (y_true - y_pred) ** 2
def sqErrs' (t p : Col) : Col := List.zipWith (fun a b => sqr (b - a)) t p       -- np.square(y_pred - y_true)

/-- `mean_absolute_error` → sklearn's -/
def meanAbsoluteError (yt yp : Mat) (hw : Option (List Rat)) (mo : MO) : Except Err Out := do
  checkRegTargets yt yp mo
  checkHw (nrows yt) hw
  checkSum hw
  finish 1 mo (List.zipWith (fun t p => npAverage hw (absErrs t p)) yt yp)

/-- `mean_squared_error` → sklearn's; `squared=False` takes the root per column (sklearn 0.24) -/
def meanSquaredError (yt yp : Mat) (hw : Option (List Rat)) (mo : MO) (sqrt : Bool) : Except Err Out := do
  checkRegTargets yt yp mo
  checkHw (nrows yt) hw
  checkSum hw
  finish (rootDeg sqrt 1) mo (List.zipWith (fun t p => npAverage hw (sqErrs t p)) yt yp)

/-- `median_absolute_error` → sklearn's -/
def medianAbsoluteError (yt yp : Mat) (hw : Option (List Rat)) (mo : MO) : Except Err Out := do
  checkRegTargets yt yp mo
  checkHw (nrows yt) hw
  finish 1 mo (List.zipWith (fun t p => medianW hw (absErrs t p)) yt yp)

def medianSquaredError (yt yp : Mat) (hw : Option (List Rat)) (mo : MO) (sqrt : Bool) : Except Err Out := do
  checkRegTargets yt yp mo
  checkHw (nrows yt) hw
  finish (rootDeg sqrt 1) mo (List.zipWith (fun t p => medianW hw (sqErrs' t p)) yt yp)

def pctCol (eps : Rat) (sym : Bool) (t p : Col) : Col := List.zipWith (pctErr eps sym) t p

def meanAbsolutePercentageError (eps : Rat) (yt yp : Mat) (hw : Option (List Rat)) (mo : MO) (sym : Bool) :
    Except Err Out := do
  checkRegTargets yt yp mo
  checkHw (nrows yt) hw
  checkSum hw
  finish 1 mo (List.zipWith (fun t p => npAverage hw ((pctCol eps sym t p).map absR)) yt yp)

/-- `median_absolute_percentage_error` (both branches pass (y_true, y_pred) since fix b4ed244) -/
def medianAbsolutePercentageError (eps : Rat) (yt yp : Mat) (hw : Option (List Rat)) (mo : MO) (sym : Bool) :
    Except Err Out := do
  checkRegTargets yt yp mo
  checkHw (nrows yt) hw
  finish 1 mo (List.zipWith (fun t p => medianW hw ((pctCol eps sym t p).map absR)) yt yp)

def meanSquaredPercentageError (eps : Rat) (yt yp : Mat) (hw : Option (List Rat)) (mo : MO) (sqrt sym : Bool) :
    Except Err Out := do
  checkRegTargets yt yp mo
  checkHw (nrows yt) hw
  checkSum hw
  finish (rootDeg sqrt 1) mo (List.zipWith (fun t p => npAverage hw ((pctCol eps sym t p).map sqr)) yt yp)

def medianSquaredPercentageError (eps : Rat) (yt yp : Mat) (hw : Option (List Rat)) (mo : MO) (sqrt sym : Bool) :
    Except Err Out := do
  checkRegTargets yt yp mo
  checkHw (nrows yt) hw
  finish (rootDeg sqrt 1) mo (List.zipWith (fun t p => medianW hw ((pctCol eps sym t p).map sqr)) yt yp)

/-- three parallel columns → relative errors -/
def relCol (eps : Rat) : Col → Col → Col → Col
  | t :: ts, p :: ps, b :: bs => relErr eps t p b :: relCol eps ts ps bs
  | _, _, _ => []

/-- per output column: `f (relative errors of that column)` -/
def relCols (eps : Rat) (f : Col → Rat) : Mat → Mat → Mat → List Rat
  | t :: ts, p :: ps, b :: bs => f (relCol eps t p b) :: relCols eps f ts ps bs
  | _, _, _ => []

def meanRelativeAbsoluteError (eps : Rat) (yt yp yb : Mat) (hw : Option (List Rat)) (mo : MO) : Except Err Out := do
  checkRegTargets yt yp mo
  checkRegTargets yt yb mo
  checkHw (nrows yt) hw
  checkSum hw
  finish 1 mo (relCols eps (fun re => npAverage hw (re.map absR)) yt yp yb)

def medianRelativeAbsoluteError (eps : Rat) (yt yp yb : Mat) (hw : Option (List Rat)) (mo : MO) : Except Err Out := do
  checkRegTargets yt yp mo
  checkRegTargets yt yb mo
  checkHw (nrows yt) hw
  finish 1 mo (relCols eps (fun re => medianW hw (re.map absR)) yt yp yb)

/-- `np.where(x == 0.0, EPS, x)` -/
def floorEps (eps : Rat) (x : Rat) : Rat := if x = 0 then eps else x

/-- Geometric mean over the horizon of positive values, as radicand + root degree.
Unweighted: `scipy.stats.gmean(axis=0)` = product, degree n.
Weighted (`_weighted_geometric_mean` = `exp(np.average(log x, weights=w, axis=0))` since fix 11fa5f6):
`Π x_i^(w_i/Σw)` = (Π x_i^(a_i))^(1/Σa) with the integer exponents `a = exps w` proportional to the weights. -/
def gmFactor (hw : Option (List Rat)) (xs : List Rat) : Rat :=
  match hw with
  | none => prod xs
  | some w => prod (List.zipWith (fun x a => x ^ a) xs (exps w))
def gmDeg (n : Nat) (hw : Option (List Rat)) : Nat :=
  match hw with
  | none => n
  | some w => (exps w).sum

/-- negative horizon weights are outside the modelled domain of the geometric means (integer exponents ≥ 0) -/
def checkNonneg (hw : Option (List Rat)) : Except Err Unit :=
  match hw with
  | none => .ok ()
  | some w => guard' (!(w.any (· < 0))) .unsupported

def geometricMeanRelativeAbsoluteError (eps : Rat) (yt yp yb : Mat) (hw : Option (List Rat)) (mo : MO) :
    Except Err Out := do
  checkRegTargets yt yp mo
  checkRegTargets yt yb mo
  checkHw (nrows yt) hw
  checkNonneg hw
  checkSum hw
  finish (gmDeg (nrows yt) hw) mo
    (relCols eps (fun re => gmFactor hw (re.map (fun e => floorEps eps (absR e)))) yt yp yb)

def geometricMeanRelativeSquaredError (eps : Rat) (yt yp yb : Mat) (hw : Option (List Rat)) (mo : MO) (sqrt : Bool) :
    Except Err Out := do
  checkRegTargets yt yp mo
  checkRegTargets yt yb mo
  checkHw (nrows yt) hw
  checkNonneg hw
  checkSum hw
  finish (rootDeg sqrt (gmDeg (nrows yt) hw)) mo
    (relCols eps (fun re => gmFactor hw (re.map (fun e => floorEps eps (sqr e)))) yt yp yb)

/-- `left_error_function` / `right_error_function` names; anything else is a KeyError in the dict lookup -/
def asymCol (thr : Rat) (l r : EF) (t p : Col) : Col := List.zipWith (asymErr thr l r) t p

def meanAsymmetricError (yt yp : Mat) (hw : Option (List Rat)) (mo : MO) (thr : Rat) (l r : Option EF) :
    Except Err Out := do
  checkRegTargets yt yp mo
  checkHw (nrows yt) hw
  match l, r with
  | some l, some r =>
    checkSum hw
    finish 1 mo (List.zipWith (fun t p => npAverage hw (asymCol thr l r t p)) yt yp)
  | _, _ => .error .key

/-! ### functions that call other metrics: scaled errors and `relative_loss` -/

/-- Python slicing on the row axis: `a[:-sp]` and `a[sp:]` for any integer `sp` -/
def pyIdx (n : Nat) (i : Int) : Nat := if i < 0 then (i + n).toNat else min i.toNat n
def sliceTo (c : Col) (stop : Int) : Col := c.take (pyIdx c.length stop)     -- c[:stop]
def sliceFrom (c : Col) (start : Int) : Col := c.drop (pyIdx c.length start) -- c[start:]
/-- `y_train[:-sp]` : note `-0 = 0`, so `sp = 0` gives the empty slice -/
def naivePred (sp : Int) (c : Col) : Col := sliceTo c (-sp)
def naiveTrue (sp : Int) (c : Col) : Col := sliceFrom c sp

/-- `loss_pred / np.maximum(loss_naive, EPS)`, element-wise for `raw_values`, on the averages otherwise;
both inner results are root-free -/
def ratioVals (eps : Rat) (num den : Out) : List Rat :=
  List.zipWith (fun a b => a / maxR b eps) num.perCol den.perCol
def ratioOut (eps : Rat) (k : Nat) (num den : Out) : Out :=
  match num with
  | .raw _ _ => .raw k (ratioVals eps num den)
  | .avg _ _ _ => .avg k none (ratioVals eps num den)

inductive Train
  | arr (m : Mat)      -- np.ndarray / pandas object
  | list (m : Mat)     -- anything that is not a Series / DataFrame / ndarray: TypeError in check_series
  deriving Repr

/-- the common prologue of the four scaled errors; `ix = some (trainMax, trueMin)` when both are pandas objects -/
def scaledPrologue (yt yp : Mat) (ytr : Train) (ix : Option (Int × Int)) (hw : Option (List Rat)) (mo : MO) :
    Except Err Mat := do
  match ix with
  | some (trainMax, trueMin) => guard' (decide (trainMax < trueMin)) .value
  | none => pure ()
  checkRegTargets yt yp mo
  checkHw (nrows yt) hw
  match ytr with
  | .list _ => .error .type
  | .arr m =>
    guard' (yt.length == m.length) .value
    pure m

def scaled (eps : Rat) (inner : Mat → Mat → Option (List Rat) → MO → Except Err Out) (sqrt : Bool)
    (yt yp : Mat) (ytr : Train) (ix : Option (Int × Int)) (sp : Int) (hw : Option (List Rat)) (mo : MO) :
    Except Err Out := do
  let m ← scaledPrologue yt yp ytr ix hw mo
  let naive ← inner (m.map (naiveTrue sp)) (m.map (naivePred sp)) none mo
  let pred ← inner yt yp hw mo
  pure (ratioOut eps (rootDeg sqrt 1) pred naive)

def meanAbsoluteScaledError (eps : Rat) (yt yp : Mat) (ytr : Train) (ix : Option (Int × Int)) (sp : Int)
    (hw : Option (List Rat)) (mo : MO) : Except Err Out :=
  scaled eps meanAbsoluteError false yt yp ytr ix sp hw mo
def medianAbsoluteScaledError (eps : Rat) (yt yp : Mat) (ytr : Train) (ix : Option (Int × Int)) (sp : Int)
    (hw : Option (List Rat)) (mo : MO) : Except Err Out :=
  scaled eps medianAbsoluteError false yt yp ytr ix sp hw mo
def meanSquaredScaledError (eps : Rat) (yt yp : Mat) (ytr : Train) (ix : Option (Int × Int)) (sp : Int)
    (hw : Option (List Rat)) (mo : MO) (sqrt : Bool) : Except Err Out :=
  scaled eps (fun a b h m => meanSquaredError a b h m false) sqrt yt yp ytr ix sp hw mo
def medianSquaredScaledError (eps : Rat) (yt yp : Mat) (ytr : Train) (ix : Option (Int × Int)) (sp : Int)
    (hw : Option (List Rat)) (mo : MO) (sqrt : Bool) : Except Err Out :=
  scaled eps (fun a b h m => medianSquaredError a b h m false) sqrt yt yp ytr ix sp hw mo

/-- the two-argument metrics that can be passed as `relative_loss_function` (called with default options) -/
inductive Base | mae | mse | mdae | mdse | mape | mdape | mspe | mdspe
  deriving DecidableEq, Repr

def Base.call (eps : Rat) : Base → Mat → Mat → Option (List Rat) → MO → Except Err Out
  | .mae, a, b, h, m => meanAbsoluteError a b h m
  | .mse, a, b, h, m => meanSquaredError a b h m false
  | .mdae, a, b, h, m => medianAbsoluteError a b h m
  | .mdse, a, b, h, m => medianSquaredError a b h m false
  | .mape, a, b, h, m => meanAbsolutePercentageError eps a b h m true
  | .mdape, a, b, h, m => medianAbsolutePercentageError eps a b h m true
  | .mspe, a, b, h, m => meanSquaredPercentageError eps a b h m false true
  | .mdspe, a, b, h, m => medianSquaredPercentageError eps a b h m false true

def relativeLoss (eps : Rat) (yt yp yb : Mat) (f : Base) (hw : Option (List Rat)) (mo : MO) : Except Err Out := do
  checkRegTargets yt yp mo
  checkHw (nrows yt) hw
  let lp ← f.call eps yt yp hw mo
  let lb ← f.call eps yt yb hw mo
  pure (ratioOut eps 1 lp lb)

/-! ### calling a metric by name: `metric(y_true, y_pred, [y_train | y_pred_benchmark], **options)` -/
inductive Metric
  | mase | mdase | msse | mdsse | mae | mse | mdae | mdse | mape | mdape | mspe | mdspe
  | mrae | mdrae | gmrae | gmrse | masym | relloss
  deriving DecidableEq, Repr

/-- every argument any of the 18 functions takes; `yb` / `ytr` = `none` means "not passed" -/
structure Args where
  yt : Mat
  yp : Mat
  yb : Option Mat := none
  ytr : Option Train := none
  sp : Int := 1
  ix : Option (Int × Int) := none
  hw : Option (List Rat) := none
  mo : MO := .uniform
  sym : Bool := true
  sqrt : Bool := false
  thr : Rat := 0
  l : Option EF := some .squared
  r : Option EF := some .absolute
  rlf : Base := .mae

/-- a required positional argument that is not passed is a TypeError (Python's argument binding) -/
def needArg {α} (o : Option α) (f : α → Except Err Out) : Except Err Out :=
  match o with
  | none => .error .type
  | some x => f x

def call (eps : Rat) (m : Metric) (a : Args) : Except Err Out :=
  match m with
  | .mae => meanAbsoluteError a.yt a.yp a.hw a.mo
  | .mse => meanSquaredError a.yt a.yp a.hw a.mo a.sqrt
  | .mdae => medianAbsoluteError a.yt a.yp a.hw a.mo
  | .mdse => medianSquaredError a.yt a.yp a.hw a.mo a.sqrt
  | .mape => meanAbsolutePercentageError eps a.yt a.yp a.hw a.mo a.sym
  | .mdape => medianAbsolutePercentageError eps a.yt a.yp a.hw a.mo a.sym
  | .mspe => meanSquaredPercentageError eps a.yt a.yp a.hw a.mo a.sqrt a.sym
  | .mdspe => medianSquaredPercentageError eps a.yt a.yp a.hw a.mo a.sqrt a.sym
  | .masym => meanAsymmetricError a.yt a.yp a.hw a.mo a.thr a.l a.r
  | .mrae => needArg a.yb (fun b => meanRelativeAbsoluteError eps a.yt a.yp b a.hw a.mo)
  | .mdrae => needArg a.yb (fun b => medianRelativeAbsoluteError eps a.yt a.yp b a.hw a.mo)
  | .gmrae => needArg a.yb (fun b => geometricMeanRelativeAbsoluteError eps a.yt a.yp b a.hw a.mo)
  | .gmrse => needArg a.yb (fun b => geometricMeanRelativeSquaredError eps a.yt a.yp b a.hw a.mo a.sqrt)
  | .relloss => needArg a.yb (fun b => relativeLoss eps a.yt a.yp b a.rlf a.hw a.mo)
  | .mase => needArg a.ytr (fun t => meanAbsoluteScaledError eps a.yt a.yp t a.ix a.sp a.hw a.mo)
  | .mdase => needArg a.ytr (fun t => medianAbsoluteScaledError eps a.yt a.yp t a.ix a.sp a.hw a.mo)
  | .msse => needArg a.ytr (fun t => meanSquaredScaledError eps a.yt a.yp t a.ix a.sp a.hw a.mo a.sqrt)
  | .mdsse => needArg a.ytr (fun t => medianSquaredScaledError eps a.yt a.yp t a.ix a.sp a.hw a.mo a.sqrt)

/-! ### class wrappers (`_classes.py`, after fix acfe904): `Cls(**options)(y_true, y_pred, **kwargs)` -/

/-- the options a metric class stores (constructor arguments) -/
structure ClsOpts where
  sym : Bool := true
  sqrt : Bool := false
  sp : Int := 1
  thr : Rat := 0
  l : Option EF := some .squared
  r : Option EF := some .absolute
  rlf : Base := .mae

/-- keyword arguments handed through `__call__(self, y_true, y_pred, **kwargs)` -/
structure Kw where
  yb : Option Mat := none          -- y_pred_benchmark=
  ytr : Option Train := none       -- y_train=
  ix : Option (Int × Int) := none  -- (index labels of pandas y_train / y_true)
  hw : Option (List Rat) := none   -- horizon_weight=
  mo : MO := .uniform              -- multioutput=

/-- which `__call__` a class inherits -/
inductive Wrapper | plain | pct | sq | sqpct | scaled | scaledSq | asym | relloss
def Metric.wrapper : Metric → Wrapper
  | .mae | .mdae | .mrae | .mdrae | .gmrae => .plain
  | .mape | .mdape => .pct
  | .mse | .mdse | .gmrse => .sq
  | .mspe | .mdspe => .sqpct
  | .mase | .mdase => .scaled
  | .msse | .mdsse => .scaledSq
  | .masym => .asym
  | .relloss => .relloss

/-- `self._func(y_true, y_pred, <the keywords of the mixin>, **kwargs)`: every other option keeps the function's
default.  (A keyword given twice would be a TypeError; the harness never does that.) -/
def classCall (eps : Rat) (c : Metric) (o : ClsOpts) (yt yp : Mat) (kw : Kw) : Except Err Out :=
  let base : Args := { yt := yt, yp := yp, yb := kw.yb, ytr := kw.ytr, ix := kw.ix, hw := kw.hw, mo := kw.mo }
  match c.wrapper with
  | .plain => call eps c base
  | .pct => call eps c { base with sym := o.sym }
  | .sq => call eps c { base with sqrt := o.sqrt }
  | .sqpct => call eps c { base with sym := o.sym, sqrt := o.sqrt }
  | .scaled => call eps c { base with sp := o.sp }
  | .scaledSq => call eps c { base with sp := o.sp, sqrt := o.sqrt }
  | .asym => call eps c { base with thr := o.thr, l := o.l, r := o.r }
  | .relloss => call eps c { base with rlf := o.rlf }

/-! ### a metric object over time
Metric classes are sklearn `BaseEstimator`s: the constructor stores the options as public attributes, `set_params` /
attribute assignment overwrite them, `clone` builds a new object from `get_params()`, and `__call__` reads the
attributes when it is called.  Nothing else is stored: a call leaves the object unchanged. -/
structure Obj where
  c : Metric
  opts : ClsOpts

inductive ObjOp
  | setParams (o : ClsOpts)     -- obj.set_params(**o)
  | setAttr (o : ClsOpts)       -- obj.<option> = value, for every option
  | clone                       -- obj = sklearn.base.clone(obj)
  | call (yt yp : Mat) (kw : Kw)

/-- one step: the object afterwards and, for a call, what it returned -/
def Obj.step (eps : Rat) (ob : Obj) : ObjOp → Obj × Option (Except Err Out)
  | .setParams o => ({ ob with opts := o }, none)
  | .setAttr o => ({ ob with opts := o }, none)
  | .clone => ({ c := ob.c, opts := ob.opts }, none)
  | .call yt yp kw => (ob, some (classCall eps ob.c ob.opts yt yp kw))

/-- run a history; the results of the calls, in order -/
def Obj.run (eps : Rat) : Obj → List ObjOp → List (Except Err Out)
  | _, [] => []
  | ob, op :: rest =>
    match ob.step eps op with
    | (ob', none) => Obj.run eps ob' rest
    | (ob', some r) => r :: Obj.run eps ob' rest

/-- the options an object holds after a history -/
def Obj.optsAfter (o : ClsOpts) : List ObjOp → ClsOpts
  | [] => o
  | .setParams o' :: rest => Obj.optsAfter o' rest
  | .setAttr o' :: rest => Obj.optsAfter o' rest
  | _ :: rest => Obj.optsAfter o rest

end SkVerif.Metrics
