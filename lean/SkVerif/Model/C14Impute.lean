/-
C14: Imputer (sktime/transformations/series/impute.py): `transform`, `_check_method`.
A series is `List (Option Rat)` (`none` = NaN) on a contiguous integer index.  The pandas
primitives are modelled by their documented positional meaning:
  fillna(method="ffill"/"bfill"), fillna(value), mean()/median() (skip NaN),
  interpolate(method="linear")  (np.interp over positions; leading NaN kept, trailing NaN get the last value),
  interpolate(method="nearest") (scipy interp1d kind="nearest": ties go to the earlier point; no extrapolation).
Import-free.
-/
import SkVerif.Model.C14Panel
import SkVerif.Model.Sort
namespace SkVerif.C14

abbrev OSeries := List (Option Rat)

/-- `fillna(method="ffill")`, carrying the last valid value -/
def ffillFrom (last : Option Rat) : OSeries → OSeries
  | [] => []
  | none :: l => last :: ffillFrom last l
  | some v :: l => some v :: ffillFrom (some v) l

def ffill (z : OSeries) : OSeries := ffillFrom none z

/-- `fillna(method="bfill")`: a missing value takes the (filled) value after it -/
def bfill : OSeries → OSeries
  | [] => []
  | some v :: l => some v :: bfill l
  | none :: l => (bfill l).head?.join :: bfill l

def validValues (z : OSeries) : List Rat := z.filterMap id

/-- `Series.mean()` (NaN skipped; NaN if nothing is valid) -/
def meanValid (z : OSeries) : Option Rat :=
  let v := validValues z
  if v.isEmpty then none else some (v.sum / (v.length : Rat))

/-- `Series.median()` -/
def medianValid (z : OSeries) : Option Rat :=
  let v := sortRats (validValues z)
  let n := v.length
  if n = 0 then none
  else if n % 2 = 1 then some (v.getD (n / 2) 0)
  else some ((v.getD (n / 2 - 1) 0 + v.getD (n / 2) 0) / 2)

/-- `fillna(value=v)`; `fillna(value=NaN)` changes nothing -/
def fillValue (v : Option Rat) (z : OSeries) : OSeries :=
  z.map (fun x => match x with | some a => some a | none => v)

/-- forward scan for the first valid observation; `off` = position of the head -/
def scanNext : OSeries → Nat → Option (Nat × Rat)
  | [], _ => none
  | some v :: _, off => some (off, v)
  | none :: l, off => scanNext l (off + 1)

/-- forward scan remembering the latest valid observation seen -/
def scanLast : OSeries → Nat → Option (Nat × Rat) → Option (Nat × Rat)
  | [], _, best => best
  | some v :: l, off, _ => scanLast l (off + 1) (some (off, v))
  | none :: l, off, best => scanLast l (off + 1) best

/-- closest valid observation strictly before position `i`: `(position, value)` -/
def prevValid (z : OSeries) (i : Nat) : Option (Nat × Rat) := scanLast (z.take i) 0 none

/-- closest valid observation strictly after position `i` -/
def nextValid (z : OSeries) (i : Nat) : Option (Nat × Rat) := scanNext (z.drop (i + 1)) (i + 1)

/-- value `interpolate(method="linear")` puts at position `i` holding `x` -/
def linearAt (z : OSeries) (i : Nat) (x : Option Rat) : Option Rat :=
  match x with
  | some v => some v
  | none =>
    match prevValid z i, nextValid z i with
    | some (j, a), some (k, b) => some (a + (b - a) * (((i : Rat) - (j : Rat)) / ((k : Rat) - (j : Rat))))
    | some (_, a), none => some a
    | none, _ => none

/-- `interpolate(method="linear")` -/
def interpLinear (z : OSeries) : OSeries := z.zipIdx.map (fun p => linearAt z p.2 p.1)

/-- value `interpolate(method="nearest")` puts at position `i` holding `x` -/
def nearestAt (z : OSeries) (i : Nat) (x : Option Rat) : Option Rat :=
  match x with
  | some v => some v
  | none =>
    match prevValid z i, nextValid z i with
    | some (j, a), some (k, b) => if i - j ≤ k - i then some a else some b
    | _, _ => none

/-- `interpolate(method="nearest")` -/
def interpNearest (z : OSeries) : OSeries := z.zipIdx.map (fun p => nearestAt z p.2 p.1)

inductive Method | ffill | bfill | constant | mean | median | linear | nearest | drift | unknown
  deriving DecidableEq, Repr

/-- `_check_method` -/
def checkMethod (m : Method) (value : Option Rat) : Except Err Unit :=
  if (value.isSome ∧ m ≠ .constant) ∨ (m = .constant ∧ value.isNone) then .error .value else .ok ()

/-- `Z.replace(to_replace=missing_values, value=np.nan)` guarded by `if self.missing_values is not None:` -/
def replaceMissing (mv : Option Rat) (z : OSeries) : OSeries :=
  match mv with
  | none => z
  | some m => z.map (fun x => if x = some m then none else x)

/-- in-sample prediction at time `i` of `PolynomialTrendForecaster(degree=1)` fitted on `ys` observed at
times `0 … n-1`: ordinary least squares as sklearn's `LinearRegression` computes it (centre both
variables, slope from the centred data, `intercept = mean(y) − slope · mean(t)`) -/
def trendAt (ys : List Rat) (i : Nat) : Rat :=
  let n : Rat := ys.length
  let ts : List Rat := (List.range ys.length).map (fun (t : Nat) => (t : Rat))
  let mt := ts.sum / n
  let my := ys.sum / n
  let tc := ts.map (· - mt)
  let yc := ys.map (· - my)
  let sxx := (tc.map (fun t => t * t)).sum
  let coef := if sxx = 0 then 0 else (List.zipWith (· * ·) tc yc).sum / sxx
  let intercept := my - coef * mt
  intercept + coef * (i : Rat)

/-- `Z.fillna(value=Z_pred)` at position `i` holding `x` -/
def driftAt (filled : List Rat) (i : Nat) (x : Option Rat) : Option Rat :=
  match x with
  | some v => some v
  | none => some (trendAt filled i)

/-- the method's own fill (before the final ffill/backfill that every method gets) -/
def stage1 (m : Method) (value : Option Rat) (z : OSeries) : OSeries :=
  match m with
  | .constant => fillValue value z
  | .ffill => ffill z
  | .bfill => bfill z
  | .drift =>
      -- `Z_filled = Z.ffill().bfill()`; degree-1 trend fitted on `Z_filled`; `Z.fillna(value=Z_pred)`
      let filled := validValues (bfill (ffill z))
      z.zipIdx.map (fun p => driftAt filled p.2 p.1)
  | .mean => fillValue (meanValid z) z
  | .median => fillValue (medianValid z) z
  | .linear => interpLinear z
  | .nearest => interpNearest z
  | .unknown => z

/-- where the method dispatch raises: unknown method; `forecaster.fit` on an all-NaN series
("Input y contains NaN") -/
def stage1Err (m : Method) (z : OSeries) : Option Err :=
  match m with
  | .unknown => some .value
  | .drift => if (bfill (ffill z)).any Option.isNone then some .value else none
  | _ => none

/-- `Imputer(method, value=…, missing_values=…).fit_transform(Z)` for a univariate series -/
def impute (m : Method) (value mv : Option Rat) (z : OSeries) : Except Err OSeries := do
  checkMethod m value
  if z.isEmpty then .error .value                       -- check_series: empty index
  let z := replaceMissing mv z
  match stage1Err m z with
  | some e => .error e
  | none => pure (bfill (ffill (stage1 m value z)))

end SkVerif.C14
