/-
C12: a model of `joblib.Parallel(n_jobs=k)(delayed(f)(t) for t in tasks)` as sktime uses it
(`forecasting/base/_meta.py::_fit_forecasters`, `series_as_features/.../_tsf.py::fit`,
`classification/interval_based/_tsf.py::predict_proba`, …):

* the tasks are SUBMITTED in list order and numbered 0 … n-1,
* a scheduler COMPLETES them in an arbitrary order (any list of task numbers; a legal schedule
  is a permutation of 0 … n-1),
* on completion of task `i` its result is written into slot `i`,
* the caller receives the slots in slot order once every slot is filled.

`collectInCompletionOrder` is the tempting alternative (append each result when it arrives); it
is the behaviour of the aimed mutation "collect parallel results in completion order".
Import-free.
-/
namespace SkVerif.Par

/-- completion of task `i`: result `i` goes into slot `i` (a task number outside the submitted
range is ignored) -/
def complete {α β : Type} (f : α → β) (tasks : List α) (slots : List (Option β)) (i : Nat) :
    List (Option β) :=
  match tasks[i]? with
  | some t => slots.set i (some (f t))
  | none => slots

/-- the slots after the scheduler completed the tasks in the order `order` -/
def runSchedule {α β : Type} (f : α → β) (tasks : List α) (order : List Nat) : List (Option β) :=
  order.foldl (complete f tasks) (List.replicate tasks.length none)

/-- what the caller gets: all slots, in slot order, provided every slot was filled -/
def collect {β : Type} : List (Option β) → Option (List β)
  | [] => some []
  | none :: _ => none
  | some v :: t => (collect t).map (v :: ·)

/-- `Parallel(...)(delayed(f)(t) for t in tasks)` under the completion order `order` -/
def parallelMap {α β : Type} (f : α → β) (tasks : List α) (order : List Nat) : Option (List β) :=
  collect (runSchedule f tasks order)

/-- the mutation: results appended as they arrive -/
def collectInCompletionOrder {α β : Type} (f : α → β) (tasks : List α) (order : List Nat) : List β :=
  order.filterMap (fun i => (tasks[i]?).map f)

end SkVerif.Par
