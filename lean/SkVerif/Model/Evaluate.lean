/-
Model of sktime/forecasting/model_evaluation/_functions.py (`evaluate`, `_split`,
`_check_strategy`) together with the checks it calls (`check_cv`, `check_scoring`, `check_y_X`
from sktime/utils/validation/forecasting.py).  Import-free (uses the C01 splitter model).

The forecaster is a black box for `evaluate`: a record of functions (`Machine`) over an abstract
state, each of which may raise.  The metric is an abstract function `truth → forecast → β`.
Observation values (`α`), exogenous rows (`ξ`) and scores (`β`) are type parameters: `evaluate`
never looks inside them.  The model follows the code: the `for i, (train, test) in
enumerate(cv.split(y))` loop is a structural recursion over the fold list carrying the forecaster
state; besides the result it returns the *trace* of calls the forecaster received (also when a
call raises and `evaluate` propagates the exception).
-/
import SkVerif.Model.Split
namespace SkVerif.Evaluate
open SkVerif SkVerif.Split

/-- a pandas Series / DataFrame with an integer index: (label, value-or-row) in positional order -/
abbrev Series (α : Type) := List (Int × α)

def labels {α} (s : Series α) : List Int := s.map Prod.fst

inductive Err | value | type | attr | index | key | notfitted | notimpl | other
  deriving DecidableEq, Repr

def ofSplitErr : Split.Err → Err
  | .value => .value | .type => .type | .index => .index | .key => .key

/-- `s.iloc[p]` for one integer position (negative positions count from the end) -/
def ilocOne {α} (s : Series α) (p : Int) : Except Err (Int × α) :=
  let n : Int := s.length
  let q := if p < 0 then p + n else p
  if q < 0 then .error .index
  else match s[q.toNat]? with
    | some e => .ok e
    | none => .error .index

/-- `s.iloc[positions]` (IndexError for a position outside the series) -/
def iloc {α} (s : Series α) : List Int → Except Err (Series α)
  | [] => .ok []
  | p :: ps =>
    match ilocOne s p with
    | .error e => .error e
    | .ok e =>
      match iloc s ps with
      | .error e' => .error e'
      | .ok r => .ok (e :: r)

/-- the four parts `_split` returns -/
structure Parts (α ξ : Type) where
  yTrain : Series α
  yTest : Series α
  xTrain : Option (Series ξ)
  xTest : Option (Series ξ)

/-- positions of the exogenous rows handed to `predict`:
`np.arange(test[0] - fh.min(), test[-1]) + 1` -/
def xTestPositions (test : List Int) (fhMin : Int) : Except Err (List Int) :=
  match test.head?, test.getLast? with
  | some t0, some tl => .ok ((arange (t0 - fhMin) tl).map (· + 1))
  | _, _ => .error .index

/-- `_split(y, X, train, test, fh)` -/
def splitYX {α ξ} (y : Series α) (X : Option (Series ξ)) (train test : List Int) (fhRaw : List Int) :
    Except Err (Parts α ξ) :=
  match iloc y train with
  | .error e => .error e
  | .ok yTrain =>
  match iloc y test with
  | .error e => .error e
  | .ok yTest =>
  if yTrain.isEmpty then .error .index            -- `y_train.index[-1]`
  else match checkFh fhRaw with                   -- `check_fh(fh)`
  | .error e => .error (ofSplitErr e)
  | .ok fh =>
    match X with
    | none => .ok ⟨yTrain, yTest, none, none⟩
    | some X =>
      match iloc X train with
      | .error e => .error e
      | .ok xTrain =>
      match xTestPositions test (fhMin fh) with
      | .error e => .error e
      | .ok ps =>
      match iloc X ps with
      | .error e => .error e
      | .ok xTest => .ok ⟨yTrain, yTest, some xTrain, some xTest⟩

/-- `ForecastingHorizon(y_test.index, is_relative=False)`: the absolute horizon of a fold -/
def fhOfIndex (ls : List Int) : Except Err (List Int) :=
  match FH.mk (.ints ls) false with
  | .ok fh => .ok fh.vals
  | .error .type => .error .type
  | .error _ => .error .value

/-- the forecaster as `evaluate` sees it: `fit(y, X, fh=fh, **fit_params)`, `update(y, X)`,
`predict(fh, X=X)` and the `cutoff` attribute, over an abstract state; every call may raise -/
structure Machine (σ α ξ : Type) where
  fit : σ → Series α → Option (Series ξ) → List Int → Option Int → Except Err σ
  update : σ → Series α → Option (Series ξ) → Except Err σ
  predict : σ → List Int → Option (Series ξ) → Except Err (σ × Series α)
  cutoff : σ → Int

/-- a call received by the forecaster, with its arguments -/
inductive Call (α ξ : Type)
  | fit (y : Series α) (X : Option (Series ξ)) (fh : List Int) (params : Option Int)
  | update (y : Series α) (X : Option (Series ξ))
  | predict (fh : List Int) (X : Option (Series ξ))
  deriving DecidableEq, Repr

/-- a metric object: `name` attribute (if any) and the function of `(y_true, y_pred)` -/
structure Metric (α β : Type) where
  name : Option String
  fn : Series α → Series α → β

/-- the `scoring` argument -/
inductive Scoring (α β : Type)
  | none                        -- `None`: the default metric
  | notCallable                 -- anything that is not callable
  | some (m : Metric α β)

/-- THE one place that fixes how `evaluate` hands a fold's truth and forecast to the metric
`μ : y_true → y_pred → score`: `score = scoring(y_test, y_pred)` (the order was exchanged before
/repo commit 0f68875, recorded as fixed finding C07 `evaluate:score-args-swapped`). -/
def applyMetric {α β} (μ : Series α → Series α → β) (yTest yPred : Series α) : β :=
  μ yTest yPred

/-- one row of the result table (the timing columns are not modelled) -/
structure Row (α β : Type) where
  score : β
  lenTrain : Nat
  cutoff : Int
  data : Option (Series α × Series α × Series α)     -- y_train, y_test, y_pred when `return_data`
  deriving DecidableEq, Repr

inductive Strategy | refit | update | invalid
  deriving DecidableEq, Repr

/-- fixed arguments of one `evaluate` call, as the loop body sees them -/
structure Ctx (σ α ξ β : Type) where
  m : Machine σ α ξ
  μ : Series α → Series α → β
  strategy : Strategy
  retData : Bool
  fitParams : Option Int
  y : Series α
  X : Option (Series ξ)
  fhRaw : List Int                                 -- `cv.fh`

/-- does fold number `i` call `fit` (otherwise `update`)?  `i == 0 or strategy == "refit"` -/
def callsFit (strategy : Strategy) (i : Nat) : Bool := i == 0 || strategy == .refit

/-- body of the loop for fold number `i` from forecaster state `st`:
the calls made, and either the exception or the new state and the row -/
def foldStep {σ α ξ β} (c : Ctx σ α ξ β) (i : Nat) (st : σ) (f : Fold) :
    List (Call α ξ) × Except Err (σ × Row α β) :=
  match splitYX c.y c.X f.1 f.2 c.fhRaw with
  | .error e => ([], .error e)
  | .ok p =>
  match fhOfIndex (labels p.yTest) with
  | .error e => ([], .error e)
  | .ok fh =>
    let isFit := callsFit c.strategy i
    let c1 : Call α ξ := if isFit then .fit p.yTrain p.xTrain fh c.fitParams else .update p.yTrain p.xTrain
    match (if isFit then c.m.fit st p.yTrain p.xTrain fh c.fitParams else c.m.update st p.yTrain p.xTrain) with
    | .error e => ([c1], .error e)
    | .ok st1 =>
      match c.m.predict st1 fh p.xTest with
      | .error e => ([c1, .predict fh p.xTest], .error e)
      | .ok (st2, yPred) =>
        ([c1, .predict fh p.xTest],
         .ok (st2, { score := applyMetric c.μ p.yTest yPred
                     lenTrain := p.yTrain.length
                     cutoff := c.m.cutoff st2
                     data := if c.retData then some (p.yTrain, p.yTest, yPred) else none }))

/-- the loop `for i, (train, test) in enumerate(cv.split(y))` from fold number `i` on -/
def loop {σ α ξ β} (c : Ctx σ α ξ β) : Nat → σ → List Fold → List (Call α ξ) × Except Err (List (Row α β))
  | _, _, [] => ([], .ok [])
  | i, st, f :: fs =>
    match foldStep c i st f with
    | (tr, .error e) => (tr, .error e)
    | (tr, .ok (st', row)) =>
      let r := loop c (i + 1) st' fs
      (tr ++ r.1, match r.2 with
        | .error e => .error e
        | .ok rows => .ok (row :: rows))

/-- the splitter argument -/
inductive CV
  | sliding (fh : List Int) (wl step : Int) (iw : Option Int) (sww : Bool)
  | expanding (fh : List Int) (wl step : Int) (sww : Bool)
  | single (fh : List Int) (wl : Option Int)
  | cutoff (cutoffs fh : List Int) (wl : Int)
  | notSplitter
  deriving DecidableEq, Repr

def CV.fh : CV → List Int
  | .sliding fh _ _ _ _ => fh
  | .expanding fh _ _ _ => fh
  | .single fh _ => fh
  | .cutoff _ fh _ => fh
  | .notSplitter => []

/-- `cv.split(y)` on a series of length `n` (the C01 model) -/
def CV.split (n : Int) : CV → Except Split.Err (List Fold)
  | .sliding fh wl step iw sww => windowSplit .sliding n fh wl step iw sww
  | .expanding fh wl step sww => windowSplit .expanding n fh wl step none sww
  | .single fh wl => singleSplit n fh wl
  | .cutoff cs fh wl => cutoffSplit n cs fh wl
  | .notSplitter => .error .type

/-- `check_cv(cv, enforce_start_with_window=True)` -/
def checkCv : CV → Except Err Unit
  | .notSplitter => .error .type
  | .sliding _ _ _ _ sww => if sww then .ok () else .error .value
  | .expanding _ _ _ sww => if sww then .ok () else .error .value
  | _ => .ok ()

def isMono : List Int → Bool
  | a :: b :: l => decide (a ≤ b) && isMono (b :: l)
  | _ => true

/-- `check_y_X(y, X)`: sorted non-empty index, equal indices (all failures are ValueError) -/
def checkYX {α ξ} (y : Series α) (X : Option (Series ξ)) : Except Err Unit :=
  if !isMono (labels y) || y.isEmpty then .error .value
  else match X with
    | none => .ok ()
    | some X =>
      if !isMono (labels X) || X.isEmpty then .error .value
      else if labels X ≠ labels y then .error .value
      else .ok ()

/-- `check_scoring(scoring)`: `None` → the default metric; not callable → TypeError -/
def resolveScoring {α β} (dflt : Metric α β) : Scoring α β → Except Err (Metric α β)
  | .none => .ok dflt
  | .notCallable => .error .type
  | .some mt => .ok mt

/-- the returned table: name of the score column and the rows -/
structure Table (α β : Type) where
  scoreName : String
  rows : List (Row α β)

/-- `evaluate(forecaster, cv, y, X, strategy, scoring, fit_params, return_data)`.
`dflt` is the metric used for `scoring=None`; `st0` the state of the forecaster handed in. -/
def evaluate {σ α ξ β} (m : Machine σ α ξ) (dflt : Metric α β) (st0 : σ) (cv : CV) (y : Series α)
    (X : Option (Series ξ)) (strategy : Strategy) (scoring : Scoring α β) (fitParams : Option Int)
    (retData : Bool) : List (Call α ξ) × Except Err (Table α β) :=
  if strategy == .invalid then ([], .error .value)                     -- `_check_strategy`
  else match checkCv cv with                                            -- `check_cv`
  | .error e => ([], .error e)
  | .ok _ =>
  match resolveScoring dflt scoring with                                -- `check_scoring`
  | .error e => ([], .error e)
  | .ok mt =>
  match checkYX y X with                                                -- `check_y_X`
  | .error e => ([], .error e)
  | .ok _ =>
  match mt.name with                                                    -- `"test_" + scoring.name`
  | none => ([], .error .attr)
  | some nm =>
  match cv.split y.length with                                          -- first `next` of `cv.split(y)`
  | .error e => ([], .error (ofSplitErr e))
  | .ok folds =>
    let r := loop ⟨m, mt.fn, strategy, retData, fitParams, y, X, cv.fh⟩ 0 st0 folds
    (r.1, match r.2 with
      | .error e => .error e
      | .ok rows => if rows.isEmpty then .error .key          -- `drop`/column access on an empty frame
                    else .ok ⟨"test_" ++ nm, rows⟩)

end SkVerif.Evaluate
