/-
C14: segmenters (sktime/transformations/panel/segment.py).
  IntervalSegmenter.fit / transform   (intervals: int → np.array_split of the time index, or explicit rows)
  SlidingWindowSegmenter.transform    (edge padding by window_length // 2, hop 1)
Import-free.
-/
import SkVerif.Model.C14PAA
namespace SkVerif.C14

/-- `check_X(enforce_univariate=True, coerce_to_numpy=True)` followed by `X.squeeze(1)`:
one column, all series equally long; returns the `n_instances × n_timepoints` table -/
def univariateTable (X : Panel) : Except Err (List (List Rat)) := do
  checkX X
  if nColumns X > 1 then .error .value
  else
    let col := column X 0
    if rectangular col then pure col else .error .value

/-- `np.array_split(np.arange(n), k)`: the first `n % k` sections have `n / k + 1` elements, the
rest `n / k`; sections are consecutive (`div_points = cumsum(section_sizes)`) -/
def arraySplitSizes (n k : Nat) : List Nat :=
  List.replicate (n % k) (n / k + 1) ++ List.replicate (k - n % k) (n / k)

/-- consecutive index blocks with the given sizes, starting at `start` -/
def blocksFrom (start : Nat) : List Nat → List (List Int)
  | [] => []
  | s :: rest => ((List.range s).map (fun i => ((start + i : Nat) : Int))) :: blocksFrom (start + s) rest

def arraySplit (n k : Nat) : List (List Int) := blocksFrom 0 (arraySplitSizes n k)

/-- the `intervals` constructor argument -/
inductive Intervals
  | count (k : Int)                    -- int: number of intervals
  | rows (rs : List (List Int))        -- 2-D ndarray, rows `[start, end]`
  | other                              -- list, float, str, …
  deriving Repr

/-- `np.array([split[0], split[-1] + 1])`: the `[start, end)` pair of one `array_split` piece -/
def splitToPair (blk : List Int) : Except Err (List Int) :=
  match blk.head?, blk.getLast? with
  | some s, some e => .ok [s, e + 1]
  | _, _ => .error .index

/-- `IntervalSegmenter.fit`: `intervals_` as a list of integer arrays (rows `[start, end)`) -/
def isegFit (iv : Intervals) (X : Panel) : Except Err (List (List Int)) := do
  let tbl ← univariateTable X
  let n := (tbl.head?.getD []).length
  match iv with
  | .rows rs => pure rs
  | .count k =>
    if ¬ (k ≤ ((n / 2 : Nat) : Int)) then .error .value
    else if k ≤ 0 then .error .value            -- np.array_split: number sections must be larger than 0
    else (arraySplit n k.toNat).mapM splitToPair
  | .other => .error .value

/-- Python slice `xs[start:end]` (negative bounds count from the end, out-of-range bounds clamp) -/
def pySlice (xs : List Rat) (s e : Int) : List Rat :=
  let n : Int := xs.length
  let norm := fun (i : Int) => if i < 0 then max (i + n) 0 else min i n
  let s' := norm s
  let e' := norm e
  (xs.drop s'.toNat).take (e' - s').toNat

/-- `start, end = interval[0], interval[-1]` -/
def ivBounds (iv : List Int) : Except Err (Int × Int) :=
  match iv.head?, iv.getLast? with
  | some s, some e => .ok (s, e)
  | _, _ => .error .index

/-- `IntervalSegmenter.transform`: for each fitted interval `start, end = interval[0], interval[-1]`
and the segment is `X[:, start:end]`; result has one column per interval -/
def isegTransform (ivs : List (List Int)) (X : Panel) : Except Err Panel := do
  let tbl ← univariateTable X
  let bounds ← ivs.mapM ivBounds
  pure (tbl.map (fun row => bounds.map (fun b => pySlice row b.1 b.2)))

def iseg (iv : Intervals) (Xfit X : Panel) : Except Err Panel := do
  let ivs ← isegFit iv Xfit
  isegTransform ivs X

/-- `np.pad(x, p, mode="edge")` -/
def edgePad (p : Nat) (xs : List Rat) : List Rat :=
  match xs.head?, xs.getLast? with
  | some a, some b => List.replicate p a ++ xs ++ List.replicate p b
  | _, _ => xs

/-- `_extract_subsequences`: `n` windows of length `w`, window `j` starts at position `j` of the
padded series (strides of one item) -/
def windows (w n : Nat) (padded : List Rat) : List (List Rat) :=
  (List.range n).map (fun j => (padded.drop j).take w)

/-- `SlidingWindowSegmenter(window_length).fit(..).transform(X)`: instance `i` gets `n_timepoints`
columns, column `j` holding window `j` -/
def slidingWindow (w : IntParam) (X : Panel) : Except Err Panel := do
  let tbl ← univariateTable X
  match w with
  | .notInt => .error .type
  | .int w =>
    if w ≤ 0 then .error .value
    else
      let w := w.toNat
      pure (tbl.map (fun row => windows w row.length (edgePad (w / 2) row)))

end SkVerif.C14
