/-
C14: column labels of a nested data frame in tabularisation / column concatenation.
  sktime/utils/data_processing.py  from_nested_to_2d_array (the frame branch)
  sktime/transformations/panel/reduce.py   Tabularizer.transform
  sktime/transformations/panel/compose.py  ColumnConcatenator.transform

A nested data frame is a panel plus one label per column (`labels[j]` names column `j`); labels can be of any
type and in any order.  The code walks the columns BY POSITION (`X.iloc[:, i] for i in range(X.shape[1])`); the
labels only enter the names of the tabular columns (`f"{colname}__{i}"` for `colname, col in X.items()`, `i` in
the time index of the column's first cell).  Import-free.
-/
import SkVerif.Model.C14Panel
namespace SkVerif.C14

/-- names of the tabular columns as pairs (column label, time index): for each column in frame order, the time
index `t0, t0+1, …` of the first instance's cell -/
def tabularNames {ι : Type} (labels : List ι) (t0 : Nat) (X : Panel) : List (ι × Nat) :=
  ((labels.zip (X.headD [])).map (fun lc => (List.range lc.2.length).map (fun t => (lc.1, t0 + t)))).flatten

/-- `Tabularizer().fit(..).transform(X)` for a nested data frame with column labels `labels`:
(names of the tabular columns, table) -/
def tabularizeL {ι : Type} (labels : List ι) (t0 : Nat) (X : Panel) :
    Except Err (List (ι × Nat) × List (List Rat)) := do
  let rows ← tabularize X
  pure (tabularNames labels t0 X, rows)

/-- `ColumnConcatenator().fit(..).transform(X)` for a nested data frame with column labels -/
def columnConcatL {ι : Type} (_labels : List ι) (X : Panel) : Except Err Panel := columnConcat X

end SkVerif.C14
